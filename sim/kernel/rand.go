// Package kernel holds what all simulation engines share: the seeded PRNG
// (stream and keyed forms), scenario/replay types, the worker loop and the
// statistics that end up in the evidence files.
package kernel

import (
	"math/big"
)

// mix is the splitmix64 finaliser.
func mix(z uint64) uint64 {
	z += 0x9e3779b97f4a7c15
	z = (z ^ (z >> 30)) * 0xbf58476d1ce4e5b9
	z = (z ^ (z >> 27)) * 0x94d049bb133111eb
	return z ^ (z >> 31)
}

// HashString is FNV-1a 64 followed by a mix.
func HashString(s string) uint64 {
	h := uint64(0xcbf29ce484222325)
	for i := 0; i < len(s); i++ {
		h ^= uint64(s[i])
		h *= 0x100000001b3
	}
	return mix(h)
}

// HashBytes is FNV-1a 64 followed by a mix.
func HashBytes(b []byte) uint64 {
	h := uint64(0xcbf29ce484222325)
	for _, c := range b {
		h ^= uint64(c)
		h *= 0x100000001b3
	}
	return mix(h)
}

// Derive derives a new seed from a seed and a list of string / integer parts.
// It is the keyed construction of DESIGN R2: the value depends only on the
// seed and the key, never on how often or in which order someone asked.
func Derive(seed uint64, parts ...any) uint64 {
	h := mix(seed)
	for _, p := range parts {
		switch v := p.(type) {
		case string:
			h = mix(h ^ HashString(v))
		case int:
			h = mix(h ^ mix(uint64(v)+0x51))
		case int64:
			h = mix(h ^ mix(uint64(v)+0x51))
		case uint64:
			h = mix(h ^ mix(v+0x51))
		case uint32:
			h = mix(h ^ mix(uint64(v)+0x51))
		default:
			panic("kernel.Derive: unsupported key part")
		}
	}
	return h
}

// Rand is a splitmix64 stream. Generators (single-threaded) use streams;
// concurrent seams use Derive with a logical key instead.
type Rand struct{ s uint64 }

// NewRand returns a stream seeded with seed.
func NewRand(seed uint64) *Rand { return &Rand{s: seed} }

// Fork returns an independent stream named by key.
func (r *Rand) Fork(key string) *Rand { return &Rand{s: Derive(r.Uint64(), key)} }

// Uint64 returns the next value.
func (r *Rand) Uint64() uint64 {
	r.s += 0x9e3779b97f4a7c15
	z := r.s
	z = (z ^ (z >> 30)) * 0xbf58476d1ce4e5b9
	z = (z ^ (z >> 27)) * 0x94d049bb133111eb
	return z ^ (z >> 31)
}

// Intn returns a value in [0,n). n<=0 yields 0.
func (r *Rand) Intn(n int) int {
	if n <= 1 {
		return 0
	}
	return int(r.Uint64() % uint64(n))
}

// Int63n returns a value in [0,n).
func (r *Rand) Int63n(n int64) int64 {
	if n <= 1 {
		return 0
	}
	return int64(r.Uint64() % uint64(n))
}

// Range returns a value in [lo,hi].
func (r *Rand) Range(lo, hi int) int {
	if hi <= lo {
		return lo
	}
	return lo + r.Intn(hi-lo+1)
}

// Float64 returns a value in [0,1).
func (r *Rand) Float64() float64 { return float64(r.Uint64()>>11) / (1 << 53) }

// Bool is true with probability p.
func (r *Rand) Bool(p float64) bool { return r.Float64() < p }

// Bytes fills a new slice of length n.
func (r *Rand) Bytes(n int) []byte {
	b := make([]byte, n)
	for i := 0; i < n; i += 8 {
		v := r.Uint64()
		for j := 0; j < 8 && i+j < n; j++ {
			b[i+j] = byte(v >> (8 * j))
		}
	}
	return b
}

// Read implements io.Reader (never fails) so a stream can feed key generation.
func (r *Rand) Read(p []byte) (int, error) {
	copy(p, r.Bytes(len(p)))
	return len(p), nil
}

// BigBelow returns a non-negative big integer with up to maxBytes bytes.
func (r *Rand) BigBelow(maxBytes int) *big.Int {
	if maxBytes <= 0 {
		return new(big.Int)
	}
	return new(big.Int).SetBytes(r.Bytes(r.Range(0, maxBytes)))
}

// Perm returns a permutation of 0..n-1.
func (r *Rand) Perm(n int) []int {
	p := make([]int, n)
	for i := range p {
		p[i] = i
	}
	for i := n - 1; i > 0; i-- {
		j := r.Intn(i + 1)
		p[i], p[j] = p[j], p[i]
	}
	return p
}

// Weighted picks an index with probability proportional to w[i].
func (r *Rand) Weighted(w []int) int {
	t := 0
	for _, x := range w {
		t += x
	}
	if t <= 0 {
		return 0
	}
	k := r.Intn(t)
	for i, x := range w {
		if k < x {
			return i
		}
		k -= x
	}
	return len(w) - 1
}
