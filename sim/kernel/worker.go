package kernel

import (
	"encoding/json"
	"fmt"
	"os"
	"regexp"
	"runtime"
	"runtime/debug"
	"sort"
	"strconv"
	"strings"
	"sync/atomic"
	"testing"
	"time"
)

// Plan says how many runs a (property, tier) batch has.
type Plan struct {
	Runs       int  `json:"runs"`       // total runs, including Exhaustive
	Exhaustive int  `json:"exhaustive"` // the first Exhaustive run indices enumerate a finite sub-space
	Pin        bool `json:"pin"`        // GOMAXPROCS(1) + GC only between runs (world kernel, R4)
	CrashProne bool `json:"crash_prone"`
	// ExhaustiveNote describes the enumerated sub-space for the evidence.
	ExhaustiveNote string `json:"exhaustive_note,omitempty"`
}

// Describe is static evidence text of an engine for one property.
type Describe struct {
	Rule        string   `json:"rule"`
	Assumptions []string `json:"assumptions"`
	Real        []string `json:"real_components"`
	Stub        []string `json:"stub_components"`
	FaultKinds  []string `json:"fault_kinds"`
}

// Engine is implemented by every simulation engine.
type Engine interface {
	Name() string
	Plan(prop, tier string) Plan
	Generate(prop, tier string, run int, seed uint64) *Scenario
	Execute(t *testing.T, sc *Scenario, trace bool) *Result
	Describe(prop string) Describe
}

// Summary is what a worker writes when it finishes its range.
type Summary struct {
	Property     string            `json:"property"`
	Engine       string            `json:"engine"`
	Tier         string            `json:"tier"`
	Seed         uint64            `json:"seed"`
	From         int               `json:"from"`
	To           int               `json:"to"`
	Runs         int               `json:"runs"`
	Evals        int64             `json:"evals"`
	SimNs        int64             `json:"sim_ns"`
	WallS        float64           `json:"wall_s"`
	Digests      []uint64          `json:"digests"`
	NonTrivial   []uint64          `json:"nontrivial"`
	States       []uint64          `json:"states"`
	Interleaving []uint64          `json:"interleavings"`
	Counters     map[string]int64  `json:"counters"`
	Known        map[string]int64  `json:"known"`
	Samples      []Sample          `json:"samples"`
	Violations   []ViolationRef    `json:"violations"`
	BudgetCut    bool              `json:"budget_cut"`
	RunHashes    map[string]uint64 `json:"run_hashes,omitempty"`
	Describe     Describe          `json:"describe"`
	Plan         Plan              `json:"plan"`
}

// Sample is one explicit case for the evidence file.
type Sample struct {
	Scenario *Scenario `json:"scenario"`
	Trace    []string  `json:"trace,omitempty"`
}

// ViolationRef points at a replay file written by the worker.
type ViolationRef struct {
	Run    int    `json:"run"`
	Check  string `json:"check"`
	Detail string `json:"detail"`
	Replay string `json:"replay"`
}

func envInt(k string, def int) int {
	if v := os.Getenv(k); v != "" {
		n, err := strconv.ParseInt(v, 10, 64)
		if err != nil {
			fmt.Fprintf(os.Stderr, "bad %s=%q\n", k, v)
			os.Exit(2)
		}
		return int(n)
	}
	return def
}

func envSeed() uint64 {
	if v := os.Getenv("VERIF_SEED"); v != "" {
		n, err := strconv.ParseInt(v, 10, 64)
		if err != nil {
			u, err2 := strconv.ParseUint(v, 10, 64)
			if err2 != nil {
				fmt.Fprintf(os.Stderr, "bad VERIF_SEED=%q\n", v)
				os.Exit(2)
			}
			return u
		}
		return uint64(n)
	}
	return 1
}

var progress atomic.Int64

// Progress is bumped by engines (and once per run) so the watchdog sees life.
func Progress() { progress.Add(1) }

func startWatchdog(limit time.Duration, where func() string) {
	go func() {
		last := progress.Load()
		lastT := time.Now()
		for {
			time.Sleep(2 * time.Second)
			cur := progress.Load()
			if cur != last {
				last, lastT = cur, time.Now()
				continue
			}
			if time.Since(lastT) > limit {
				fmt.Fprintf(os.Stderr, "WATCHDOG: no progress for %v in %s\n", limit, where())
				// all goroutines - but those that have been blocked for minutes are
				// left-overs of earlier runs of this worker (a bubble that ends with
				// parked goroutines leaves them behind): in a long-lived worker they
				// would push the stalled run's own goroutines out of the dump
				buf := make([]byte, 64<<20)
				n := runtime.Stack(buf, true)
				old := regexp.MustCompile(`^goroutine \d+ \[[^\]]*, \d+ minutes`)
				kept, dropped := 0, 0
				for _, g := range strings.Split(string(buf[:n]), "\n\n") {
					if old.MatchString(g) {
						dropped++
						continue
					}
					if kept < 1<<20 {
						os.Stderr.WriteString(g + "\n\n")
						kept += len(g)
					}
				}
				fmt.Fprintf(os.Stderr, "(%d goroutines left behind by earlier runs not shown)\n", dropped)
				os.Exit(3)
			}
		}
	}()
}

// RunWorker is the body of every engine's TestWorker.
func RunWorker(t *testing.T, e Engine) {
	mode := os.Getenv("VERIF_MODE")
	prop := os.Getenv("VERIF_PROP")
	tier := os.Getenv("VERIF_TIER")
	if tier == "" {
		tier = "quick"
	}
	if mode == "" {
		t.Skip("VERIF_MODE not set; this binary is driven by /verif/check")
	}
	plan := e.Plan(prop, tier)
	switch mode {
	case "plan":
		fmt.Printf("PLAN %s\n", MustJSON(plan))
		return
	case "replay":
		runReplay(t, e, plan)
		return
	case "run":
	default:
		fmt.Fprintf(os.Stderr, "bad VERIF_MODE %q\n", mode)
		os.Exit(2)
	}

	seed := envSeed()
	from := envInt("VERIF_FROM", 0)
	to := envInt("VERIF_TO", plan.Runs)
	stride := envInt("VERIF_STRIDE", 1) // run indices from, from+stride, ...
	out := os.Getenv("VERIF_OUT")
	cur := os.Getenv("VERIF_CUR")
	budget := time.Duration(envInt("VERIF_BUDGET_S", 0)) * time.Second
	nSamples := envInt("VERIF_SAMPLES", 1)
	maxViol := envInt("VERIF_MAX_VIOL", 1)
	var known []*regexp.Regexp
	var knownSrc []string
	if kf := os.Getenv("VERIF_KNOWN"); kf != "" {
		b, err := os.ReadFile(kf)
		if err != nil {
			fmt.Fprintln(os.Stderr, err)
			os.Exit(2)
		}
		if err := json.Unmarshal(b, &knownSrc); err != nil {
			fmt.Fprintln(os.Stderr, err)
			os.Exit(2)
		}
		for _, s := range knownSrc {
			known = append(known, regexp.MustCompile(s))
		}
	}

	var focus *regexp.Regexp
	if f := os.Getenv("VERIF_FOCUS"); f != "" {
		focus = regexp.MustCompile(f) // debugging aid: only report violations whose signature matches
	}
	if plan.Pin {
		runtime.GOMAXPROCS(1)
		debug.SetGCPercent(-1)
	}
	var curRun atomic.Int64
	startWatchdog(time.Duration(envInt("VERIF_WATCHDOG_S", 60))*time.Second, func() string {
		return fmt.Sprintf("property=%s run=%d seed=%d", prop, curRun.Load(), seed)
	})

	sum := &Summary{Property: prop, Engine: e.Name(), Tier: tier, Seed: seed, From: from, To: to,
		Counters: map[string]int64{}, Known: map[string]int64{}, Describe: e.Describe(prop), Plan: plan}
	digests := map[uint64]struct{}{}
	nontriv := map[uint64]struct{}{}
	states := map[uint64]struct{}{}
	inter := map[uint64]struct{}{}
	start := time.Now()
	n := 0
	for run := from; run < to; run += stride {
		if budget > 0 && time.Since(start) > budget {
			sum.BudgetCut = true
			break
		}
		curRun.Store(int64(run))
		rs := Derive(seed, prop, run)
		sc := e.Generate(prop, tier, run, rs)
		if sc == nil {
			continue
		}
		sc.Engine, sc.Property, sc.Seed, sc.Run = e.Name(), prop, rs, run
		if cur != "" && plan.CrashProne {
			_ = os.WriteFile(cur, MustJSON(&Replay{Scenario: *sc}), 0o644)
		}
		wantTrace := len(sum.Samples) < nSamples && run >= plan.Exhaustive
		traceDir := os.Getenv("VERIF_TRACEDIR")
		if traceDir != "" {
			wantTrace = true
		}
		res := e.Execute(t, sc, wantTrace)
		Progress()
		n++
		if traceDir != "" {
			_ = os.WriteFile(fmt.Sprintf("%s/run-%d.txt", traceDir, run), []byte(strings.Join(res.Trace, "\n")+"\n"), 0o644)
		}
		if plan.Pin && n%25 == 0 {
			runtime.GC()
		}
		sum.Runs++
		if res.Evals > 0 {
			sum.Evals += res.Evals
		} else {
			sum.Evals++
		}
		sum.SimNs += res.SimNs
		if os.Getenv("VERIF_RUNHASH") != "" {
			if sum.RunHashes == nil {
				sum.RunHashes = map[string]uint64{}
			}
			h := Derive(res.Interleaving, res.SimNs)
			if res.Violation != nil {
				h = Derive(h, res.Violation.Check)
			}
			sum.RunHashes[strconv.Itoa(run)] = h
		}
		d := sc.Digest()
		if res.Interleaving != 0 {
			d = Derive(d, res.Interleaving)
			inter[res.Interleaving] = struct{}{}
		}
		digests[d] = struct{}{}
		if res.NonTrivial {
			nontriv[d] = struct{}{}
		}
		for _, s := range res.States {
			states[s] = struct{}{}
		}
		for k, v := range res.Counters {
			sum.Counters[k] += v
		}
		if wantTrace && res.Violation == nil && (res.NonTrivial || run == to-1) {
			tr := res.Trace
			if len(tr) > 60 {
				tr = append(append([]string{}, tr[:60]...), fmt.Sprintf("... (%d more events)", len(res.Trace)-60))
			}
			sum.Samples = append(sum.Samples, Sample{Scenario: sc, Trace: tr})
		}
		if v := res.Violation; v != nil {
			isKnown := false
			if focus != nil && !focus.MatchString(v.Check) {
				sum.Known["(outside VERIF_FOCUS) "+v.Check]++
				continue
			}
			for i, re := range known {
				if re.MatchString(v.Check) {
					sum.Known[knownSrc[i]]++
					isKnown = true
					break
				}
			}
			if isKnown {
				continue
			}
			// re-execute with tracing for the replay file
			tr := res.Trace
			if !wantTrace && res.Explicit == nil {
				if r2 := e.Execute(t, sc, true); r2.Violation != nil {
					tr = r2.Trace
				}
			}
			path := fmt.Sprintf("%s.viol-%d.json", out, run)
			rsc := sc
			if res.Explicit != nil {
				rsc = res.Explicit
				rsc.Engine, rsc.Property, rsc.Seed, rsc.Run = sc.Engine, sc.Property, sc.Seed, sc.Run
			}
			_ = os.WriteFile(path, MustJSON(&Replay{Scenario: *rsc, Violation: v, Trace: tr}), 0o644)
			sum.Violations = append(sum.Violations, ViolationRef{Run: run, Check: v.Check, Detail: v.Detail, Replay: path})
			if len(sum.Violations) >= maxViol {
				break
			}
		}
	}
	sum.WallS = time.Since(start).Seconds()
	sum.Digests = keys(digests)
	sum.NonTrivial = keys(nontriv)
	sum.States = keys(states)
	sum.Interleaving = keys(inter)
	if out != "" {
		if err := os.WriteFile(out, MustJSON(sum), 0o644); err != nil {
			fmt.Fprintln(os.Stderr, err)
			os.Exit(2)
		}
	}
	if cur != "" {
		_ = os.Remove(cur)
	}
}

func keys(m map[uint64]struct{}) []uint64 {
	k := make([]uint64, 0, len(m))
	for x := range m {
		k = append(k, x)
	}
	sort.Slice(k, func(i, j int) bool { return k[i] < k[j] })
	return k
}

// ReplayResult is printed by replay mode.
type ReplayResult struct {
	Violation *Violation `json:"violation"`
	Trace     []string   `json:"trace,omitempty"`
	TraceHash uint64     `json:"trace_hash"`
}

func runReplay(t *testing.T, e Engine, plan Plan) {
	path := os.Getenv("VERIF_REPLAY")
	b, err := os.ReadFile(path)
	if err != nil {
		fmt.Fprintln(os.Stderr, err)
		os.Exit(2)
	}
	var rp Replay
	if err := json.Unmarshal(b, &rp); err != nil {
		fmt.Fprintln(os.Stderr, err)
		os.Exit(2)
	}
	if plan.Pin {
		runtime.GOMAXPROCS(1)
		debug.SetGCPercent(-1)
	}
	startWatchdog(time.Duration(envInt("VERIF_WATCHDOG_S", 60))*time.Second, func() string { return "replay " + path })
	res := e.Execute(t, &rp.Scenario, true)
	h := uint64(7)
	for _, l := range res.Trace {
		h = Derive(h, l)
	}
	rr := ReplayResult{Violation: res.Violation, TraceHash: h}
	if os.Getenv("VERIF_REPLAY_TRACE") != "" {
		rr.Trace = res.Trace
	}
	out := MustJSON(rr)
	if o := os.Getenv("VERIF_OUT"); o != "" {
		_ = os.WriteFile(o, out, 0o644)
	}
	fmt.Printf("REPLAY-RESULT %s\n", out)
}
