package kernel

import (
	"encoding/json"
	"fmt"
	"sort"
	"strings"
)

// Step is one generated operation or fault of a scenario, in symbolic form.
// All engines use the same shape so that the coordinator's delta-debugging
// minimiser can drop and shrink steps without knowing the engine.
type Step struct {
	Op string            `json:"op"`
	A  map[string]int64  `json:"a,omitempty"`
	S  map[string]string `json:"s,omitempty"`
}

// Int returns integer argument k (0 when absent).
func (s *Step) Int(k string) int64 { return s.A[k] }

// Has reports whether integer argument k is present.
func (s *Step) Has(k string) bool { _, ok := s.A[k]; return ok }

// Str returns string argument k.
func (s *Step) Str(k string) string { return s.S[k] }

// St builds a step: St("pay", "from", 0, "amt", 5, "note", "x").
func St(op string, kv ...any) Step {
	s := Step{Op: op}
	for i := 0; i+1 < len(kv); i += 2 {
		k := kv[i].(string)
		switch v := kv[i+1].(type) {
		case int:
			if s.A == nil {
				s.A = map[string]int64{}
			}
			s.A[k] = int64(v)
		case int64:
			if s.A == nil {
				s.A = map[string]int64{}
			}
			s.A[k] = v
		case uint64:
			if s.A == nil {
				s.A = map[string]int64{}
			}
			s.A[k] = int64(v)
		case bool:
			if s.A == nil {
				s.A = map[string]int64{}
			}
			if v {
				s.A[k] = 1
			} else {
				s.A[k] = 0
			}
		case string:
			if s.S == nil {
				s.S = map[string]string{}
			}
			s.S[k] = v
		default:
			panic(fmt.Sprintf("kernel.St: bad value for %s", k))
		}
	}
	return s
}

func (s Step) String() string {
	var b strings.Builder
	b.WriteString(s.Op)
	keys := make([]string, 0, len(s.A)+len(s.S))
	for k := range s.A {
		keys = append(keys, k)
	}
	for k := range s.S {
		keys = append(keys, k)
	}
	sort.Strings(keys)
	for _, k := range keys {
		if v, ok := s.A[k]; ok {
			fmt.Fprintf(&b, " %s=%d", k, v)
		} else {
			fmt.Fprintf(&b, " %s=%s", k, s.S[k])
		}
	}
	return b.String()
}

// Scenario is the explicit description of one simulated run. Together with the
// tree under /repo it determines the run: every delay and choice that is not
// written out derives from Seed through keyed hashing.
type Scenario struct {
	Engine   string           `json:"engine"`
	Property string           `json:"property"`
	Seed     uint64           `json:"seed"`
	Run      int              `json:"run"`
	Config   map[string]int64 `json:"config,omitempty"`
	Steps    []Step           `json:"steps"`
	Faults   []Step           `json:"faults,omitempty"`
	// Delays overrides single keyed delays (key -> nanoseconds).
	Delays map[string]int64 `json:"delays,omitempty"`
}

// Cfg returns config value k or def.
func (s *Scenario) Cfg(k string, def int64) int64 {
	if v, ok := s.Config[k]; ok {
		return v
	}
	return def
}

// Digest hashes the explicit scenario (not the trace).
func (s *Scenario) Digest() uint64 {
	h := Derive(1, s.Engine, s.Property)
	keys := make([]string, 0, len(s.Config))
	for k := range s.Config {
		keys = append(keys, k)
	}
	sort.Strings(keys)
	for _, k := range keys {
		h = Derive(h, k, s.Config[k])
	}
	for _, st := range s.Steps {
		h = Derive(h, st.String())
	}
	h = Derive(h, "|")
	for _, st := range s.Faults {
		h = Derive(h, st.String())
	}
	return h
}

// Violation describes a failed oracle.
type Violation struct {
	// Check is the signature: "<property>.<check-name>[@<site or input class>]".
	// Known findings are matched against it.
	Check  string `json:"check"`
	Detail string `json:"detail"`
	Step   int    `json:"step"`
}

// Result is what one executed scenario reports.
type Result struct {
	Violation    *Violation
	NonTrivial   bool
	Counters     map[string]int64 // "fault.<kind>", "probe.<name>", "op.<name>"
	SimNs        int64
	States       []uint64 // abstract states reached (hashes)
	Interleaving uint64   // hash of the seam-event order; 0 if not applicable
	Evals        int64    // individual oracle evaluations inside the run (>=1)
	Trace        []string // filled only when tracing
	// Explicit replaces the scenario in the replay file (enumerating runs
	// report the one concrete case that failed).
	Explicit *Scenario
}

// Count increments a counter.
func (r *Result) Count(k string, n int64) {
	if r.Counters == nil {
		r.Counters = map[string]int64{}
	}
	r.Counters[k] += n
}

// Fail records the first violation.
func (r *Result) Fail(step int, check, format string, args ...any) {
	if r.Violation != nil {
		return
	}
	r.Violation = &Violation{Check: check, Detail: fmt.Sprintf(format, args...), Step: step}
}

// Replay is the replay file format.
type Replay struct {
	Scenario   Scenario   `json:"scenario"`
	Violation  *Violation `json:"violation,omitempty"`
	Trace      []string   `json:"trace,omitempty"`
	Reproduced *bool      `json:"reproduced,omitempty"`
	Minimised  bool       `json:"minimised,omitempty"`
	Note       string     `json:"note,omitempty"`
}

// MustJSON marshals v.
func MustJSON(v any) []byte {
	b, err := json.Marshal(v)
	if err != nil {
		panic(err)
	}
	return b
}
