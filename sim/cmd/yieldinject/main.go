// Command yieldinject inserts simhook.Yield calls into Go source files of a
// scratch copy of the repository: before every call of a method named Lock or
// RLock that is made while the function itself holds no lock (lexical lock
// depth 0; a deferred Unlock keeps the depth until the function ends). These
// are exactly the points where a simulated goroutine may be parked without
// violating rule R3, and they follow the code through refactorings: a lock
// that is split into two critical sections gets a yield point in between.
//
// usage: yieldinject <file.go>...
package main

import (
	"bytes"
	"fmt"
	"go/ast"
	"go/format"
	"go/parser"
	"go/token"
	"os"
	"path/filepath"
	"strconv"
)

func lockCall(e ast.Expr) string {
	c, ok := e.(*ast.CallExpr)
	if !ok {
		return ""
	}
	s, ok := c.Fun.(*ast.SelectorExpr)
	if !ok || len(c.Args) != 0 {
		return ""
	}
	switch s.Sel.Name {
	case "Lock", "RLock", "Unlock", "RUnlock":
		return s.Sel.Name
	}
	return ""
}

type injector struct {
	fset  *token.FileSet
	base  string
	count int
}

// block rewrites a statement list, tracking the lexical lock depth.
func (in *injector) block(list []ast.Stmt, depth int) ([]ast.Stmt, int) {
	var out []ast.Stmt
	for _, st := range list {
		switch s := st.(type) {
		case *ast.ExprStmt:
			switch lockCall(s.X) {
			case "Lock", "RLock":
				if depth == 0 {
					pos := in.fset.Position(s.Pos())
					site := fmt.Sprintf("auto:%s:%d", in.base, pos.Line)
					out = append(out, &ast.ExprStmt{X: &ast.CallExpr{
						Fun:  &ast.SelectorExpr{X: ast.NewIdent("simhook"), Sel: ast.NewIdent("Yield")},
						Args: []ast.Expr{&ast.BasicLit{Kind: token.STRING, Value: strconv.Quote(site)}},
					}})
					in.count++
				}
				depth++
			case "Unlock", "RUnlock":
				if depth > 0 {
					depth--
				}
			}
		case *ast.DeferStmt:
			// defer x.Unlock(): the lock stays held until the function returns
		case *ast.BlockStmt:
			s.List, depth = in.block(s.List, depth)
		case *ast.IfStmt:
			s.Body.List, _ = in.block(s.Body.List, depth)
			if e, ok := s.Else.(*ast.BlockStmt); ok {
				e.List, _ = in.block(e.List, depth)
			}
		case *ast.ForStmt:
			s.Body.List, _ = in.block(s.Body.List, depth)
		case *ast.RangeStmt:
			s.Body.List, _ = in.block(s.Body.List, depth)
		case *ast.SwitchStmt:
			for _, c := range s.Body.List {
				cc := c.(*ast.CaseClause)
				cc.Body, _ = in.block(cc.Body, depth)
			}
		case *ast.SelectStmt:
			for _, c := range s.Body.List {
				cc := c.(*ast.CommClause)
				cc.Body, _ = in.block(cc.Body, depth)
			}
		}
		out = append(out, st)
	}
	return out, depth
}

func main() {
	for _, path := range os.Args[1:] {
		fset := token.NewFileSet()
		f, err := parser.ParseFile(fset, path, nil, parser.ParseComments)
		if err != nil {
			fmt.Fprintln(os.Stderr, err)
			os.Exit(1)
		}
		in := &injector{fset: fset, base: filepath.Base(path)}
		ast.Inspect(f, func(n ast.Node) bool {
			switch fn := n.(type) {
			case *ast.FuncDecl:
				if fn.Body != nil {
					fn.Body.List, _ = in.block(fn.Body.List, 0)
				}
			case *ast.FuncLit:
				fn.Body.List, _ = in.block(fn.Body.List, 0)
			}
			return true
		})
		if in.count > 0 {
			has := false
			for _, im := range f.Imports {
				if im.Path.Value == `"perun.network/go-perun/simhook"` {
					has = true
				}
			}
			if !has {
				f.Decls = append([]ast.Decl{&ast.GenDecl{Tok: token.IMPORT, Specs: []ast.Spec{
					&ast.ImportSpec{Path: &ast.BasicLit{Kind: token.STRING, Value: `"perun.network/go-perun/simhook"`}}}}}, f.Decls...)
			}
		}
		var buf bytes.Buffer
		if err := format.Node(&buf, fset, f); err != nil {
			fmt.Fprintln(os.Stderr, path, err)
			os.Exit(1)
		}
		if err := os.WriteFile(path, buf.Bytes(), 0o644); err != nil {
			fmt.Fprintln(os.Stderr, err)
			os.Exit(1)
		}
		fmt.Printf("%s: %d yield points\n", path, in.count)
	}
}
