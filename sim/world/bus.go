package world

import (
	"bytes"
	"context"
	"errors"
	"fmt"
	"sync"
	"sync/atomic"
	"time"

	"perun.network/go-perun/client"
	"perun.network/go-perun/wallet"
	"perun.network/go-perun/wire"
	perunioser "perun.network/go-perun/wire/perunio/serializer"
	protoser "perun.network/go-perun/wire/protobuf"
)

// Bus is the simulated wire.Bus (DESIGN 3.2): every envelope is serialised and
// decoded again, delivered after a keyed delay, and subject to the fault plan.
type Bus struct {
	S *Sim

	mu     sync.Mutex
	recv   map[wire.AddrKey]wire.Consumer
	gen    map[wire.AddrKey]int
	names  map[wire.AddrKey]string
	tail   map[string]time.Duration // per directed pair: last scheduled delivery instant (FIFO mode)
	parted map[string]bool          // "A>B" directed partitions currently active

	Ser      wire.EnvelopeSerializer
	SerName  string
	Fifo     bool          // deliveries between one directed pair keep their order
	Async    bool          // Publish returns once the message is queued
	MinDelay time.Duration // delivery latency range
	MaxDelay time.Duration
	// AckMax > 0 (synchronous mode): Publish returns up to AckMax after the
	// message was handed to the recipient - the sender learns late that its
	// message is out (a slow link layer), while the recipient already acts on it
	AckMax time.Duration
	DropP  float64 // relaxed configurations only
	DupP   float64
	// Tap sees every envelope at publish time (after re-serialisation).
	Tap func(from, to string, e *wire.Envelope, fate string)
	// FailSend makes Publish fail for the envelopes it selects: the sender gets
	// an error and nothing is delivered (a connection fault at send time).
	FailSend func(from, to string, e *wire.Envelope) bool
	// Inner, if set, is a real bus of the library (wire.LocalBus) that carries
	// the deliveries: the simulated bus keeps the naming, re-serialisation,
	// taps, send faults and the delivery delay, then hands the envelope to
	// Inner.Publish with the sender's context and returns what that returns.
	// Loss, duplication, FIFO ordering and asynchronous sends are not
	// available in this mode.
	Inner wire.Bus
	// StallSendP: this share of the failing sends does not fail at once; the
	// connection stalls, Publish returns when the sender's context ends and
	// reports that context's error (only for contexts that have a deadline)
	StallSendP float64
	stalled    atomic.Int32
	// Sink may consume a published envelope at the moment of its delivery, in
	// place of the recipient's client (the harness plays a protocol role of
	// the recipient, e.g. the receiver of a channel synchronisation reply).
	Sink func(to string, e *wire.Envelope) bool
	// Intercept may swallow or replace an envelope (adversarial engines).
	Intercept func(from, to string, e *wire.Envelope) (*wire.Envelope, bool)
}

// NewBus creates a bus. ser: 0 native, 1 protobuf.
func NewBus(s *Sim, ser int) *Bus {
	b := &Bus{S: s, recv: map[wire.AddrKey]wire.Consumer{}, names: map[wire.AddrKey]string{}, tail: map[string]time.Duration{},
		parted: map[string]bool{}, MinDelay: 20 * time.Microsecond, MaxDelay: 400 * time.Microsecond}
	if ser == 1 {
		b.Ser, b.SerName = protoser.Serializer(), "protobuf"
	} else {
		b.Ser, b.SerName = perunioser.Serializer(), "native"
	}
	return b
}

// Name registers the logical name of an address.
func (b *Bus) Name(addr map[wallet.BackendID]wire.Address, name string) {
	b.mu.Lock()
	b.names[wire.Keys(addr)] = name
	b.mu.Unlock()
}

// NameOf returns the logical name of an address ("?" if unknown).
func (b *Bus) NameOf(addr map[wallet.BackendID]wire.Address) string { return b.nameOf(addr) }

func (b *Bus) nameOf(addr map[wallet.BackendID]wire.Address) string {
	b.mu.Lock()
	defer b.mu.Unlock()
	if n, ok := b.names[wire.Keys(addr)]; ok {
		return n
	}
	return "?"
}

// SubscribeClient implements wire.Bus.
func (b *Bus) SubscribeClient(c wire.Consumer, addr map[wallet.BackendID]wire.Address) error {
	k := wire.Keys(addr)
	b.mu.Lock()
	b.recv[k] = c
	if b.gen == nil {
		b.gen = map[wire.AddrKey]int{}
	}
	b.gen[k]++
	g := b.gen[k]
	b.mu.Unlock()
	c.OnCloseAlways(func() {
		b.mu.Lock()
		if b.gen[k] == g {
			delete(b.recv, k)
		}
		b.mu.Unlock()
	})
	if b.Inner != nil {
		return b.Inner.SubscribeClient(c, addr)
	}
	return nil
}

// Port is one client instance's view of the bus. A crashed instance's port is
// dead: whatever its left-over goroutines still publish goes nowhere.
type Port struct {
	B    *Bus
	dead atomic.Bool
}

// NewPort returns a live port.
func (b *Bus) NewPort() *Port { return &Port{B: b} }

// Kill marks the port dead.
func (p *Port) Kill() { p.dead.Store(true) }

// Publish implements wire.Publisher.
func (p *Port) Publish(ctx context.Context, e *wire.Envelope) error {
	if p.dead.Load() {
		return nil
	}
	return p.B.Publish(ctx, e)
}

// SubscribeClient implements wire.Bus.
func (p *Port) SubscribeClient(c wire.Consumer, addr map[wallet.BackendID]wire.Address) error {
	return p.B.SubscribeClient(c, addr)
}

// Detach removes the subscriber of an address (crash of that client).
func (b *Bus) Detach(addr map[wallet.BackendID]wire.Address) {
	k := wire.Keys(addr)
	b.mu.Lock()
	delete(b.recv, k)
	if b.gen == nil {
		b.gen = map[wire.AddrKey]int{}
	}
	b.gen[k]++
	b.mu.Unlock()
}

// Partition sets or heals a directed partition from>to.
func (b *Bus) Partition(from, to string, on bool) {
	b.mu.Lock()
	b.parted[from+">"+to] = on
	b.mu.Unlock()
}

// Reserialise passes an envelope through the run's serializer.
func (b *Bus) Reserialise(e *wire.Envelope) (out *wire.Envelope, err error) {
	var buf bytes.Buffer
	// Encoding is the sender's business: an envelope its serializer cannot
	// encode (error or panic) simply cannot be sent. Decoding is the
	// receiver's: a panic there is a crash of the receiving process and is
	// deliberately not recovered.
	func() {
		defer func() {
			if r := recover(); r != nil {
				err = fmt.Errorf("encode panicked: %v", r)
			}
		}()
		err = b.Ser.Encode(&buf, e)
	}()
	if err != nil {
		return nil, fmt.Errorf("encode: %w", err)
	}
	out, err = b.Ser.Decode(&buf)
	if err != nil {
		return nil, fmt.Errorf("decode: %w", err)
	}
	return out, nil
}

// StalledSends is the number of sends that are stalling right now (see
// StallSendP). Drivers that are about to overfill a receiver wait for it to
// become zero: a Put parked under a relay's standard read lock until a
// stalled sender's context ends would freeze the simulated clock (rule R3).
func (b *Bus) StalledSends() int { return int(b.stalled.Load()) }

// Publish implements wire.Publisher.
func (b *Bus) Publish(ctx context.Context, e *wire.Envelope) error {
	if b.S.Overrun() {
		return nil
	}
	from, to := b.nameOf(e.Sender), b.nameOf(e.Recipient)
	desc := b.S.DescribeMsg(e.Msg)
	key := "bus:" + from + ">" + to + ":" + desc
	e2, err := b.Reserialise(e)
	if err != nil {
		// An honest client's own message does not survive its serializer.
		b.S.Event(from, "send-fail", desc+" "+err.Error())
		b.S.Count("probe.unserialisable_message", 1)
		return err
	}
	if b.FailSend != nil && b.FailSend(from, to, e2) {
		if _, has := ctx.Deadline(); has && b.StallSendP > 0 && !b.S.UnderStdMutex() && b.S.Chance("send-stall:"+key, b.StallSendP) {
			b.S.Event(from, "send-stall", desc+" -> "+to+" [injected: the connection stalls until the sender's context ends]")
			b.S.Count("fault.send_stalled_until_deadline", 1)
			b.stalled.Add(1)
			<-ctx.Done()
			b.stalled.Add(-1)
			return ctx.Err()
		}
		b.S.Event(from, "send-error", desc+" -> "+to+" [injected connection fault]")
		b.S.Count("fault.send_error", 1)
		return errors.New("injected connection fault")
	}
	if b.Intercept != nil {
		var keep bool
		if e2, keep = b.Intercept(from, to, e2); !keep {
			b.S.Event(from, "send", desc+" -> "+to+" [intercepted]")
			return nil
		}
		// an edited envelope must still be decodable (the properties quantify
		// over decodable messages only)
		if e2, err = b.Reserialise(e2); err != nil {
			b.S.Event(from, "send", desc+" -> "+to+" [edited message not decodable: dropped]")
			b.S.Count("probe.crafted_undecodable", 1)
			return nil
		}
	}
	fate := "deliver"
	b.mu.Lock()
	parted := b.parted[from+">"+to]
	b.mu.Unlock()
	switch {
	case parted:
		fate = "partitioned"
		b.S.Count("fault.partition_loss", 1)
	case b.DropP > 0 && b.S.Chance("drop:"+key, b.DropP):
		fate = "lost"
		b.S.Count("fault.loss", 1)
	}
	dup := fate == "deliver" && b.DupP > 0 && b.S.Chance("dup:"+key, b.DupP)
	if dup {
		b.S.Count("fault.duplication", 1)
	}
	if b.Tap != nil {
		b.Tap(from, to, e2, fate)
	}
	b.S.Event(from, "send:"+msgType(e.Msg), desc+" -> "+to+" ["+fate+"]")
	if fate != "deliver" {
		return nil // "guaranteed to be eventually delivered" is what a lossy network breaks
	}
	d := b.S.Delay(key, b.MinDelay, b.MaxDelay)
	if b.Inner != nil {
		if !b.S.UnderStdMutex() {
			t := time.NewTimer(d)
			defer t.Stop()
			select {
			case <-t.C:
			case <-ctx.Done():
				b.S.Event(from, "send-timeout", desc)
				return ctx.Err()
			}
		}
		if b.Sink != nil && b.Sink(to, e2) {
			b.S.Event(to, "recv:"+msgType(e.Msg), desc+" <- "+from+" (taken by the driver)")
			return nil
		}
		if err := ctx.Err(); err != nil {
			// (LocalBus.Publish would choose at random between delivering and
			// giving up when the context is done already: decided here instead)
			b.S.Event(from, "send-timeout", desc)
			return err
		}
		b.S.Event(to, "recv:"+msgType(e.Msg), desc+" <- "+from+" (through the library's local bus)")
		err := b.Inner.Publish(ctx, e2)
		if err != nil {
			b.S.Event(from, "send-error", desc+" -> "+to+" [local bus: "+err.Error()+"]")
		}
		return err
	}
	if b.Fifo {
		b.mu.Lock()
		at := b.S.Now() + d
		if t := b.tail[from+">"+to]; at <= t {
			at = t + time.Duration(1+len(desc)%7)
		}
		b.tail[from+">"+to] = at
		d = at - b.S.Now()
		b.mu.Unlock()
	} else if b.S.Now() > 0 {
		b.S.Count("probe.bus_unordered_mode", 0)
	}
	deliver := func(e *wire.Envelope, tag string) {
		b.mu.Lock()
		c := b.recv[wire.Keys(e.Recipient)]
		b.mu.Unlock()
		if c == nil {
			b.S.Event(to, "recv-drop", desc+" (no subscriber)"+tag)
			b.S.Count("fault.no_subscriber_loss", 1)
			return
		}
		if b.Sink != nil && b.Sink(to, e) {
			b.S.Event(to, "recv:"+msgType(e.Msg), desc+" <- "+from+tag+" (taken by the driver)")
			return
		}
		b.S.Event(to, "recv:"+msgType(e.Msg), desc+" <- "+from+tag)
		c.Put(e)
	}
	if dup {
		e3, _ := b.Reserialise(e)
		d2 := d + b.S.Delay("dupdelay:"+key, b.MinDelay, 4*b.MaxDelay)
		go func() {
			time.Sleep(d2)
			deliver(e3, " (duplicate)")
		}()
	}
	if b.Async || b.S.UnderStdMutex() {
		// (a sender that holds a standard mutex is never parked: rule R3)
		go func() {
			time.Sleep(d)
			deliver(e2, "")
		}()
		return nil
	}
	t := time.NewTimer(d)
	defer t.Stop()
	select {
	case <-t.C:
		deliver(e2, "")
		if b.AckMax > 0 {
			time.Sleep(b.S.Delay("ack:"+key, 0, b.AckMax))
		}
		return nil
	case <-ctx.Done():
		b.S.Event(from, "send-timeout", desc)
		return ctx.Err()
	}
}

// Inject delivers an envelope as if it came from the network (adversarial
// engines); it is re-serialised like any other message, which enforces that
// crafted envelopes are decodable.
func (b *Bus) Inject(e *wire.Envelope, delay time.Duration) error {
	e2, err := b.Reserialise(e)
	if err != nil {
		return err
	}
	from, to := b.nameOf(e.Sender), b.nameOf(e.Recipient)
	desc := b.S.DescribeMsg(e.Msg)
	b.S.Event(from, "inject:"+msgType(e.Msg), desc+" -> "+to)
	go func() {
		time.Sleep(delay)
		b.mu.Lock()
		c := b.recv[wire.Keys(e2.Recipient)]
		b.mu.Unlock()
		if c == nil {
			return
		}
		b.S.Event(to, "recv:"+msgType(e2.Msg), desc+" <- "+from+" (crafted)")
		c.Put(e2)
	}()
	return nil
}

func msgType(m wire.Msg) string { return m.Type().String() }

// DescribeMsg gives the logical identity of a message: type, logical channel
// or proposal name, version. Never the random bytes.
func (s *Sim) DescribeMsg(m wire.Msg) string {
	switch v := m.(type) {
	case *client.ChannelUpdateMsg:
		return fmt.Sprintf("Update:%s:v%d", s.ChanName(v.ID()), v.State.Version)
	case *client.VirtualChannelFundingProposalMsg:
		return fmt.Sprintf("VFund:%s:v%d", s.ChanName(v.ID()), v.State.Version)
	case *client.VirtualChannelSettlementProposalMsg:
		return fmt.Sprintf("VSettle:%s:v%d", s.ChanName(v.ID()), v.State.Version)
	case *client.ChannelUpdateAccMsg:
		return fmt.Sprintf("UpdateAcc:%s:v%d", s.ChanName(v.ChannelID), v.Version)
	case *client.ChannelUpdateRejMsg:
		return fmt.Sprintf("UpdateRej:%s:v%d", s.ChanName(v.ChannelID), v.Version)
	case *client.LedgerChannelProposalMsg:
		return "LProp:" + s.PropName(v.ProposalID)
	case *client.SubChannelProposalMsg:
		return "SProp:" + s.PropName(v.ProposalID)
	case *client.VirtualChannelProposalMsg:
		return "VProp:" + s.PropName(v.ProposalID)
	case *client.LedgerChannelProposalAccMsg:
		return "LPropAcc:" + s.PropName(v.ProposalID)
	case *client.SubChannelProposalAccMsg:
		return "SPropAcc:" + s.PropName(v.ProposalID)
	case *client.VirtualChannelProposalAccMsg:
		return "VPropAcc:" + s.PropName(v.ProposalID)
	case *client.ChannelProposalRejMsg:
		return "PropRej:" + s.PropName(v.ProposalID)
	case *client.ChannelSyncMsg:
		if v.CurrentTX.State == nil {
			return "Sync:nil"
		}
		return fmt.Sprintf("Sync:%s:v%d", s.ChanName(v.CurrentTX.ID), v.CurrentTX.Version)
	}
	return m.Type().String()
}
