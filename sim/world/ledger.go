package world

import (
	"bytes"
	"context"
	"errors"
	"fmt"
	"math/big"
	"sort"
	"sync"
	"sync/atomic"
	"time"

	"perun.network/go-perun/channel"
	"perun.network/go-perun/wallet"

	"verif/sim/gen"
)

// Ledger is the strict reference ledger (DESIGN 3.2). It implements, per
// party, channel.Funder, channel.Adjudicator and channel.RegisterSubscriber.
// Unlike client/test.MockBackend it verifies signatures and tree shapes,
// debits funding from accounts, enforces the challenge period on the simulated
// clock and pays every participant once.
type Ledger struct {
	S *Sim

	mu       sync.Mutex // short critical sections only; never held across a sleep
	accounts map[string]map[string]*big.Int
	total    map[string]*big.Int
	chans    map[channel.ID]*lchan
	order    []channel.ID
	Calls    []LedgerCall
	SubLog   []SubRec
	Deliv    []DelivRec
	nsub     int

	MinLat, MaxLat time.Duration // latency of calls
	EvMin, EvMax   time.Duration // latency of event delivery
	ConfirmMax     time.Duration // a party sees a completed funding ConfirmMax/2..ConfirmMax after it happened
	ConfirmOnly    string        // if set: only this party's confirmations are delayed
	FailP          float64       // probability that a Register/Withdraw call fails outright (relaxed configurations)
	// FailRegisterOnce[name]: the next Register call of that party fails with a
	// transient error (the transaction did not go through), then the entry is removed.
	FailRegisterOnce map[string]bool
	// HonourCtx: a Register call whose context is done by the time the
	// transaction would be included gives up with the context's error and
	// registers nothing (a backend waiting for its transaction to be mined)
	HonourCtx      bool
	ExtendOnRefute bool // false: a refutation does not extend the challenge period
}

// DelivRec records the delivery of an event to a subscription.
type DelivRec struct {
	At         time.Duration
	Who        string
	SubName    string
	Ch         channel.ID
	Version    uint64
	Registered bool
}

// FirstSubName returns the name of the first subscription who created for id
// (the watcher's: Channel.Watch starts right after the channel exists, the
// client's own subscriptions only during Settle).
func (l *Ledger) FirstSubName(who string, id channel.ID) string {
	l.mu.Lock()
	defer l.mu.Unlock()
	if c := l.chans[id]; c != nil {
		for _, s := range c.subs {
			if s.owner == who {
				return s.name
			}
		}
	}
	return ""
}

// Deliveries returns the recorded event deliveries to one subscription.
func (l *Ledger) Deliveries(subName string) []DelivRec {
	l.mu.Lock()
	defer l.mu.Unlock()
	var out []DelivRec
	for _, d := range l.Deliv {
		if d.SubName == subName {
			out = append(out, d)
		}
	}
	return out
}

// SubRec records the creation of an event subscription.
type SubRec struct {
	At  time.Duration
	Who string
	Ch  channel.ID
}

// SubscribedBefore reports whether who subscribed to id at or before t.
func (l *Ledger) SubscribedBefore(who string, id channel.ID, t time.Duration) bool {
	l.mu.Lock()
	defer l.mu.Unlock()
	for _, r := range l.SubLog {
		if r.Who == who && r.Ch == id && r.At <= t {
			return true
		}
	}
	return false
}

// LedgerCall is one recorded call.
type LedgerCall struct {
	At      time.Duration
	Issued  time.Duration // when the caller made the call (before the simulated latency)
	Who     string
	Op      string
	Ch      channel.ID
	Version uint64
	Subs    []uint64
	Idx     int
	Err     string
	Paid    []*big.Int
}

type regState struct {
	params  *channel.Params
	state   *channel.State
	sigs    []wallet.Sig
	enc     []byte
	version uint64
}

type lchan struct {
	id        channel.ID
	params    *channel.Params
	assets    []channel.Asset
	funded    [][]*big.Int
	fundedBy  []bool
	fundedCh  chan struct{}
	isFunded  bool
	holdings  []*big.Int
	reg       *regState
	root      channel.ID // root of the registered tree this channel belongs to
	timeoutAt time.Duration
	concluded bool
	outcome   [][]*big.Int
	paid      []bool
	subs      []*Subscription
	latest    channel.AdjudicatorEvent
}

// NewLedger creates an empty ledger.
func NewLedger(s *Sim) *Ledger {
	return &Ledger{S: s, accounts: map[string]map[string]*big.Int{}, total: map[string]*big.Int{}, chans: map[channel.ID]*lchan{},
		MinLat: 50 * time.Microsecond, MaxLat: 2 * time.Millisecond, EvMin: 50 * time.Microsecond, EvMax: 3 * time.Millisecond}
}

func assetKey(a channel.Asset) string {
	b, _ := a.MarshalBinary()
	return string(b)
}

// Credit gives an account an initial balance.
func (l *Ledger) Credit(who string, a channel.Asset, amt *big.Int) {
	l.mu.Lock()
	defer l.mu.Unlock()
	k := assetKey(a)
	if l.accounts[who] == nil {
		l.accounts[who] = map[string]*big.Int{}
	}
	if l.accounts[who][k] == nil {
		l.accounts[who][k] = new(big.Int)
	}
	l.accounts[who][k].Add(l.accounts[who][k], amt)
	if l.total[k] == nil {
		l.total[k] = new(big.Int)
	}
	l.total[k].Add(l.total[k], amt)
}

// Balance reads an account.
func (l *Ledger) Balance(who string, a channel.Asset) *big.Int {
	l.mu.Lock()
	defer l.mu.Unlock()
	return new(big.Int).Set(l.bal(who, assetKey(a)))
}

func (l *Ledger) bal(who, k string) *big.Int {
	if l.accounts[who] == nil {
		l.accounts[who] = map[string]*big.Int{}
	}
	if l.accounts[who][k] == nil {
		l.accounts[who][k] = new(big.Int)
	}
	return l.accounts[who][k]
}

// Holdings returns what the ledger still holds for a channel, per asset.
func (l *Ledger) Holdings(id channel.ID) []*big.Int {
	l.mu.Lock()
	defer l.mu.Unlock()
	c := l.chans[id]
	if c == nil {
		return nil
	}
	out := make([]*big.Int, len(c.holdings))
	for i, h := range c.holdings {
		out[i] = new(big.Int).Set(h)
	}
	return out
}

// Registered returns the registered version of a channel (ok=false if none).
func (l *Ledger) Registered(id channel.ID) (version uint64, timeoutAt time.Duration, concluded, ok bool) {
	l.mu.Lock()
	defer l.mu.Unlock()
	c := l.chans[id]
	if c == nil || c.reg == nil {
		if c != nil {
			return 0, 0, c.concluded, false
		}
		return 0, 0, false, false
	}
	return c.reg.version, c.timeoutAt, c.concluded, true
}

// RegisteredState returns a copy of the registered state of a channel, or nil.
func (l *Ledger) RegisteredState(id channel.ID) *channel.State {
	l.mu.Lock()
	defer l.mu.Unlock()
	c := l.chans[id]
	if c == nil || c.reg == nil {
		return nil
	}
	return c.reg.state.Clone()
}

// checkInvariant: conservation and non-negativity. Called with l.mu held.
func (l *Ledger) checkInvariant(where string) {
	sum := map[string]*big.Int{}
	for _, who := range SortedKeys(l.accounts) {
		for _, k := range SortedKeys(l.accounts[who]) {
			v := l.accounts[who][k]
			if v.Sign() < 0 {
				l.S.Fail(l.S.Sc.Property+".ledger-negative-balance", "account %s negative after %s", who, where)
			}
			if sum[k] == nil {
				sum[k] = new(big.Int)
			}
			sum[k].Add(sum[k], v)
		}
	}
	for _, id := range l.order {
		c := l.chans[id]
		for i, h := range c.holdings {
			if h.Sign() < 0 {
				l.S.Fail(l.S.Sc.Property+".ledger-negative-holdings", "holdings of %s negative after %s", l.S.ChanName(id), where)
			}
			k := assetKey(c.assets[i])
			if sum[k] == nil {
				sum[k] = new(big.Int)
			}
			sum[k].Add(sum[k], h)
		}
	}
	for _, k := range SortedKeys(l.total) {
		if sum[k] == nil || sum[k].Cmp(l.total[k]) != 0 {
			l.S.Fail(l.S.Sc.Property+".ledger-conservation", "asset total changed after %s: have %v want %v", where, sum[k], l.total[k])
		}
	}
}

func (l *Ledger) get(id channel.ID, params *channel.Params, st *channel.State) *lchan {
	c := l.chans[id]
	if c == nil {
		n := len(params.Parts)
		c = &lchan{id: id, params: params, fundedBy: make([]bool, n), fundedCh: make(chan struct{}), paid: make([]bool, n), root: id}
		if st != nil {
			c.assets = append([]channel.Asset{}, st.Assets...)
			for range st.Assets {
				row := make([]*big.Int, n)
				for j := range row {
					row[j] = new(big.Int)
				}
				c.funded = append(c.funded, row)
				c.holdings = append(c.holdings, new(big.Int))
			}
		}
		l.chans[id] = c
		l.order = append(l.order, id)
	}
	if c.assets == nil && st != nil {
		n := len(params.Parts)
		c.assets = append([]channel.Asset{}, st.Assets...)
		for range st.Assets {
			row := make([]*big.Int, n)
			for j := range row {
				row[j] = new(big.Int)
			}
			c.funded = append(c.funded, row)
			c.holdings = append(c.holdings, new(big.Int))
		}
	}
	return c
}

func (l *Ledger) record(c LedgerCall) {
	c.At = l.S.Now()
	l.Calls = append(l.Calls, c)
}

// ---- per-party handle -------------------------------------------------------

// Party is the view of one ledger account: Funder + Adjudicator.
type Party struct {
	L    *Ledger
	Name string
	// Dead is set when the client instance using this handle has crashed: its
	// left-over goroutines can no longer reach the ledger.
	Dead atomic.Bool
}

var errDead = errors.New("ledger: process has crashed")

// Party returns the handle for an account name.
func (l *Ledger) Party(name string) *Party { return &Party{L: l, Name: name} }

var (
	_ channel.Funder             = (*Party)(nil)
	_ channel.Adjudicator        = (*Party)(nil)
	_ channel.RegisterSubscriber = (*Party)(nil)
)

func errStr(err error) string {
	if err == nil {
		return ""
	}
	return err.Error()
}

// Fund implements channel.Funder.
func (p *Party) Fund(ctx context.Context, req channel.FundingReq) error {
	if p.Dead.Load() {
		return errDead
	}
	l := p.L
	id := req.Params.ID()
	name := l.S.ChanName(id)
	l.S.Sleep("ledger:Fund:"+p.Name+":"+name, l.MinLat, l.MaxLat)
	l.mu.Lock()
	c := l.get(id, req.Params, req.State)
	var err error
	idx := int(req.Idx)
	switch {
	case idx >= len(c.fundedBy):
		err = errors.New("participant index out of range")
	case c.fundedBy[idx]:
		err = errors.New("already funded by this participant")
	case len(req.Agreement) != len(c.assets):
		err = errors.New("funding agreement has wrong number of assets")
	}
	var amts []*big.Int
	if err == nil {
		for i := range c.assets {
			if idx >= len(req.Agreement[i]) {
				err = errors.New("funding agreement row too short")
				break
			}
			amt := req.Agreement[i][idx]
			if amt.Sign() < 0 || l.bal(p.Name, assetKey(c.assets[i])).Cmp(amt) < 0 {
				err = fmt.Errorf("insufficient funds of %s for asset %d", p.Name, i)
				break
			}
			amts = append(amts, new(big.Int).Set(amt))
		}
	}
	if err == nil {
		for i, amt := range amts {
			b := l.bal(p.Name, assetKey(c.assets[i]))
			b.Sub(b, amt)
			c.holdings[i].Add(c.holdings[i], amt)
			c.funded[i][idx].Add(c.funded[i][idx], amt)
		}
		c.fundedBy[idx] = true
		all := true
		for _, f := range c.fundedBy {
			all = all && f
		}
		if all && !c.isFunded {
			c.isFunded = true
			close(c.fundedCh)
		}
	}
	l.record(LedgerCall{Who: p.Name, Op: "Fund", Ch: id, Idx: idx, Err: errStr(err), Paid: amts})
	l.checkInvariant("Fund")
	fundedCh := c.fundedCh
	l.mu.Unlock()
	l.S.Event(p.Name, "ledger:Fund", fmt.Sprintf("%s idx=%d amounts=%v err=%v", name, idx, amts, err))
	if err != nil {
		return err
	}
	t := time.NewTimer(challenge(req.Params))
	defer t.Stop()
	// a select with several ready cases draws from the runtime's own random
	// source, which no seed controls: decide the ready-at-entry case by priority
	confirmed := func() error {
		// every party learns of the completed funding from its own chain node,
		// with its own delay (0 unless ConfirmMax is set)
		if l.ConfirmMax > 0 && (l.ConfirmOnly == "" || l.ConfirmOnly == p.Name) {
			l.S.Sleep("ledger:Fund-confirmed:"+p.Name+":"+name, l.ConfirmMax/2, l.ConfirmMax)
		}
		return nil
	}
	select {
	case <-fundedCh:
		return confirmed()
	default:
	}
	select {
	case <-fundedCh:
		return confirmed()
	case <-ctx.Done():
		return ctx.Err()
	case <-t.C:
		l.mu.Lock()
		var missing []channel.Index
		for i, f := range c.fundedBy {
			if !f {
				missing = append(missing, channel.Index(i))
			}
		}
		l.mu.Unlock()
		var errs []*channel.AssetFundingError
		for i := range c.assets {
			errs = append(errs, &channel.AssetFundingError{Asset: channel.Index(i), TimedOutPeers: missing})
		}
		return channel.NewFundingTimeoutError(errs)
	}
}

// challenge converts a challenge duration in seconds to a simulated duration,
// saturating at about 100 years (the field is a uint64 of seconds).
func challenge(p *channel.Params) time.Duration {
	const maxSec = 100 * 365 * 24 * 3600
	if p.ChallengeDuration > maxSec {
		return maxSec * time.Second
	}
	return time.Duration(p.ChallengeDuration) * time.Second
}

// VerifyAll checks that sigs holds one valid signature per participant over st.
func VerifyAll(params *channel.Params, st *channel.State, sigs []wallet.Sig) error {
	return verifyAll(params, st, sigs)
}

func verifyAll(params *channel.Params, st *channel.State, sigs []wallet.Sig) error {
	if params.ID() != st.ID {
		return errors.New("state does not belong to the parameters")
	}
	if len(sigs) != len(params.Parts) {
		return fmt.Errorf("expected %d signatures, got %d", len(params.Parts), len(sigs))
	}
	for i, sig := range sigs {
		if sig == nil {
			return fmt.Errorf("signature %d missing", i)
		}
		for _, addr := range params.Parts[i] {
			ok, err := channel.Verify(addr, st, sig)
			if err != nil || !ok {
				return fmt.Errorf("signature %d invalid", i)
			}
		}
	}
	return nil
}

// Register implements channel.Registerer.
func (p *Party) Register(ctx context.Context, req channel.AdjudicatorReq, subs []channel.SignedState) error {
	if p.Dead.Load() {
		return errDead
	}
	l := p.L
	id := req.Params.ID()
	name := l.S.ChanName(id)
	issued := l.S.Now()
	l.S.Sleep("ledger:Register:"+p.Name+":"+name, l.MinLat, l.MaxLat)
	if l.HonourCtx && ctx.Err() != nil {
		l.S.Count("fault.ledger_register_gave_up_on_done_context", 1)
		l.S.Event(p.Name, "ledger:Register", name+" caller's context is done: "+ctx.Err().Error())
		l.mu.Lock()
		l.record(LedgerCall{Who: p.Name, Op: "Register", Ch: id, Version: req.Tx.Version, Err: ctx.Err().Error()})
		l.mu.Unlock()
		return ctx.Err()
	}
	l.mu.Lock()
	once := l.FailRegisterOnce[p.Name]
	if once {
		delete(l.FailRegisterOnce, p.Name)
	}
	l.mu.Unlock()
	if once || l.FailP > 0 && l.S.Chance("ledgerfail:Register:"+p.Name+":"+name, l.FailP) {
		l.S.Count("fault.ledger_call_failure", 1)
		l.S.Event(p.Name, "ledger:Register", name+" injected failure")
		l.mu.Lock()
		l.record(LedgerCall{Who: p.Name, Op: "Register", Ch: id, Version: req.Tx.Version, Err: "injected failure"})
		l.mu.Unlock()
		return errors.New("ledger: transaction failed (injected)")
	}
	l.mu.Lock()
	err := l.register(req, subs)
	var sv []uint64
	for _, s := range subs {
		if s.State != nil {
			sv = append(sv, s.State.Version)
		}
	}
	var v uint64
	if req.Tx.State != nil {
		v = req.Tx.Version
	}
	l.record(LedgerCall{Who: p.Name, Op: "Register", Ch: id, Version: v, Subs: sv, Err: errStr(err), Issued: issued})
	l.checkInvariant("Register")
	l.mu.Unlock()
	l.S.Event(p.Name, "ledger:Register", fmt.Sprintf("%s v%d subs=%v err=%v", name, v, sv, err))
	return err
}

// register runs with l.mu held.
func (l *Ledger) register(req channel.AdjudicatorReq, subs []channel.SignedState) error {
	if req.Params == nil || req.Tx.State == nil {
		return errors.New("nil params or state")
	}
	if !req.Params.LedgerChannel {
		return errors.New("only ledger channels can be registered directly")
	}
	if err := verifyAll(req.Params, req.Tx.State, req.Tx.Sigs); err != nil {
		return fmt.Errorf("parent: %w", err)
	}
	st := req.Tx.State
	if len(subs) != len(st.Locked) {
		return fmt.Errorf("expected %d sub-states, got %d", len(st.Locked), len(subs))
	}
	for i, s := range subs {
		if s.Params == nil || s.State == nil {
			return fmt.Errorf("sub-state %d missing", i)
		}
		if s.State.ID != st.Locked[i].ID {
			return fmt.Errorf("sub-state %d is not the channel locked at position %d", i, i)
		}
		if err := verifyAll(s.Params, s.State, s.Sigs); err != nil {
			return fmt.Errorf("sub-state %d: %w", i, err)
		}
		tot := gen.Totals(&s.State.Allocation)
		if len(tot) != len(st.Locked[i].Bals) {
			return fmt.Errorf("sub-state %d: asset dimension mismatch", i)
		}
		for a := range tot {
			if tot[a].Cmp(st.Locked[i].Bals[a]) != 0 {
				return fmt.Errorf("sub-state %d: total does not equal locked amount", i)
			}
		}
	}
	id := req.Params.ID()
	c := l.get(id, req.Params, st)
	if c.concluded {
		return errors.New("channel already concluded")
	}
	now := l.S.Now()
	type item struct {
		c      *lchan
		params *channel.Params
		st     *channel.State
		sigs   []wallet.Sig
		enc    []byte
		change bool
	}
	items := []*item{{c: c, params: req.Params, st: st, sigs: req.Tx.Sigs}}
	for _, s := range subs {
		items = append(items, &item{c: l.get(s.State.ID, s.Params, s.State), params: s.Params, st: s.State, sigs: s.Sigs})
	}
	first := c.reg == nil
	if !first && now >= c.timeoutAt {
		return errors.New("challenge period is over")
	}
	anyChange := false
	for _, it := range items {
		it.enc = gen.EncodeState(it.st)
		if it.c.concluded {
			return errors.New("sub-channel already concluded")
		}
		switch {
		case it.c.reg == nil:
			it.change = true
		case it.st.Version > it.c.reg.version:
			it.change = true
		case it.st.Version == it.c.reg.version:
			if !bytes.Equal(it.enc, it.c.reg.enc) {
				return fmt.Errorf("%s: different state with the registered version %d", l.S.ChanName(it.c.id), it.st.Version)
			}
		default:
			return fmt.Errorf("%s: version %d is older than the registered version %d", l.S.ChanName(it.c.id), it.st.Version, it.c.reg.version)
		}
		anyChange = anyChange || it.change
	}
	if !first && !items[0].change && anyChange {
		// same parent state, newer sub-states: allowed (refutation of a sub-channel)
		_ = anyChange
	}
	if first {
		c.timeoutAt = now + challenge(req.Params)
		if st.IsFinal {
			c.timeoutAt = now
		}
	} else if l.ExtendOnRefute && anyChange {
		c.timeoutAt = now + challenge(req.Params)
	}
	for _, it := range items {
		if !it.change {
			continue
		}
		it.c.reg = &regState{params: it.params, state: it.st.Clone(), sigs: it.sigs, enc: it.enc, version: it.st.Version}
		it.c.root = id
		it.c.timeoutAt = c.timeoutAt
		l.emit(it.c, channel.NewRegisteredEvent(it.c.id, &SimTimeout{S: l.S, At: c.timeoutAt}, it.st.Version, it.st.Clone(), it.sigs))
	}
	return nil
}

// Progress is not part of any simulated property.
func (p *Party) Progress(context.Context, channel.ProgressReq) error {
	return errors.New("ledger: on-chain progression is not simulated")
}

// Withdraw implements channel.Withdrawer.
func (p *Party) Withdraw(ctx context.Context, req channel.AdjudicatorReq, subStates channel.StateMap) error {
	if p.Dead.Load() {
		return errDead
	}
	l := p.L
	id := req.Params.ID()
	name := l.S.ChanName(id)
	l.S.Sleep("ledger:Withdraw:"+p.Name+":"+name, l.MinLat, l.MaxLat)
	if l.FailP > 0 && l.S.Chance("ledgerfail:Withdraw:"+p.Name+":"+name, l.FailP) {
		l.S.Count("fault.ledger_call_failure", 1)
		l.S.Event(p.Name, "ledger:Withdraw", name+" injected failure")
		l.mu.Lock()
		l.record(LedgerCall{Who: p.Name, Op: "Withdraw", Ch: id, Idx: int(req.Idx), Err: "injected failure"})
		l.mu.Unlock()
		return errors.New("ledger: transaction failed (injected)")
	}
	// a registered channel is concluded only after the challenge period
	l.mu.Lock()
	c := l.chans[id]
	wait := time.Duration(0)
	if c != nil && c.reg != nil && !c.concluded {
		wait = c.timeoutAt - l.S.Now()
	}
	l.mu.Unlock()
	if wait > 0 {
		// keyed jitter: timers derived from the same challenge deadline must not share an instant
		t := time.NewTimer(wait + l.S.Delay("ledger:withdraw-wait:"+p.Name+":"+name, time.Nanosecond, 2*time.Microsecond))
		select {
		case <-t.C:
		case <-ctx.Done():
			t.Stop()
			return ctx.Err()
		}
	}
	l.mu.Lock()
	paid, err := l.withdraw(p.Name, req, subStates)
	var v uint64
	if req.Tx.State != nil {
		v = req.Tx.Version
	}
	l.record(LedgerCall{Who: p.Name, Op: "Withdraw", Ch: id, Version: v, Idx: int(req.Idx), Err: errStr(err), Paid: paid})
	l.checkInvariant("Withdraw")
	l.mu.Unlock()
	l.S.Event(p.Name, "ledger:Withdraw", fmt.Sprintf("%s v%d idx=%d paid=%v err=%v", name, v, req.Idx, paid, err))
	return err
}

// withdraw runs with l.mu held.
func (l *Ledger) withdraw(who string, req channel.AdjudicatorReq, subStates channel.StateMap) ([]*big.Int, error) {
	if req.Params == nil || req.Tx.State == nil {
		return nil, errors.New("nil params or state")
	}
	if !req.Params.LedgerChannel {
		return nil, errors.New("only ledger channels hold funds on the ledger")
	}
	id := req.Params.ID()
	c := l.get(id, req.Params, req.Tx.State)
	idx := int(req.Idx)
	if idx >= len(c.paid) {
		return nil, errors.New("participant index out of range")
	}
	if !c.concluded {
		if c.reg == nil {
			st := req.Tx.State
			if !st.IsFinal {
				return nil, errors.New("channel is not registered and the state is not final")
			}
			if len(st.Locked) != 0 {
				return nil, errors.New("final state with locked funds must be registered with its sub-states")
			}
			if err := verifyAll(req.Params, st, req.Tx.Sigs); err != nil {
				return nil, err
			}
			c.reg = &regState{params: req.Params, state: st.Clone(), sigs: req.Tx.Sigs, enc: gen.EncodeState(st), version: st.Version}
			c.timeoutAt = l.S.Now()
		} else {
			if l.S.Now() < c.timeoutAt {
				return nil, errors.New("challenge period not over")
			}
			if !bytes.Equal(gen.EncodeState(req.Tx.State), c.reg.enc) {
				return nil, fmt.Errorf("supplied state v%d is not the registered state v%d", req.Tx.Version, c.reg.version)
			}
			for _, la := range c.reg.state.Locked {
				sc := l.chans[la.ID]
				ss := subStates[la.ID]
				if sc == nil || sc.reg == nil {
					return nil, errors.New("locked sub-channel was never registered")
				}
				if ss == nil || !bytes.Equal(gen.EncodeState(ss), sc.reg.enc) {
					return nil, fmt.Errorf("supplied sub-state of %s is not the registered one (v%d)", l.S.ChanName(la.ID), sc.reg.version)
				}
			}
		}
		// outcome of the registered tree
		out := make([][]*big.Int, len(c.reg.state.Balances))
		for a, row := range c.reg.state.Balances {
			out[a] = make([]*big.Int, len(row))
			for j, b := range row {
				out[a][j] = new(big.Int).Set(b)
			}
		}
		for _, la := range c.reg.state.Locked {
			sc := l.chans[la.ID]
			for a, row := range sc.reg.state.Balances {
				for j, b := range row {
					tgt := j
					if len(la.IndexMap) > 0 {
						if j >= len(la.IndexMap) {
							return nil, errors.New("index map too short")
						}
						tgt = int(la.IndexMap[j])
					}
					if a >= len(out) || tgt >= len(out[a]) {
						return nil, errors.New("sub-channel outcome does not fit the parent")
					}
					out[a][tgt].Add(out[a][tgt], b)
				}
			}
		}
		for a := range out {
			sum := new(big.Int)
			for _, b := range out[a] {
				sum.Add(sum, b)
			}
			if sum.Cmp(c.holdings[a]) > 0 {
				return nil, fmt.Errorf("channel is underfunded for asset %d: outcome %v, held %v", a, sum, c.holdings[a])
			}
		}
		c.outcome = out
		c.concluded = true
		l.emit(c, channel.NewConcludedEvent(id, &channel.ElapsedTimeout{}, c.reg.version))
		for _, la := range c.reg.state.Locked {
			if sc := l.chans[la.ID]; sc != nil {
				sc.concluded = true
				l.emit(sc, channel.NewConcludedEvent(la.ID, &channel.ElapsedTimeout{}, sc.reg.version))
			}
		}
	}
	if c.paid[idx] {
		return nil, nil
	}
	c.paid[idx] = true
	var paid []*big.Int
	for a := range c.outcome {
		amt := c.outcome[a][idx]
		b := l.bal(who, assetKey(c.assets[a]))
		b.Add(b, amt)
		c.holdings[a].Sub(c.holdings[a], amt)
		paid = append(paid, new(big.Int).Set(amt))
	}
	return paid, nil
}

// ---- events -----------------------------------------------------------------

// SimTimeout is a channel.Timeout on the simulated clock.
type SimTimeout struct {
	S  *Sim
	At time.Duration
}

// IsElapsed implements channel.Timeout.
func (t *SimTimeout) IsElapsed(context.Context) bool { return t.S.Now() >= t.At }

// Wait implements channel.Timeout.
func (t *SimTimeout) Wait(ctx context.Context) error {
	d := t.At - t.S.Now()
	if d <= 0 {
		return nil
	}
	tm := time.NewTimer(d + t.S.Delay("timeout-wait", time.Nanosecond, 2*time.Microsecond))
	defer tm.Stop()
	select {
	case <-tm.C:
		return nil
	case <-ctx.Done():
		return ctx.Err()
	}
}

func (t *SimTimeout) String() string { return fmt.Sprintf("<sim timeout at %v>", t.At) }

// Subscription implements channel.AdjudicatorSubscription.
type Subscription struct {
	l      *Ledger
	owner  string
	name   string
	id     channel.ID
	events chan channel.AdjudicatorEvent
	closed chan struct{}
	once   sync.Once
	tail   time.Duration
}

// Subscribe implements channel.EventSubscriber. It never blocks or sleeps: the
// local watcher calls it with its registry mutex held (R3).
func (p *Party) Subscribe(_ context.Context, id channel.ID) (channel.AdjudicatorSubscription, error) {
	l := p.L
	l.mu.Lock()
	defer l.mu.Unlock()
	c := l.chans[id]
	if c == nil {
		// subscriptions may precede any ledger activity
		c = &lchan{id: id, fundedCh: make(chan struct{}), root: id}
		l.chans[id] = c
		l.order = append(l.order, id)
	}
	l.nsub++
	sub := &Subscription{l: l, owner: p.Name, name: fmt.Sprintf("%s/sub%d", p.Name, l.nsub), id: id,
		events: make(chan channel.AdjudicatorEvent, 4096), closed: make(chan struct{})}
	c.subs = append(c.subs, sub)
	l.SubLog = append(l.SubLog, SubRec{At: l.S.Now(), Who: p.Name, Ch: id})
	if c.latest != nil {
		l.schedule(sub, c.latest)
	}
	return sub, nil
}

// HasSub reports whether party who holds an open subscription for id.
func (l *Ledger) HasSub(who string, id channel.ID) bool {
	l.mu.Lock()
	defer l.mu.Unlock()
	c := l.chans[id]
	if c == nil {
		return false
	}
	for _, s := range c.subs {
		if s.owner == who {
			select {
			case <-s.closed:
			default:
				return true
			}
		}
	}
	return false
}

// emit runs with l.mu held.
// ArmRegisterFailure arms (or disarms) the one-shot failure of name's next
// Register call.
func (l *Ledger) ArmRegisterFailure(name string, on bool) {
	l.mu.Lock()
	defer l.mu.Unlock()
	if l.FailRegisterOnce == nil {
		l.FailRegisterOnce = map[string]bool{}
	}
	if on {
		l.FailRegisterOnce[name] = true
	} else {
		delete(l.FailRegisterOnce, name)
	}
}

// Redeliver delivers the channel's latest event once more to every
// subscription (a node that re-subscribes after a reconnect, or a chain
// reorganisation, replays the most recent event).
func (l *Ledger) Redeliver(id channel.ID) bool {
	l.mu.Lock()
	defer l.mu.Unlock()
	c := l.chans[id]
	if c == nil || c.latest == nil {
		return false
	}
	for _, sub := range c.subs {
		l.schedule(sub, c.latest)
	}
	l.S.Count("fault.ledger_event_redelivered", 1)
	return true
}

func (l *Ledger) emit(c *lchan, e channel.AdjudicatorEvent) {
	c.latest = e
	for _, sub := range c.subs {
		l.schedule(sub, e)
	}
}

// schedule delivers e to sub after a keyed delay, keeping per-subscription
// order (a chain never delivers a channel's events out of order). Runs with
// l.mu held; never sleeps in the caller.
func (l *Ledger) schedule(sub *Subscription, e channel.AdjudicatorEvent) {
	typ := fmt.Sprintf("%T", e)
	d := l.S.Delay("ledger:event:"+sub.name+":"+l.S.ChanName(sub.id)+":"+typ, l.EvMin, l.EvMax)
	at := l.S.Now() + d
	if at <= sub.tail {
		at = sub.tail + 3
	}
	sub.tail = at
	wait := at - l.S.Now()
	go func() {
		t := time.NewTimer(wait)
		defer t.Stop()
		select {
		case <-t.C:
		case <-sub.closed:
			return
		}
		l.S.Event(sub.name, "ledger:event", fmt.Sprintf("%s %s v%d", l.S.ChanName(sub.id), typ, e.Version()))
		_, isReg := e.(*channel.RegisteredEvent)
		l.mu.Lock()
		l.Deliv = append(l.Deliv, DelivRec{At: l.S.Now(), Who: sub.owner, SubName: sub.name, Ch: sub.id, Version: e.Version(), Registered: isReg})
		l.mu.Unlock()
		select {
		case sub.events <- e:
		case <-sub.closed:
		}
	}()
}

// Next implements channel.AdjudicatorSubscription.
func (s *Subscription) Next() channel.AdjudicatorEvent {
	select { // a closed subscription wins over a pending event (priority instead of the runtime's random choice)
	case <-s.closed:
		return nil
	default:
	}
	select {
	case e := <-s.events:
		return e
	case <-s.closed:
		return nil
	}
}

// Err implements channel.AdjudicatorSubscription.
func (s *Subscription) Err() error { return nil }

// Close implements channel.AdjudicatorSubscription.
func (s *Subscription) Close() error {
	s.once.Do(func() { close(s.closed) })
	return nil
}

// CallsOf returns the recorded calls of one operation on one channel, sorted by time.
func (l *Ledger) CallsOf(op string, id channel.ID) []LedgerCall {
	l.mu.Lock()
	defer l.mu.Unlock()
	var out []LedgerCall
	for _, c := range l.Calls {
		if c.Op == op && c.Ch == id {
			out = append(out, c)
		}
	}
	sort.SliceStable(out, func(i, j int) bool { return out[i].At < out[j].At })
	return out
}
