//go:build verif

package world

import (
	"perun.network/go-perun/simhook"

	"verif/sim/kernel"
)

// InstallYields routes the repository's yield points to this run's simulator.
func InstallYields(s *Sim) {
	simhook.ResetHeld()
	simhook.SetHandler(s.Yield)
	// map iteration orders in the instrumented copy (tools/lockinject): a
	// permutation that depends on the run's PRNG value and on the keys only
	seed := s.Sc.Seed
	simhook.SetMapOrder(func(n int, digest uint64, swap func(i, j int)) {
		s.Note("map-order n=%d digest=%x", n, digest)
		for i := n - 1; i > 0; i-- {
			swap(i, int(kernel.Derive(seed, "map-order", digest, i)%uint64(i+1)))
		}
	})
}

func heldNow() int64 { return simhook.HeldCount() }

// RemoveYields detaches the simulator.
func RemoveYields() { simhook.SetHandler(nil); simhook.SetMapOrder(nil) }

// HooksEnabled reports whether the binary was built with the verif tag.
const HooksEnabled = true
