//go:build verif

package world

import "perun.network/go-perun/simhook"

// InstallYields routes the repository's yield points to this run's simulator.
func InstallYields(s *Sim) {
	simhook.ResetHeld()
	simhook.SetHandler(s.Yield)
}

func heldNow() int64 { return simhook.HeldCount() }

// RemoveYields detaches the simulator.
func RemoveYields() { simhook.SetHandler(nil) }

// HooksEnabled reports whether the binary was built with the verif tag.
const HooksEnabled = true
