// Package world is the concurrent simulation kernel: one synctest bubble per
// run, seeded keyed delays at every seam (bus, ledger, store, handlers,
// drivers, yield hooks), an event trace, and the stubs the real clients run
// against (SimBus, StrictLedger, recording persister, handlers).
package world

import (
	"fmt"
	"os"
	"runtime"
	"sort"
	"strings"
	"sync"
	"testing"
	"testing/synctest"
	"time"

	_ "perun.network/go-perun/client" // its init sets a logger; ours must run afterwards
	plog "perun.network/go-perun/log"

	"verif/sim/kernel"
)

func init() {
	// the client package installs a logrus logger at warn level; the
	// simulation wants silence (log.Panic still panics)
	if os.Getenv("VERIF_PLOG") != "" {
		return // debugging aid: keep the library's logger (stderr)
	}
	plog.Set(nil)
}

// Sim is the per-run simulator state.
type Sim struct {
	Sc    *kernel.Scenario
	Res   *kernel.Result
	Trace bool

	mu       sync.Mutex // never held across a sleep
	occ      map[string]int64
	start    time.Time
	lastT    time.Duration
	ilv      uint64
	events   int64
	maxEv    int64
	stopped  bool
	overrun  bool
	yieldOn  map[string]bool
	yieldAll bool
	autoP    float64
	yieldP   float64
	chNames  map[[32]byte]string
	prNames  map[[32]byte]string
}

// ChanName maps a (random) channel ID to a logical name in order of first sight.
func (s *Sim) ChanName(id [32]byte) string {
	s.mu.Lock()
	defer s.mu.Unlock()
	if n, ok := s.chNames[id]; ok {
		return n
	}
	if s.chNames == nil {
		s.chNames = map[[32]byte]string{}
	}
	n := fmt.Sprintf("ch%d", len(s.chNames))
	s.chNames[id] = n
	return n
}

// PropName maps a proposal ID to a logical name in order of first sight.
func (s *Sim) PropName(id [32]byte) string {
	s.mu.Lock()
	defer s.mu.Unlock()
	if n, ok := s.prNames[id]; ok {
		return n
	}
	if s.prNames == nil {
		s.prNames = map[[32]byte]string{}
	}
	n := fmt.Sprintf("p%d", len(s.prNames))
	s.prNames[id] = n
	return n
}

// Epoch is the bubble's start time.
func (s *Sim) Epoch() time.Time { return s.start }

// Now is the simulated time since the start of the run.
func (s *Sim) Now() time.Duration { return time.Since(s.start) }

// Delay returns the keyed delay for the n-th occurrence of key (R1/R2): lo..hi
// in whole microseconds plus a sub-microsecond offset so that two seam events
// practically never share an instant.
func (s *Sim) Delay(key string, lo, hi time.Duration) time.Duration {
	s.mu.Lock()
	n := s.occ[key]
	s.occ[key] = n + 1
	s.mu.Unlock()
	if s.Sc.Delays != nil {
		if d, ok := s.Sc.Delays[fmt.Sprintf("%s#%d", key, n)]; ok {
			return time.Duration(d)
		}
	}
	h := kernel.Derive(s.Sc.Seed, key, n)
	span := int64(hi - lo)
	d := lo
	if span > 0 {
		d += time.Duration(int64(h % uint64(span+1)))
	}
	// nanosecond granularity plus an odd offset: two timers practically never
	// share a deadline, so the runtime never has to order simultaneous wake-ups
	return d + time.Duration((h>>40)%997+1)
}

// Sleep parks the calling goroutine for the keyed delay.
func (s *Sim) Sleep(key string, lo, hi time.Duration) {
	d := s.Delay(key, lo, hi)
	if s.UnderStdMutex() {
		return // rule R3, enforced dynamically: never park while a standard mutex is held
	}
	time.Sleep(d)
}

// UnderStdMutex reports whether some goroutine currently holds a standard
// mutex of the instrumented packages (tools/lockinject). A seam that is about
// to park checks it: parking then could stall the bubble (a goroutine blocked
// on that mutex is not durably blocked and the fake clock would stop). With
// every seam checking, a stalled bubble is never the harness's doing.
func (s *Sim) UnderStdMutex() bool {
	if heldNow() == 0 {
		return false
	}
	s.Count("probe.seam_park_skipped_under_std_mutex", 1)
	return true
}

// Chance is a keyed coin flip.
func (s *Sim) Chance(key string, p float64) bool {
	s.mu.Lock()
	n := s.occ["?"+key]
	s.occ["?"+key] = n + 1
	s.mu.Unlock()
	h := kernel.Derive(s.Sc.Seed, "?"+key, n)
	return float64(h>>11)/(1<<53) < p
}

// Event records a seam event. actor/typ feed the interleaving hash; detail is
// only for the trace.
func (s *Sim) Event(actor, typ, detail string) {
	now := s.Now()
	s.mu.Lock()
	defer s.mu.Unlock()
	if s.stopped {
		return
	}
	s.events++
	if s.events == s.maxEv {
		s.overrun = true
		s.Res.Count("probe.event_cap_hit", 1)
	}
	if now == s.lastT && s.events > 1 {
		s.Res.Count("probe.same_instant_events", 1)
	}
	s.lastT = now
	s.ilv = kernel.Derive(s.ilv, actor, typ)
	if s.Trace && !s.overrun {
		s.Res.Trace = append(s.Res.Trace, fmt.Sprintf("%12.3fus %-8s %-14s %s", float64(now)/1e3, actor, typ, detail))
	}
	kernel.Progress()
}

// Overrun reports whether the run exceeded its cap on seam events; the bus then
// stops delivering so that message storms die out.
func (s *Sim) Overrun() bool {
	s.mu.Lock()
	defer s.mu.Unlock()
	return s.overrun
}

// Note adds a trace line that is not a seam event.
func (s *Sim) Note(format string, a ...any) {
	if !s.Trace {
		return
	}
	now := s.Now()
	s.mu.Lock()
	defer s.mu.Unlock()
	if s.stopped {
		return
	}
	s.Res.Trace = append(s.Res.Trace, fmt.Sprintf("%12.3fus %-8s %s", float64(now)/1e3, "", fmt.Sprintf(format, a...)))
}

// Fail records a violation (first one wins).
func (s *Sim) Fail(check, format string, a ...any) {
	s.mu.Lock()
	defer s.mu.Unlock()
	if s.stopped {
		return
	}
	if s.Res.Violation == nil {
		s.Res.Violation = &kernel.Violation{Check: check, Detail: fmt.Sprintf(format, a...), Step: int(s.events)}
		if s.Trace {
			s.Res.Trace = append(s.Res.Trace, "VIOLATION "+check+": "+s.Res.Violation.Detail)
		}
	}
}

// Failed reports whether a violation was recorded.
func (s *Sim) Failed() bool {
	s.mu.Lock()
	defer s.mu.Unlock()
	return s.Res.Violation != nil
}

// Count bumps a counter.
func (s *Sim) Count(k string, n int64) {
	s.mu.Lock()
	s.Res.Count(k, n)
	s.mu.Unlock()
}

// Yield is installed as simhook handler: a parked goroutine resumes after a
// keyed delay, so the simulator decides its order relative to all other
// parked goroutines. Only sites enabled in this run's buggify mask park.
// SlowSites are yield points a scenario can single out (config "slow_site",
// 1-based): a goroutine passing the chosen one is descheduled for 0.2-3 ms
// every time - a slow spot, where the ordinary yields model short ones.
var SlowSites = []string{"client.ensureRegistered.beforeRegisterDispute", "client.handleUpdateReq.beforeLock", "client.handleSyncMsg.beforeLock",
	"client.handleChannelProposal.beforeValidate", "client.enableNotifyUpdate.beforePublish"}

func (s *Sim) Yield(site string) {
	if k := int(s.Sc.Cfg("slow_site", 0)); k > 0 && k <= len(SlowSites) && site == SlowSites[k-1] && heldNow() == 0 {
		s.Count("probe.yield_slow."+site, 1)
		s.Sleep("yieldslow:"+site, 200*time.Microsecond, 3*time.Millisecond)
		return
	}
	if !s.yieldAll && !s.yieldOn[site] {
		// sites inserted automatically into a scratch copy (cmd/yieldinject) are
		// not known in advance: their mask bit is derived on first use
		if !strings.HasPrefix(site, "auto:") || s.autoP <= 0 {
			return
		}
		if float64(kernel.Derive(s.Sc.Seed, "buggify", site)>>11)/(1<<53) >= s.autoP {
			return
		}
	}
	if heldNow() != 0 {
		// rule R3: somebody holds a standard-library mutex (counted by the
		// instrumentation of the scratch copy, tools/lockinject); parking now
		// could leave a goroutine blocked on it, which is not a durable block
		s.Count("probe.yield_suppressed", 1)
		return
	}
	s.Count("probe.yield."+site, 1)
	// mostly a short hold; one hit in eight models a goroutine that is
	// descheduled for as long as a network round trip or more
	max := 40 * time.Microsecond
	if s.Sc.Cfg("long_yields", 0) == 1 && s.Chance("yieldlong:"+site, 0.125) {
		max = 3 * time.Millisecond
		s.Count("probe.yield_long", 1)
	}
	if s.Trace && os.Getenv("VERIF_TRACE_YIELDS") != "" {
		s.Note("yield at %s", site)
	}
	s.Sleep("yield:"+site, 0, max)
}

// EnableYields sets the buggify mask: each listed site is enabled with
// probability p (keyed on the site name).
func (s *Sim) EnableYields(sites []string, p float64) {
	s.yieldP = p
	s.autoP = float64(s.Sc.Cfg("auto_yield_pct", int64(p*100))) / 100
	s.yieldOn = map[string]bool{}
	for _, site := range sites {
		if float64(kernel.Derive(s.Sc.Seed, "buggify", site)>>11)/(1<<53) < p {
			s.yieldOn[site] = true
		}
	}
}

// RunBubble executes body inside a fresh synctest bubble and fills res with
// simulated time and interleaving hash. A deadlock panic at the end of the
// bubble (goroutines left blocked after the body returned) is recovered and
// counted as a leak probe.
// DriverDeadlockIsViolation lists the properties whose scenarios are driven by
// honest calls only (or promise bounded liveness): there a driver that blocks
// for good is a violation. Not C07: its driver includes the adversary's own
// client, which the crafted traffic may confuse.
var DriverDeadlockIsViolation = map[string]bool{"C03": true, "C04": true, "C06": true, "C08": true, "C12": true}

func RunBubble(t *testing.T, sc *kernel.Scenario, trace bool, body func(s *Sim)) *kernel.Result {
	res := &kernel.Result{}
	s := &Sim{Sc: sc, Res: res, Trace: trace, occ: map[string]int64{}, maxEv: sc.Cfg("max_events", 20000)}
	func() {
		defer func() {
			if r := recover(); r != nil {
				msg := fmt.Sprint(r)
				if strings.Contains(msg, "deadlock") {
					if os.Getenv("VERIF_DEBUG_LEAK") != "" {
						buf := make([]byte, 1<<20)
						n := runtime.Stack(buf, true)
						fmt.Fprintf(os.Stderr, "BUBBLE LEAK run=%d: %s\n%s\n", sc.Run, msg, buf[:n])
					}
					s.mu.Lock()
					res.Count("probe.bubble_leak", 1)
					done := s.stopped
					s.mu.Unlock()
					if !done && res.Violation == nil && DriverDeadlockIsViolation[sc.Property] {
						// the scenario's driver never got to its end: some call on the
						// honest client's API blocked for good (every goroutine of the
						// run was durably blocked, nothing could ever wake it)
						res.Violation = &kernel.Violation{Check: sc.Property + ".deadlock", Step: -1,
							Detail: "a call of the honest driver never returned: every goroutine of the run was blocked for good before the scenario ended"}
					}
					return
				}
				panic(r)
			}
		}()
		synctest.Test(t, func(t *testing.T) {
			s.start = time.Now()
			body(s)
			s.mu.Lock()
			res.SimNs = int64(time.Since(s.start))
			res.Interleaving = s.ilv
			s.stopped = true
			s.mu.Unlock()
		})
	}()
	return res
}

// SortedKeys returns the keys of a string-keyed map in order (harness code
// never iterates maps unordered).
func SortedKeys[V any](m map[string]V) []string {
	k := make([]string, 0, len(m))
	for x := range m {
		k = append(k, x)
	}
	sort.Strings(k)
	return k
}
