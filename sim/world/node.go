package world

import (
	"context"
	"fmt"
	"math/big"
	"sync"
	"time"

	simwallet "perun.network/go-perun/backend/sim/wallet"
	simwire "perun.network/go-perun/backend/sim/wire"
	"perun.network/go-perun/channel"
	"perun.network/go-perun/channel/persistence"
	"perun.network/go-perun/channel/persistence/keyvalue"
	"perun.network/go-perun/client"
	"perun.network/go-perun/wallet"
	"perun.network/go-perun/watcher"
	"perun.network/go-perun/watcher/local"
	"perun.network/go-perun/wire"

	"polycry.pt/poly-go/sortedkv"
	"polycry.pt/poly-go/sortedkv/memorydb"

	"verif/sim/gen"
	"verif/sim/kernel"
)

// World bundles one run's bus, ledger and nodes.
type World struct {
	S      *Sim
	Bus    *Bus
	Ledger *Ledger
	Nodes  map[string]*Node
	names  []string
}

// NewWorld creates bus and ledger.
func NewWorld(s *Sim, ser int) *World {
	return &World{S: s, Bus: NewBus(s, ser), Ledger: NewLedger(s), Nodes: map[string]*Node{}}
}

// EnabledRec is one entry of a client's Enabled stream (recording persister).
type EnabledRec struct {
	At       time.Duration
	Ch       channel.ID
	Version  uint64
	Enc      []byte
	State    *channel.State
	Sigs     []wallet.Sig
	SigsOK   bool
	Phase    channel.Phase
	SeqInRun int
}

// Recorder wraps a PersistRestorer and records what the client persists. It
// is the observation point the properties name for "last agreed state".
type Recorder struct {
	persistence.PersistRestorer
	n  *Node
	mu sync.Mutex

	Created   []channel.ID
	Enables   []EnabledRec
	SigAdds   []SigRec
	Removed   []channel.ID
	Phases    []PhaseRec
	Published []PubRec
	Told      []ToldRec
	OnEnable  func(r EnabledRec)
}

// PhaseRec is one PhaseChanged observation.
type PhaseRec struct {
	At    time.Duration
	Ch    channel.ID
	Phase channel.Phase
}

func (r *Recorder) PhaseChanged(ctx context.Context, s channel.Source) error {
	r.mu.Lock()
	r.Phases = append(r.Phases, PhaseRec{At: r.n.W.S.Now(), Ch: s.ID(), Phase: s.Phase()})
	r.mu.Unlock()
	r.n.W.S.Event(r.n.Name, "persist:Phase", fmt.Sprintf("%s %v", r.n.W.S.ChanName(s.ID()), s.Phase()))
	return r.PersistRestorer.PhaseChanged(ctx, s)
}

// FirstPhase returns the time of the first PhaseChanged of ch into ph.
func (r *Recorder) FirstPhase(id channel.ID, ph channel.Phase) (time.Duration, bool) {
	r.mu.Lock()
	defer r.mu.Unlock()
	for _, p := range r.Phases {
		if p.Ch == id && p.Phase == ph {
			return p.At, true
		}
	}
	return 0, false
}

// SigRec is one SigAdded observation.
type SigRec struct {
	At      time.Duration
	Ch      channel.ID
	Version uint64
	Enc     []byte
	Idx     channel.Index
	Mask    []bool
}

func (r *Recorder) ChannelCreated(ctx context.Context, s channel.Source, peers []map[wallet.BackendID]wire.Address, parent *channel.ID) error {
	r.mu.Lock()
	r.Created = append(r.Created, s.ID())
	r.mu.Unlock()
	r.n.W.S.Event(r.n.Name, "persist:Created", r.n.W.S.ChanName(s.ID()))
	return r.PersistRestorer.ChannelCreated(ctx, s, peers, parent)
}

func (r *Recorder) ChannelRemoved(ctx context.Context, id channel.ID) error {
	r.mu.Lock()
	r.Removed = append(r.Removed, id)
	r.mu.Unlock()
	return r.PersistRestorer.ChannelRemoved(ctx, id)
}

func (r *Recorder) SigAdded(ctx context.Context, s channel.Source, idx channel.Index) error {
	st := s.StagingTX()
	rec := SigRec{At: r.n.W.S.Now(), Ch: s.ID(), Idx: idx}
	if st.State != nil {
		rec.Version, rec.Enc = st.Version, gen.EncodeState(st.State)
		for _, sg := range st.Sigs {
			rec.Mask = append(rec.Mask, sg != nil)
		}
	}
	r.mu.Lock()
	r.SigAdds = append(r.SigAdds, rec)
	r.mu.Unlock()
	return r.PersistRestorer.SigAdded(ctx, s, idx)
}

func (r *Recorder) Enabled(ctx context.Context, s channel.Source) error {
	cur := s.CurrentTX()
	rec := EnabledRec{At: r.n.W.S.Now(), Ch: s.ID(), Phase: s.Phase()}
	if cur.State != nil {
		rec.Version = cur.Version
		rec.Enc = gen.EncodeState(cur.State)
		rec.State = cur.State.Clone()
		rec.Sigs = wallet.CloneSigs(cur.Sigs)
		rec.SigsOK = verifyAll(s.Params(), cur.State, cur.Sigs) == nil
	}
	r.mu.Lock()
	rec.SeqInRun = len(r.Enables)
	r.Enables = append(r.Enables, rec)
	cb := r.OnEnable
	r.mu.Unlock()
	r.n.W.S.Event(r.n.Name, "persist:Enabled", fmt.Sprintf("%s v%d sigsOK=%v", r.n.W.S.ChanName(s.ID()), rec.Version, rec.SigsOK))
	if cb != nil {
		cb(rec)
	}
	return r.PersistRestorer.Enabled(ctx, s)
}

// PubRec records that the client handed a transaction to its watcher (At is
// the instant Publish returned).
type PubRec struct {
	At      time.Duration
	Ch      channel.ID
	Version uint64
	Err     error
}

// recWatcher passes everything through to the real watcher and records the
// states the client publishes to it.
type recWatcher struct {
	watcher.Watcher
	n *Node
}

type recPub struct {
	watcher.StatesPub
	n *Node
}

func (w *recWatcher) StartWatchingLedgerChannel(ctx context.Context, s channel.SignedState) (watcher.StatesPub, watcher.AdjudicatorSub, error) {
	p, a, err := w.Watcher.StartWatchingLedgerChannel(ctx, s)
	if err != nil {
		return p, a, err
	}
	return &recPub{p, w.n}, newRecSub(a, w.n), nil
}

// recSub hands the watcher's events on to the client one by one and records
// the instant at which the client's event loop took each of them.
type recSub struct {
	watcher.AdjudicatorSub
	out chan channel.AdjudicatorEvent
}

// ToldRec records that the client's event loop took an adjudicator event from
// its watcher.
type ToldRec struct {
	At         time.Duration
	Ch         channel.ID
	Version    uint64
	Registered bool
}

func newRecSub(a watcher.AdjudicatorSub, n *Node) *recSub {
	s := &recSub{AdjudicatorSub: a, out: make(chan channel.AdjudicatorEvent)}
	go func() {
		defer close(s.out)
		for e := range a.EventStream() {
			select {
			case s.out <- e:
				_, reg := e.(*channel.RegisteredEvent)
				n.Rec.mu.Lock()
				n.Rec.Told = append(n.Rec.Told, ToldRec{At: n.W.S.Now(), Ch: e.ID(), Version: e.Version(), Registered: reg})
				n.Rec.mu.Unlock()
			case <-n.dead:
				return
			}
		}
	}()
	return s
}

func (s *recSub) EventStream() <-chan channel.AdjudicatorEvent { return s.out }

// FirstToldRegistered returns the instant at which the client's event loop
// for channel id first took a RegisteredEvent from the watcher.
func (r *Recorder) FirstToldRegistered(id channel.ID) (time.Duration, bool) {
	r.mu.Lock()
	defer r.mu.Unlock()
	for _, t := range r.Told {
		if t.Ch == id && t.Registered {
			return t.At, true
		}
	}
	return 0, false
}

func (w *recWatcher) StartWatchingSubChannel(ctx context.Context, parent channel.ID, s channel.SignedState) (watcher.StatesPub, watcher.AdjudicatorSub, error) {
	p, a, err := w.Watcher.StartWatchingSubChannel(ctx, parent, s)
	if err != nil {
		return p, a, err
	}
	return &recPub{p, w.n}, newRecSub(a, w.n), nil
}

func (p *recPub) Publish(ctx context.Context, tx channel.Transaction) error {
	err := p.StatesPub.Publish(ctx, tx)
	r := p.n.Rec
	r.mu.Lock()
	r.Published = append(r.Published, PubRec{At: p.n.W.S.Now(), Ch: tx.ID, Version: tx.Version, Err: err})
	r.mu.Unlock()
	return err
}

// PublishedAt returns the instant at which version v of channel id was first
// handed to the watcher.
func (r *Recorder) PublishedAt(id channel.ID, v uint64) (time.Duration, bool) {
	r.mu.Lock()
	defer r.mu.Unlock()
	for _, p := range r.Published {
		if p.Ch == id && p.Version == v && p.Err == nil {
			return p.At, true
		}
	}
	return 0, false
}

// CreatedList returns a copy of the IDs of the channels created so far.
func (r *Recorder) CreatedList() []channel.ID {
	r.mu.Lock()
	defer r.mu.Unlock()
	return append([]channel.ID{}, r.Created...)
}

// EnabledOf returns the Enabled stream of one channel.
func (r *Recorder) EnabledOf(id channel.ID) []EnabledRec {
	r.mu.Lock()
	defer r.mu.Unlock()
	var out []EnabledRec
	for _, e := range r.Enables {
		if e.Ch == id {
			out = append(out, e)
		}
	}
	return out
}

// Node is one honest participant: real client, real local watcher, sim wallet,
// ledger account, recording persister, handler policies.
type Node struct {
	W       *World
	Name    string
	Acc     *gen.Acc
	Wire    map[wallet.BackendID]wire.Address
	Wallet  *simwallet.Wallet
	Client  *client.Client
	Watcher *local.Watcher
	Party   *Party
	Rec     *Recorder
	Port    *Port
	// DB is the durable store behind the node's PersistRestorer (nil without persistence).
	DB sortedkv.Database

	mu       sync.Mutex
	Chans    []*client.Channel
	chanByID map[channel.ID]*client.Channel

	// policies, set by the engine before traffic starts
	OnProposal func(p client.ChannelProposal) (accept bool, react time.Duration)
	OnUpdate   func(cur *channel.State, u client.ChannelUpdate) (accept bool, react time.Duration)
	// results of accepted proposals / handled updates
	Accepted    []AcceptResult
	UpdateAcks  []UpdateAck
	ProposalsIn int
	// PropDeadline is the deadline (simulated time) of the context with which
	// the node answered the latest incoming proposal.
	PropDeadline time.Duration
	UpdatesIn    int
	// OnAdjEvent is called for every adjudicator event relayed by Channel.Watch.
	OnAdjEvent func(ch *client.Channel, e channel.AdjudicatorEvent)
	// NextAccNonce, if set, keys the nonce share of the next accepted proposal.
	NextAccNonce string
	watchWG      sync.WaitGroup
	dead         chan struct{} // closed when the instance crashes or the world shuts down
	deadOnce     sync.Once
	// UpdateBegan records when the handling of an incoming update began here
	// (the user's handler was invoked), keyed by channel and version.
	UpdateBegan map[string]time.Duration
	handleDone  chan struct{}
	CtxTimeout  time.Duration
	// UpdateCtxMax > 0: update handlers answer with a context of 0..UpdateCtxMax.
	UpdateCtxMax time.Duration
}

// AcceptResult is the outcome of ProposalResponder.Accept.
type AcceptResult struct {
	Ch  *client.Channel
	Err error
}

// UpdateAck is the outcome of UpdateResponder.Accept/Reject.
type UpdateAck struct {
	Ch       channel.ID
	Version  uint64
	Accepted bool
	Err      error
}

func wireAddr(name string) map[wallet.BackendID]wire.Address {
	a := simwire.NewAddress()
	copy(a[:], []byte("node-"+name))
	return map[wallet.BackendID]wire.Address{channel.TestBackendID: a}
}

// AddNode creates a client named name using pool account accIdx.
func (w *World) AddNode(name string, accIdx int, pr persistence.PersistRestorer) *Node {
	return w.addNode(name, accIdx, pr, nil)
}

// AddPersistentNode creates a client whose channels are persisted in db
// through the real key-value PersistRestorer.
func (w *World) AddPersistentNode(name string, accIdx int, db sortedkv.Database) *Node {
	return w.addNode(name, accIdx, keyvalue.NewPersistRestorer(db), db)
}

func (w *World) addNode(name string, accIdx int, pr persistence.PersistRestorer, db sortedkv.Database) *Node {
	n := &Node{W: w, Name: name, Acc: gen.Pool(accIdx + 1)[accIdx], Wire: wireAddr(name), chanByID: map[channel.ID]*client.Channel{},
		CtxTimeout: 30 * time.Second, handleDone: make(chan struct{}), DB: db, dead: make(chan struct{}), UpdateBegan: map[string]time.Duration{}}
	n.Wallet = simwallet.NewWallet()
	_ = n.Wallet.AddAccount(n.Acc.Acc)
	n.Wallet.IncrementUsage(n.Acc.Acc.Address()) // the account outlives every channel of the run
	n.Party = w.Ledger.Party(name)
	n.Port = w.Bus.NewPort()
	w.Bus.Name(n.Wire, name)
	wt, err := local.NewWatcher(n.Party)
	if err != nil {
		panic(err)
	}
	n.Watcher = wt
	c, err := client.New(n.Wire, n.Port, n.Party, n.Party, map[wallet.BackendID]wallet.Wallet{channel.TestBackendID: n.Wallet}, &recWatcher{Watcher: wt, n: n})
	if err != nil {
		panic(err)
	}
	n.Client = c
	if pr == nil {
		pr = persistence.NonPersistRestorer
	}
	n.Rec = &Recorder{PersistRestorer: pr, n: n}
	c.EnablePersistence(n.Rec)
	c.OnNewChannel(func(ch *client.Channel) {
		n.mu.Lock()
		n.Chans = append(n.Chans, ch)
		n.chanByID[ch.ID()] = ch
		n.mu.Unlock()
		w.S.Event(name, "new-channel", w.S.ChanName(ch.ID()))
	})
	w.Nodes[name] = n
	if !w.hasName(name) {
		w.names = append(w.names, name)
	}
	go func() {
		defer close(n.handleDone)
		c.Handle(client.ProposalHandlerFunc(n.handleProposal), client.UpdateHandlerFunc(n.handleUpdate))
	}()
	return n
}

// Counts returns how often the proposal and update handlers ran.
// LastPropDeadline returns PropDeadline.
func (n *Node) LastPropDeadline() time.Duration {
	n.mu.Lock()
	defer n.mu.Unlock()
	return n.PropDeadline
}

func (n *Node) Counts() (proposals, updates int) {
	n.mu.Lock()
	defer n.mu.Unlock()
	return n.ProposalsIn, n.UpdatesIn
}

// SetNextAccNonce keys the nonce share of the next proposal this node accepts.
func (n *Node) SetNextAccNonce(k string) {
	n.mu.Lock()
	n.NextAccNonce = k
	n.mu.Unlock()
}

func (w *World) hasName(name string) bool {
	for _, x := range w.names {
		if x == name {
			return true
		}
	}
	return false
}

// Crash kills the node's process as far as the world can tell: its bus port
// and ledger handle go dead, its subscriber is detached, and a copy of its
// durable store as of this instant is returned. The left-over goroutines of
// the old instance can no longer affect anything.
func (n *Node) Crash() sortedkv.Database {
	n.deadOnce.Do(func() { close(n.dead) })
	n.Port.Kill()
	n.Party.Dead.Store(true)
	n.W.Bus.Detach(n.Wire)
	n.W.S.Event(n.Name, "crash", "")
	if n.DB == nil {
		return nil
	}
	data := map[string]string{}
	it := n.DB.NewIterator()
	for it.Next() {
		data[it.Key()] = it.Value()
	}
	_ = it.Close()
	return memorydb.FromData(data)
}

// Restart creates a fresh client instance for the same identity on the given
// store and restores its channels.
func (n *Node) Restart(db sortedkv.Database) (*Node, error) {
	w := n.W
	idx := n.Acc.Idx
	nn := w.addNode(n.Name, idx, keyvalue.NewPersistRestorer(db), db)
	nn.OnProposal, nn.OnUpdate, nn.CtxTimeout = n.OnProposal, n.OnUpdate, n.CtxTimeout
	ctx, cancel := nn.Ctx()
	defer cancel()
	err := nn.Client.Restore(ctx)
	w.S.Event(n.Name, "restart", fmt.Sprintf("restored %d channel(s) err=%v", len(nn.Chans), err))
	return nn, err
}

// Chan returns the node's controller for a channel.
func (n *Node) Chan(id channel.ID) *client.Channel {
	n.mu.Lock()
	defer n.mu.Unlock()
	return n.chanByID[id]
}

// ChansSnapshot returns the channels this node's client has announced so far.
func (n *Node) ChansSnapshot() []*client.Channel {
	n.mu.Lock()
	defer n.mu.Unlock()
	return append([]*client.Channel(nil), n.Chans...)
}

// Ctx returns a context with the node's default timeout.
func (n *Node) Ctx() (context.Context, context.CancelFunc) {
	return context.WithTimeout(context.Background(), n.CtxTimeout+n.W.S.Delay("ctx:"+n.Name, 0, time.Millisecond))
}

// handleProposal hands the responder to a driver goroutine (as client/test's
// roles do) which answers after the policy's reaction time.
func (n *Node) handleProposal(p client.ChannelProposal, r *client.ProposalResponder) {
	n.mu.Lock()
	n.ProposalsIn++
	pol := n.OnProposal
	nk := n.NextAccNonce
	n.NextAccNonce = ""
	n.mu.Unlock()
	pname := n.W.S.PropName(p.Base().ProposalID)
	if nk == "" {
		nk = n.Name + pname
	}
	n.W.S.Event(n.Name, "handler:proposal", pname)
	go func() {
		accept, react := true, 50*time.Microsecond
		if pol != nil {
			accept, react = pol(p)
		}
		time.Sleep(react + n.W.S.Delay("handler:"+n.Name+":proposal:"+pname, 0, 30*time.Microsecond))
		ctx, cancel := n.Ctx()
		defer cancel()
		if dl, ok := ctx.Deadline(); ok {
			n.mu.Lock()
			n.PropDeadline = dl.Sub(n.W.S.Epoch())
			n.mu.Unlock()
		}
		if !accept {
			err := r.Reject(ctx, "policy")
			n.W.S.Event(n.Name, "proposal:reject", fmt.Sprintf("%s err=%v", pname, err))
			return
		}
		var acc client.ChannelProposalAccept
		switch pp := p.(type) {
		case *client.LedgerChannelProposalMsg:
			acc = pp.Accept(n.Acc.Addr, client.WithNonceFrom(nonceReader(n.W.S, nk)))
		case *client.SubChannelProposalMsg:
			acc = pp.Accept(client.WithNonceFrom(nonceReader(n.W.S, nk)))
		case *client.VirtualChannelProposalMsg:
			acc = pp.Accept(n.Acc.Addr, client.WithNonceFrom(nonceReader(n.W.S, nk)))
		}
		ch, err := r.Accept(ctx, acc)
		n.mu.Lock()
		n.Accepted = append(n.Accepted, AcceptResult{Ch: ch, Err: err})
		n.mu.Unlock()
		n.W.S.Event(n.Name, "proposal:accepted", fmt.Sprintf("%s err=%v", pname, err))
	}()
}

func (n *Node) handleUpdate(cur *channel.State, u client.ChannelUpdate, r *client.UpdateResponder) {
	n.mu.Lock()
	n.UpdatesIn++
	pol := n.OnUpdate
	n.mu.Unlock()
	cname := n.W.S.ChanName(u.State.ID)
	n.W.S.Event(n.Name, "handler:update", fmt.Sprintf("%s v%d", cname, u.State.Version))
	n.mu.Lock()
	if k := fmt.Sprintf("%x:%d", u.State.ID, u.State.Version); n.UpdateBegan[k] == 0 {
		n.UpdateBegan[k] = n.W.S.Now()
	}
	n.mu.Unlock()
	accept, react := true, 50*time.Microsecond
	if pol != nil {
		accept, react = pol(cur, u)
	}
	time.Sleep(react + n.W.S.Delay(fmt.Sprintf("handler:%s:update:%s:v%d", n.Name, cname, u.State.Version), 0, 30*time.Microsecond))
	ctx, cancel := n.Ctx()
	if n.UpdateCtxMax > 0 {
		// a handler that answers with a context that is about to run out: it may
		// expire before, while or after the answer is sent
		cancel()
		ctx, cancel = context.WithTimeout(context.Background(), n.W.S.Delay(fmt.Sprintf("ctx:answer:%s:%s:v%d", n.Name, cname, u.State.Version), 0, n.UpdateCtxMax))
		n.W.S.Count("fault.answer_with_nearly_expired_context", 1)
	}
	defer cancel()
	var err error
	if accept {
		err = r.Accept(ctx)
	} else {
		err = r.Reject(ctx, "policy")
	}
	n.mu.Lock()
	n.UpdateAcks = append(n.UpdateAcks, UpdateAck{Ch: u.State.ID, Version: u.State.Version, Accepted: accept, Err: err})
	n.mu.Unlock()
	n.W.S.Event(n.Name, "update:responded", fmt.Sprintf("%s v%d accept=%v err=%v", cname, u.State.Version, accept, err))
}

// Watch starts Channel.Watch for ch with the node's adjudicator event handler.
func (n *Node) Watch(ch *client.Channel) {
	n.watchWG.Add(1)
	go func() {
		defer n.watchWG.Done()
		err := ch.Watch(adjHandler{n, ch})
		n.W.S.Event(n.Name, "watch:returned", fmt.Sprintf("%s err=%v", n.W.S.ChanName(ch.ID()), err))
	}()
	// Channel.Watch has no readiness signal; a user has to make sure the
	// parent is watched before a sub-channel's Watch starts. Wait until the
	// watcher's chain subscription for this channel exists.
	for i := 0; i < 20000 && !n.W.Ledger.HasSub(n.Name, ch.ID()); i++ {
		time.Sleep(50 * time.Microsecond)
	}
}

type adjHandler struct {
	n  *Node
	ch *client.Channel
}

func (h adjHandler) HandleAdjudicatorEvent(e channel.AdjudicatorEvent) {
	h.n.W.S.Event(h.n.Name, "adj-event", fmt.Sprintf("%s %T v%d", h.n.W.S.ChanName(e.ID()), e, e.Version()))
	if h.n.OnAdjEvent != nil {
		h.n.OnAdjEvent(h.ch, e)
	}
}

// Shutdown closes the client and waits for its goroutines.
func (w *World) Shutdown() {
	for _, name := range w.names {
		n := w.Nodes[name]
		_ = n.Client.Close()
		n.deadOnce.Do(func() { close(n.dead) })
	}
	// let close callbacks (StopWatching waits 1ms on the fake clock) finish
	time.Sleep(50 * time.Millisecond)
}

type nonceRd struct {
	s   *Sim
	key string
	n   int
}

func (r *nonceRd) Read(p []byte) (int, error) {
	for i := range p {
		p[i] = byte(deriveByte(r.s.Sc.Seed, r.key, r.n))
		r.n++
	}
	return len(p), nil
}

func nonceReader(s *Sim, key string) *nonceRd { return &nonceRd{s: s, key: key} }

// Bal is shorthand.
func Bal(v int64) *big.Int { return big.NewInt(v) }

func deriveByte(seed uint64, key string, n int) uint64 {
	return kernel.Derive(seed, "nonce", key, n) & 0xff
}
