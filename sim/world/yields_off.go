//go:build !verif

package world

// InstallYields is a no-op without the verif build tag.
func InstallYields(*Sim) {}

func heldNow() int64 { return 0 }

// RemoveYields is a no-op without the verif build tag.
func RemoveYields() {}

// HooksEnabled reports whether the binary was built with the verif tag.
const HooksEnabled = false
