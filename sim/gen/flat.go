package gen

// The harness's own structural view of wire values. Flatten walks a value
// field by field (never through reflect.DeepEqual, Equal or Clone of the code
// under test) into a list of (path, rendering) pairs; two values are equal for
// the harness iff their flattenings are equal, and the first differing path
// names the field in violation signatures. Paths are local to the nearest
// named type ("Allocation.Locked", "State.IsFinal", "Params.Aux") so that one
// defect has one signature whatever message carries it.

import (
	"encoding"
	"fmt"
	"io"
	"math/big"
	"sort"
	"strings"

	"perun.network/go-perun/channel"
	"perun.network/go-perun/client"
	"perun.network/go-perun/wallet"
	"perun.network/go-perun/wire"
	"perun.network/go-perun/wire/perunio"
)

// Field is one leaf of a flattened value.
type Field struct {
	Path string // type-local path, indices in brackets
	Val  string
}

type flat struct{ f []Field }

func (f *flat) add(path string, format string, a ...any) {
	f.f = append(f.f, Field{path, fmt.Sprintf(format, a...)})
}

func (f *flat) bin(path string, m encoding.BinaryMarshaler) {
	if m == nil {
		f.add(path, "<nil>")
		return
	}
	b, err := m.MarshalBinary()
	if err != nil {
		f.add(path, "unmarshalable: %v", err)
		return
	}
	f.add(path, "%x", b)
}

func (f *flat) bigint(path string, b *big.Int) {
	if b == nil {
		f.add(path, "<nil>")
		return
	}
	f.add(path, "%s", b.Text(16))
}

func (f *flat) walletMap(path string, m map[wallet.BackendID]wallet.Address) {
	keys := make([]int, 0, len(m))
	for k := range m {
		keys = append(keys, int(k))
	}
	sort.Ints(keys)
	f.add(path+"#", "%d", len(m))
	for _, k := range keys {
		f.bin(fmt.Sprintf("%s[%d]", path, k), m[wallet.BackendID(k)])
	}
}

func (f *flat) wireMap(path string, m map[wallet.BackendID]wire.Address) {
	keys := make([]int, 0, len(m))
	for k := range m {
		keys = append(keys, int(k))
	}
	sort.Ints(keys)
	f.add(path+"#", "%d", len(m))
	for _, k := range keys {
		f.bin(fmt.Sprintf("%s[%d]", path, k), m[wallet.BackendID(k)])
	}
}

func (f *flat) bals(path string, b []channel.Bal) {
	f.add(path+"#", "%d", len(b))
	for i, x := range b {
		f.bigint(fmt.Sprintf("%s[%d]", path, i), x)
	}
}

func (f *flat) balances(path string, b channel.Balances) {
	f.add(path+"#", "%d", len(b))
	for i, row := range b {
		f.bals(fmt.Sprintf("%s[%d]", path, i), row)
	}
}

func (f *flat) indexMap(path string, im []channel.Index) {
	f.add(path, "%v", append([]channel.Index{}, im...))
}

func (f *flat) subAlloc(path string, s *channel.SubAlloc) {
	f.add(path+".ID", "%x", s.ID)
	f.bals(path+".Bals", s.Bals)
	f.indexMap(path+".IndexMap", s.IndexMap)
}

func (f *flat) allocation(a *channel.Allocation) {
	if a == nil {
		f.add("Allocation", "<nil>")
		return
	}
	f.add("Allocation.Backends", "%v", append([]wallet.BackendID{}, a.Backends...))
	f.add("Allocation.Assets#", "%d", len(a.Assets))
	for i, as := range a.Assets {
		f.bin(fmt.Sprintf("Allocation.Assets[%d]", i), as)
	}
	f.balances("Allocation.Balances", a.Balances)
	f.add("Allocation.Locked#", "%d", len(a.Locked))
	for i := range a.Locked {
		f.subAlloc(fmt.Sprintf("Allocation.Locked[%d]", i), &a.Locked[i])
	}
}

func (f *flat) app(path string, a channel.App) {
	switch {
	case a == nil:
		f.add(path, "<nil>")
	case channel.IsNoApp(a):
		f.add(path, "noapp")
	default:
		f.bin(path, a.Def())
	}
}

func (f *flat) data(path string, d channel.Data) {
	if d == nil {
		f.add(path, "<nil>")
		return
	}
	f.bin(path, d)
}

func (f *flat) state(s *channel.State) {
	if s == nil {
		f.add("State", "<nil>")
		return
	}
	f.add("State.ID", "%x", s.ID)
	f.add("State.Version", "%d", s.Version)
	f.app("State.App", s.App)
	f.allocation(&s.Allocation)
	f.data("State.Data", s.Data)
	f.add("State.IsFinal", "%v", s.IsFinal)
}

func (f *flat) params(p *channel.Params) {
	if p == nil {
		f.add("Params", "<nil>")
		return
	}
	f.add("Params.ID()", "%x", p.ID())
	f.add("Params.ChallengeDuration", "%d", p.ChallengeDuration)
	f.add("Params.Parts#", "%d", len(p.Parts))
	for i, m := range p.Parts {
		f.walletMap(fmt.Sprintf("Params.Parts[%d]", i), m)
	}
	f.app("Params.App", p.App)
	f.bigint("Params.Nonce", p.Nonce)
	f.add("Params.LedgerChannel", "%v", p.LedgerChannel)
	f.add("Params.VirtualChannel", "%v", p.VirtualChannel)
	f.add("Params.Aux", "%x", p.Aux[:])
}

// sigs distinguishes an absent signature (nil) from an empty one: the native
// sparse encoding does, and the channel machine tests slots against nil.
func (f *flat) sigs(path string, s []wallet.Sig) {
	f.add(path+"#", "%d", len(s))
	for i, x := range s {
		if x == nil {
			f.add(fmt.Sprintf("%s[%d]", path, i), "<absent>")
		} else {
			f.add(fmt.Sprintf("%s[%d]", path, i), "%x", []byte(x))
		}
	}
}

func (f *flat) baseProposal(p *client.BaseChannelProposal) {
	f.add("BaseChannelProposal.ProposalID", "%x", p.ProposalID)
	f.add("BaseChannelProposal.ChallengeDuration", "%d", p.ChallengeDuration)
	f.add("BaseChannelProposal.NonceShare", "%x", p.NonceShare)
	f.app("BaseChannelProposal.App", p.App)
	f.data("BaseChannelProposal.InitData", p.InitData)
	f.allocation(p.InitBals)
	f.balances("BaseChannelProposal.FundingAgreement", p.FundingAgreement)
	f.add("BaseChannelProposal.Aux", "%x", p.Aux[:])
}

func (f *flat) update(u *client.ChannelUpdateMsg) {
	f.state(u.State)
	f.add("ChannelUpdate.ActorIdx", "%d", u.ActorIdx)
	f.add("ChannelUpdate.Sig", "%x", []byte(u.Sig))
}

func (f *flat) signedState(path string, s *channel.SignedState) {
	f.params(s.Params)
	f.state(s.State)
	f.sigs(path+".Sigs", s.Sigs)
}

func (f *flat) msg(m wire.Msg) {
	if m == nil {
		f.add("Msg", "<nil>")
		return
	}
	f.add("Msg.Type", "%d", m.Type())
	switch v := m.(type) {
	case *wire.PingMsg:
		f.add("Ping.Created", "%d", v.Created.UnixNano())
	case *wire.PongMsg:
		f.add("Pong.Created", "%d", v.Created.UnixNano())
	case *wire.ShutdownMsg:
		f.add("Shutdown.Reason", "%q", v.Reason)
	case *wire.AuthResponseMsg:
		f.add("AuthResponse.Signature", "%x", v.Signature)
	case *client.LedgerChannelProposalMsg:
		f.baseProposal(&v.BaseChannelProposal)
		f.walletMap("LedgerChannelProposal.Participant", v.Participant)
		f.add("LedgerChannelProposal.Peers#", "%d", len(v.Peers))
		for i, p := range v.Peers {
			f.wireMap(fmt.Sprintf("LedgerChannelProposal.Peers[%d]", i), p)
		}
	case *client.LedgerChannelProposalAccMsg:
		f.add("ProposalAcc.ProposalID", "%x", v.ProposalID)
		f.add("ProposalAcc.NonceShare", "%x", v.NonceShare)
		f.walletMap("LedgerChannelProposalAcc.Participant", v.Participant)
	case *client.SubChannelProposalMsg:
		f.baseProposal(&v.BaseChannelProposal)
		f.add("SubChannelProposal.Parent", "%x", v.Parent)
	case *client.SubChannelProposalAccMsg:
		f.add("ProposalAcc.ProposalID", "%x", v.ProposalID)
		f.add("ProposalAcc.NonceShare", "%x", v.NonceShare)
	case *client.VirtualChannelProposalMsg:
		f.baseProposal(&v.BaseChannelProposal)
		f.walletMap("VirtualChannelProposal.Proposer", v.Proposer)
		f.add("VirtualChannelProposal.Peers#", "%d", len(v.Peers))
		for i, p := range v.Peers {
			f.wireMap(fmt.Sprintf("VirtualChannelProposal.Peers[%d]", i), p)
		}
		f.add("VirtualChannelProposal.Parents#", "%d", len(v.Parents))
		for i, p := range v.Parents {
			f.add(fmt.Sprintf("VirtualChannelProposal.Parents[%d]", i), "%x", p)
		}
		f.add("VirtualChannelProposal.IndexMaps#", "%d", len(v.IndexMaps))
		for i, p := range v.IndexMaps {
			f.indexMap(fmt.Sprintf("VirtualChannelProposal.IndexMaps[%d]", i), p)
		}
	case *client.VirtualChannelProposalAccMsg:
		f.add("ProposalAcc.ProposalID", "%x", v.ProposalID)
		f.add("ProposalAcc.NonceShare", "%x", v.NonceShare)
		f.walletMap("VirtualChannelProposalAcc.Responder", v.Responder)
	case *client.ChannelProposalRejMsg:
		f.add("ChannelProposalRej.ProposalID", "%x", v.ProposalID)
		f.add("ChannelProposalRej.Reason", "%q", v.Reason)
	case *client.ChannelUpdateMsg:
		f.update(v)
	case *client.VirtualChannelFundingProposalMsg:
		f.update(&v.ChannelUpdateMsg)
		f.signedState("SignedState", &v.Initial)
		f.indexMap("VirtualChannelFundingProposal.IndexMap", v.IndexMap)
	case *client.VirtualChannelSettlementProposalMsg:
		f.update(&v.ChannelUpdateMsg)
		f.signedState("SignedState", &v.Final)
	case *client.ChannelUpdateAccMsg:
		f.add("ChannelUpdateAcc.ChannelID", "%x", v.ChannelID)
		f.add("ChannelUpdateAcc.Version", "%d", v.Version)
		f.add("ChannelUpdateAcc.Sig", "%x", []byte(v.Sig))
	case *client.ChannelUpdateRejMsg:
		f.add("ChannelUpdateRej.ChannelID", "%x", v.ChannelID)
		f.add("ChannelUpdateRej.Version", "%d", v.Version)
		f.add("ChannelUpdateRej.Reason", "%q", v.Reason)
	case *client.ChannelSyncMsg:
		f.add("ChannelSync.Phase", "%d", v.Phase)
		f.state(v.CurrentTX.State)
		f.sigs("Transaction.Sigs", v.CurrentTX.Sigs)
	default:
		f.add("Msg", "unknown %T", m)
	}
}

// Prims is a tuple of perunio primitives (one of each supported kind).
type Prims struct {
	B    bool
	U8   uint8
	U16  uint16
	U32  uint32
	U64  uint64
	I16  int16
	I32  int32
	I64  int64
	Big  *big.Int
	H    [32]byte
	S    string
	Addr wallet.Address // encoded as a length-prefixed binary marshaler
}

// Encode writes the tuple with the primitive codec.
func (p *Prims) Encode(w io.Writer) error {
	return perunio.Encode(w, p.B, p.U8, p.U16, p.U32, p.U64, p.I16, p.I32, p.I64, p.Big, p.H, p.S, p.Addr)
}

// Decode reads the tuple with the primitive codec.
func (p *Prims) Decode(r io.Reader) error {
	p.Addr = wallet.NewAddress(channel.TestBackendID)
	return perunio.Decode(r, &p.B, &p.U8, &p.U16, &p.U32, &p.U64, &p.I16, &p.I32, &p.I64, &p.Big, &p.H, &p.S, p.Addr)
}

// Flatten returns the harness's structural view of a wire value. Supported:
// *wire.Envelope, wire.Msg, *channel.State, *channel.Allocation,
// *channel.Balances, *channel.SubAlloc, *channel.Params, *channel.Transaction,
// wallet/wire address maps and arrays, *Prims.
func Flatten(v any) []Field {
	f := &flat{}
	switch x := v.(type) {
	case *wire.Envelope:
		if x == nil {
			f.add("Envelope", "<nil>")
			break
		}
		f.wireMap("Envelope.Sender", x.Sender)
		f.wireMap("Envelope.Recipient", x.Recipient)
		f.msg(x.Msg)
	case *channel.State:
		f.state(x)
	case *channel.Allocation:
		f.allocation(x)
	case *channel.Balances:
		f.balances("Balances", *x)
	case *channel.SubAlloc:
		f.subAlloc("SubAlloc", x)
	case *channel.Params:
		f.params(x)
	case *channel.Transaction:
		f.state(x.State)
		f.sigs("Transaction.Sigs", x.Sigs)
	case *wallet.AddressDecMap:
		f.walletMap("wallet.AddressDecMap", *x)
	case *wallet.AddressMapArray:
		f.add("wallet.AddressMapArray#", "%d", len(x.Addr))
		for i, m := range x.Addr {
			f.walletMap(fmt.Sprintf("wallet.AddressMapArray[%d]", i), m)
		}
	case *wire.AddressDecMap:
		f.wireMap("wire.AddressDecMap", *x)
	case *wire.AddressMapArray:
		f.add("wire.AddressMapArray#", "%d", len(*x))
		for i, m := range *x {
			f.wireMap(fmt.Sprintf("wire.AddressMapArray[%d]", i), m)
		}
	case *Prims:
		f.add("Prims.B", "%v", x.B)
		f.add("Prims.U8", "%d", x.U8)
		f.add("Prims.U16", "%d", x.U16)
		f.add("Prims.U32", "%d", x.U32)
		f.add("Prims.U64", "%d", x.U64)
		f.add("Prims.I16", "%d", x.I16)
		f.add("Prims.I32", "%d", x.I32)
		f.add("Prims.I64", "%d", x.I64)
		f.bigint("Prims.Big", x.Big)
		f.add("Prims.H", "%x", x.H)
		f.add("Prims.S", "%q", x.S)
		f.bin("Prims.Addr", x.Addr)
	case wire.Msg:
		f.msg(x)
	default:
		f.add("?", "unsupported %T", v)
	}
	return f.f
}

// Diff describes the first difference between two flattenings.
type Diff struct {
	Path      string // path without indices, e.g. "Allocation.Locked"
	FullPath  string
	Sent, Got string
	Lost      bool // the received side is empty, zero or shorter
}

func stripIdx(p string) string {
	var b strings.Builder
	depth := 0
	for _, c := range p {
		switch {
		case c == '[':
			depth++
		case c == ']':
			depth--
		case depth == 0 && c != '#':
			b.WriteRune(c)
		}
	}
	return b.String()
}

func emptyVal(s string) bool {
	switch s {
	case "", "0", "[]", "false", "<nil>", "<absent>", `""`, "noapp":
		return true
	}
	return strings.Trim(s, "0") == ""
}

// FirstDiff compares two flattenings; nil means equal.
func FirstDiff(sent, got []Field) *Diff {
	for i := range sent {
		if i >= len(got) {
			return &Diff{Path: stripIdx(sent[i].Path), FullPath: sent[i].Path, Sent: clip(sent[i].Val), Got: "<missing>", Lost: true}
		}
		if sent[i] != got[i] {
			d := &Diff{Path: stripIdx(sent[i].Path), FullPath: sent[i].Path, Sent: clip(sent[i].Val), Got: clip(got[i].Val)}
			if sent[i].Path != got[i].Path {
				d.Got = clip(got[i].Path + "=" + got[i].Val)
			} else if strings.HasSuffix(sent[i].Path, "#") {
				d.Lost = len(got[i].Val) < len(sent[i].Val) || (len(got[i].Val) == len(sent[i].Val) && got[i].Val < sent[i].Val)
			} else {
				d.Lost = emptyVal(got[i].Val) && !emptyVal(sent[i].Val)
			}
			return d
		}
	}
	if len(got) > len(sent) {
		g := got[len(sent)]
		return &Diff{Path: stripIdx(g.Path), FullPath: g.Path, Sent: "<missing>", Got: clip(g.Val)}
	}
	return nil
}

func clip(s string) string {
	if len(s) > 80 {
		return s[:77] + "..."
	}
	return s
}

// OverLimit walks a decoded value and names the first documented limit it
// exceeds ("" if none): MaxNumAssets, MaxNumParts, MaxNumSubAllocations for
// allocations, balance matrices, sub-allocations, parameters and ledger
// proposal peers; perunio.MaxBigIntLength for every big integer.
func OverLimit(v any) string {
	bigOver := func(b *big.Int) bool { return b != nil && len(b.Bytes()) > perunio.MaxBigIntLength }
	balsOver := func(what string, rows channel.Balances) string {
		if len(rows) > channel.MaxNumAssets {
			return what + ".assets"
		}
		for _, row := range rows {
			if len(row) > channel.MaxNumParts {
				return what + ".parts"
			}
			for _, b := range row {
				if bigOver(b) {
					return what + ".bigint"
				}
			}
		}
		return ""
	}
	alloc := func(a *channel.Allocation) string {
		if a == nil {
			return ""
		}
		if len(a.Assets) > channel.MaxNumAssets {
			return "Allocation.assets"
		}
		if s := balsOver("Allocation.Balances", a.Balances); s != "" {
			return s
		}
		if len(a.Locked) > channel.MaxNumSubAllocations {
			return "Allocation.Locked"
		}
		for i := range a.Locked {
			if len(a.Locked[i].Bals) > channel.MaxNumAssets {
				return "SubAlloc.Bals.assets"
			}
			for _, b := range a.Locked[i].Bals {
				if bigOver(b) {
					return "SubAlloc.Bals.bigint"
				}
			}
		}
		return ""
	}
	state := func(s *channel.State) string {
		if s == nil {
			return ""
		}
		return alloc(&s.Allocation)
	}
	params := func(p *channel.Params) string {
		if p == nil {
			return ""
		}
		if len(p.Parts) > channel.MaxNumParts {
			return "Params.Parts"
		}
		if bigOver(p.Nonce) {
			return "Params.Nonce.bigint"
		}
		return ""
	}
	first := func(s ...string) string {
		for _, x := range s {
			if x != "" {
				return x
			}
		}
		return ""
	}
	base := func(p *client.BaseChannelProposal) string {
		return first(alloc(p.InitBals), balsOver("FundingAgreement", p.FundingAgreement))
	}
	switch x := v.(type) {
	case *wire.Envelope:
		if x == nil {
			return ""
		}
		return OverLimit(x.Msg)
	case *channel.State:
		return state(x)
	case *channel.Allocation:
		return alloc(x)
	case *channel.Balances:
		return balsOver("Balances", *x)
	case *channel.SubAlloc:
		a := channel.Allocation{Locked: []channel.SubAlloc{*x}}
		return alloc(&a)
	case *channel.Params:
		return params(x)
	case *channel.Transaction:
		return state(x.State)
	case *Prims:
		if bigOver(x.Big) {
			return "bigint"
		}
	case *client.LedgerChannelProposalMsg:
		if len(x.Peers) > channel.MaxNumParts {
			return "LedgerChannelProposal.Peers"
		}
		return base(&x.BaseChannelProposal)
	case *client.SubChannelProposalMsg:
		return base(&x.BaseChannelProposal)
	case *client.VirtualChannelProposalMsg:
		return base(&x.BaseChannelProposal)
	case *client.ChannelUpdateMsg:
		return state(x.State)
	case *client.VirtualChannelFundingProposalMsg:
		return first(state(x.State), params(x.Initial.Params), state(x.Initial.State))
	case *client.VirtualChannelSettlementProposalMsg:
		return first(state(x.State), params(x.Final.Params), state(x.Final.State))
	case *client.ChannelSyncMsg:
		return state(x.CurrentTX.State)
	}
	return ""
}
