package gen

import (
	"math/big"

	"perun.network/go-perun/channel"

	"verif/sim/kernel"
)

// Mutations is the list of single-condition mutations of a valid successor.
var Mutations = []string{
	"id", "app-swap", "app-other",
	"ver-same", "ver+2", "ver-0", "ver-max",
	"asset-replaced", "asset-dropped", "asset-added", "asset-reordered",
	"neg-balance", "ragged-long", "ragged-short",
	"locked-dim", "locked-neg",
	"sum+1", "sum-1", "locked+1", "locked-1",
	"move-to-locked", "move-from-locked",
	"actor-N", "actor-max", "actor-gains", "nonactor-loses",
	"final-flag", "locked-id", "locked-indexmap",
	"parts-fewer", "parts-more",
}

// Mutate applies mutation m to a (valid) successor of cur. ok=false means the
// mutation is not applicable to this state (nothing was changed).
func Mutate(r *kernel.Rand, m string, cur *channel.State, su Succ, n int, appKind int) (out Succ, ok bool) {
	s := cloneState(su.State)
	out = Succ{State: s, Actor: su.Actor, Mut: m}
	na := len(s.Balances)
	ai := r.Intn(na)
	pi := r.Intn(n)
	one := big.NewInt(1)
	switch m {
	case "id":
		s.ID[r.Intn(32)] ^= byte(1 << r.Intn(8))
	case "app-swap":
		if appKind == AppNone {
			s.App = PaymentApp(0)
		} else {
			s.App = channel.NoApp()
		}
	case "app-other":
		if appKind != AppPayment {
			return out, false
		}
		s.App = PaymentApp(1)
	case "ver-same":
		s.Version = cur.Version
	case "ver+2":
		s.Version = cur.Version + 2
	case "ver-0":
		s.Version = 0
	case "ver-max":
		s.Version = ^uint64(0)
	case "asset-replaced":
		s.Assets[ai] = Asset(77)
	case "asset-dropped":
		if na < 2 {
			return out, false
		}
		s.Assets = append(s.Assets[:ai], s.Assets[ai+1:]...)
		s.Backends = append(s.Backends[:ai], s.Backends[ai+1:]...)
		s.Balances = append(s.Balances[:ai], s.Balances[ai+1:]...)
		for k := range s.Locked {
			s.Locked[k].Bals = append(s.Locked[k].Bals[:ai], s.Locked[k].Bals[ai+1:]...)
		}
	case "asset-added":
		s.Assets = append(s.Assets, Asset(78))
		s.Backends = append(s.Backends, channel.TestBackendID)
		row := make([]channel.Bal, n)
		for j := range row {
			row[j] = new(big.Int)
		}
		s.Balances = append(s.Balances, row)
		for k := range s.Locked {
			s.Locked[k].Bals = append(s.Locked[k].Bals, new(big.Int))
		}
	case "asset-reordered":
		if na < 2 {
			return out, false
		}
		aj := (ai + 1) % na
		s.Assets[ai], s.Assets[aj] = s.Assets[aj], s.Assets[ai]
		s.Balances[ai], s.Balances[aj] = s.Balances[aj], s.Balances[ai]
		for k := range s.Locked {
			s.Locked[k].Bals[ai], s.Locked[k].Bals[aj] = s.Locked[k].Bals[aj], s.Locked[k].Bals[ai]
		}
	case "neg-balance":
		// total preserved: one participant goes to -d, another gains d + old
		pj := (pi + 1) % n
		d := big.NewInt(int64(r.Range(1, 9)))
		old := s.Balances[ai][pi]
		s.Balances[ai][pj].Add(s.Balances[ai][pj], new(big.Int).Add(old, d))
		s.Balances[ai][pi] = new(big.Int).Neg(d)
	case "parts-more":
		// one more (zero) balance in every row: totals preserved
		for i := range s.Balances {
			s.Balances[i] = append(s.Balances[i], new(big.Int))
		}
	case "parts-fewer":
		// the last participant's balance is given to the first, in every row
		for i := range s.Balances {
			if len(s.Balances[i]) < 2 {
				return out, false
			}
			l := len(s.Balances[i]) - 1
			s.Balances[i][0].Add(s.Balances[i][0], s.Balances[i][l])
			s.Balances[i] = s.Balances[i][:l]
		}
	case "ragged-long":
		s.Balances[ai] = append(s.Balances[ai], new(big.Int))
	case "ragged-short":
		if len(s.Balances[ai]) < 2 {
			return out, false
		}
		n = len(s.Balances[ai])
		last := s.Balances[ai][n-1]
		s.Balances[ai] = s.Balances[ai][:n-1]
		s.Balances[ai][0].Add(s.Balances[ai][0], last)
	case "locked-dim":
		if len(s.Locked) == 0 {
			return out, false
		}
		k := r.Intn(len(s.Locked))
		if r.Bool(0.5) {
			s.Locked[k].Bals = append(s.Locked[k].Bals, new(big.Int))
		} else {
			// drop a zero-valued tail entry only when it does not change sums
			l := len(s.Locked[k].Bals)
			s.Balances[l-1][pi].Add(s.Balances[l-1][pi], s.Locked[k].Bals[l-1])
			s.Locked[k].Bals = s.Locked[k].Bals[:l-1]
			if appKind == AppPayment && channel.Index(pi) == su.Actor {
				// may break the payment rule as well; still a refusal either way
				_ = pi
			}
		}
	case "locked-neg":
		if len(s.Locked) == 0 {
			return out, false
		}
		k := r.Intn(len(s.Locked))
		d := big.NewInt(int64(r.Range(1, 9)))
		old := s.Locked[k].Bals[ai]
		// keep the total: give old+d to a participant
		s.Balances[ai][pi].Add(s.Balances[ai][pi], new(big.Int).Add(old, d))
		s.Locked[k].Bals[ai] = new(big.Int).Neg(d)
	case "sum+1":
		s.Balances[ai][pi].Add(s.Balances[ai][pi], one)
	case "sum-1":
		if s.Balances[ai][pi].Sign() == 0 {
			return out, false
		}
		s.Balances[ai][pi].Sub(s.Balances[ai][pi], one)
	case "locked+1":
		if len(s.Locked) == 0 {
			return out, false
		}
		k := r.Intn(len(s.Locked))
		s.Locked[k].Bals[ai].Add(s.Locked[k].Bals[ai], one)
	case "locked-1":
		if len(s.Locked) == 0 {
			return out, false
		}
		k := r.Intn(len(s.Locked))
		if s.Locked[k].Bals[ai].Sign() == 0 {
			return out, false
		}
		s.Locked[k].Bals[ai].Sub(s.Locked[k].Bals[ai], one)
	case "move-to-locked":
		// total preserved; the actor's balance shrinks
		a := int(su.Actor)
		if a >= n || s.Balances[ai][a].Sign() == 0 {
			return out, false
		}
		bals := make([]channel.Bal, na)
		for i := range bals {
			bals[i] = new(big.Int)
		}
		bals[ai].Set(one)
		s.Balances[ai][a].Sub(s.Balances[ai][a], one)
		s.Locked = append(s.Locked, *channel.NewSubAlloc(SubID(5000+r.Uint64()%100), bals, nil))
	case "move-from-locked":
		if len(s.Locked) == 0 {
			return out, false
		}
		k := r.Intn(len(s.Locked))
		if s.Locked[k].Bals[ai].Sign() == 0 {
			return out, false
		}
		s.Locked[k].Bals[ai].Sub(s.Locked[k].Bals[ai], one)
		s.Balances[ai][pi].Add(s.Balances[ai][pi], one)
	case "actor-N":
		out.Actor = channel.Index(n)
	case "actor-max":
		out.Actor = 65535
	case "actor-gains":
		// the actor takes one unit from someone else (relative to cur)
		a := int(su.Actor)
		v := (a + 1 + r.Intn(n-1)) % n
		// rebuild this asset row from cur so the relation to cur is exact
		for j := 0; j < n; j++ {
			s.Balances[ai][j] = new(big.Int).Set(cur.Balances[ai][j])
		}
		if cur.Balances[ai][v].Sign() == 0 {
			return out, false
		}
		// keep locked as in su; re-balance the row total against su's row total
		diff := new(big.Int)
		for j := 0; j < n; j++ {
			diff.Add(diff, su.State.Balances[ai][j])
			diff.Sub(diff, cur.Balances[ai][j])
		}
		if diff.Sign() != 0 {
			return out, false
		}
		s.Balances[ai][v].Sub(s.Balances[ai][v], one)
		s.Balances[ai][a].Add(s.Balances[ai][a], one)
	case "nonactor-loses":
		a := int(su.Actor)
		v := (a + 1 + r.Intn(n-1)) % n
		w := (v + 1) % n
		if w == a {
			if n == 2 {
				return out, false // would be actor-gains
			}
			w = (w + 1) % n
		}
		for j := 0; j < n; j++ {
			s.Balances[ai][j] = new(big.Int).Set(cur.Balances[ai][j])
		}
		diff := new(big.Int)
		for j := 0; j < n; j++ {
			diff.Add(diff, su.State.Balances[ai][j])
			diff.Sub(diff, cur.Balances[ai][j])
		}
		if diff.Sign() != 0 || cur.Balances[ai][v].Sign() == 0 {
			return out, false
		}
		s.Balances[ai][v].Sub(s.Balances[ai][v], one)
		s.Balances[ai][w].Add(s.Balances[ai][w], one)
	case "final-flag":
		s.IsFinal = !s.IsFinal // still valid: any successor may be final or not
	case "locked-id":
		if len(s.Locked) == 0 {
			return out, false
		}
		s.Locked[r.Intn(len(s.Locked))].ID[0] ^= 1 // machine level: still valid
	case "locked-indexmap":
		if len(s.Locked) == 0 {
			return out, false
		}
		k := r.Intn(len(s.Locked))
		s.Locked[k].IndexMap = append(s.Locked[k].IndexMap, channel.Index(r.Intn(n)))
	default:
		return out, false
	}
	return out, true
}
