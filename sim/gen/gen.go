// Package gen builds channel values (accounts, parameters, allocations,
// states, successors and single-condition mutants) from the seeded PRNG.
package gen

import (
	"bytes"
	"fmt"
	"math/big"
	"math/rand"
	"sync"

	"perun.network/go-perun/apps/payment"
	_ "perun.network/go-perun/backend/sim" // registers the sim backends
	simchannel "perun.network/go-perun/backend/sim/channel"
	simwallet "perun.network/go-perun/backend/sim/wallet"
	"perun.network/go-perun/channel"
	"perun.network/go-perun/wallet"

	"verif/sim/kernel"
)

// Acc is one signing identity. Key material is derived from the pool index
// (detkey.go), so addresses and channel IDs are the same in every process.
type Acc struct {
	Idx    int
	Acc    *simwallet.Account
	Addr   map[wallet.BackendID]wallet.Address
	AccMap map[wallet.BackendID]wallet.Account
}

var (
	poolMu sync.Mutex
	pool   []*Acc
	apps   []channel.App
	appIDs []simchannel.AppID
)

// Pool returns the first n accounts of the process-wide pool.
func Pool(n int) []*Acc {
	poolMu.Lock()
	defer poolMu.Unlock()
	for len(pool) < n {
		a := DetAccount("acc", len(pool))
		pool = append(pool, &Acc{
			Idx:    len(pool),
			Acc:    a,
			Addr:   map[wallet.BackendID]wallet.Address{channel.TestBackendID: a.Address()},
			AccMap: map[wallet.BackendID]wallet.Account{channel.TestBackendID: a},
		})
	}
	return pool[:n]
}

// Asset returns the sim asset with the given small id.
func Asset(id int) channel.Asset { return &simchannel.Asset{ID: uint64(1000 + id)} }

// PaymentApp returns the k-th payment app (distinct definitions for distinct k).
func PaymentApp(k int) channel.App {
	poolMu.Lock()
	defer poolMu.Unlock()
	for len(apps) <= k {
		id := simchannel.AppID{Address: DetAddress("payment-app", len(apps))}
		appIDs = append(appIDs, id)
		app := &payment.App{ID: id}
		channel.RegisterApp(app) // so that encoded states and proposals naming it can be decoded
		apps = append(apps, app)
	}
	return apps[k]
}

// AppKind names the app of a generated channel.
const (
	AppNone    = 0
	AppPayment = 1
)

// App returns the app for a kind.
func App(kind int) channel.App {
	if kind == AppPayment {
		return PaymentApp(0)
	}
	return channel.NoApp()
}

// Params builds channel parameters for the given pool accounts.
func Params(accs []*Acc, challenge uint64, appKind int, nonce uint64, ledger, virtual bool) *channel.Params {
	parts := make([]map[wallet.BackendID]wallet.Address, len(accs))
	for i, a := range accs {
		parts[i] = a.Addr
	}
	p, err := channel.NewParams(challenge, parts, App(appKind), new(big.Int).SetUint64(nonce+1), ledger, virtual, channel.ZeroAux)
	if err != nil {
		panic(fmt.Sprintf("gen.Params: %v", err))
	}
	return p
}

// Shape describes the dimensions of a generated allocation.
type Shape struct {
	Parts    int
	Assets   int
	Locked   int
	IndexMap bool // sub-allocations carry index maps
	Big      bool // balances up to 2^200 instead of small ones
	Zeros    bool // some balances are zero
	Huge     bool // some balances sit at the 128-byte limit (sums need a carry word)
}

// RandShape draws a shape (swarm style: most are small).
func RandShape(r *kernel.Rand, parts int) Shape {
	s := Shape{Parts: parts, Assets: 1 + r.Weighted([]int{6, 3, 1}), Zeros: r.Bool(0.3), Big: r.Bool(0.15)}
	if kernel.NewRand(kernel.Derive(r.Uint64(), "huge")).Bool(0.06) {
		s.Huge = true
		if s.Assets < 2 {
			s.Assets = 2
		}
	}
	if r.Bool(0.35) {
		s.Locked = r.Range(1, 3)
		s.IndexMap = r.Bool(0.5)
	}
	return s
}

// Amount draws a balance.
func Amount(r *kernel.Rand, sh Shape) *big.Int {
	if sh.Zeros && r.Bool(0.3) {
		return new(big.Int)
	}
	if sh.Huge && r.Bool(0.6) {
		// at the documented size limit of a balance (128 bytes): all ones, minus a little
		v := new(big.Int).Lsh(big.NewInt(1), 1024)
		return v.Sub(v, big.NewInt(int64(r.Range(1, 4))))
	}
	if sh.Big {
		return new(big.Int).SetBytes(r.Bytes(r.Range(1, 25)))
	}
	return big.NewInt(int64(r.Range(0, 200)))
}

// SubID returns a deterministic sub-channel id.
func SubID(k uint64) channel.ID {
	var id channel.ID
	h := kernel.Derive(0x5ab, k)
	for i := 0; i < 32; i++ {
		id[i] = byte(kernel.Derive(h, i))
	}
	return id
}

// Allocation draws an allocation of the given shape.
func Allocation(r *kernel.Rand, sh Shape) channel.Allocation {
	a := channel.Allocation{}
	for i := 0; i < sh.Assets; i++ {
		a.Assets = append(a.Assets, Asset(i))
		a.Backends = append(a.Backends, channel.TestBackendID)
		row := make([]channel.Bal, sh.Parts)
		for j := range row {
			row[j] = Amount(r, sh)
		}
		a.Balances = append(a.Balances, row)
	}
	for l := 0; l < sh.Locked; l++ {
		bals := make([]channel.Bal, sh.Assets)
		for i := range bals {
			bals[i] = Amount(r, sh)
		}
		var im []channel.Index
		if sh.IndexMap {
			im = make([]channel.Index, sh.Parts)
			for i, p := range r.Perm(sh.Parts) {
				im[i] = channel.Index(p)
			}
		}
		a.Locked = append(a.Locked, *channel.NewSubAlloc(SubID(r.Uint64()%1000), bals, im))
	}
	return a
}

// EncodeState is the harness's own access to the canonical bytes of a state.
func EncodeState(s *channel.State) []byte {
	if s == nil {
		return nil
	}
	var b bytes.Buffer
	if err := s.Encode(&b); err != nil {
		return []byte("unencodable:" + err.Error())
	}
	return b.Bytes()
}

// StateHash hashes a state's encoding.
func StateHash(s *channel.State) uint64 { return kernel.HashBytes(EncodeState(s)) }

// Succ is a candidate successor with the harness's knowledge about it.
type Succ struct {
	State *channel.State
	Actor channel.Index
	// Mut names the mutation ("" = valid successor by construction).
	Mut string
	// Valid is the generator's claim, used only as a cross-check of the
	// reference predicate (they must agree for single-condition mutants).
	Valid bool
}

// cloneState deep-copies without using State.Clone for the allocation part.
func cloneState(s *channel.State) *channel.State {
	c := *s
	c.Allocation = CloneAlloc(s.Allocation)
	if s.Data != nil {
		c.Data = s.Data.Clone()
	}
	return &c
}

// CloneAlloc is the harness's own deep copy of an allocation.
func CloneAlloc(a channel.Allocation) channel.Allocation {
	var c channel.Allocation
	c.Assets = append([]channel.Asset(nil), a.Assets...)
	c.Backends = append([]wallet.BackendID(nil), a.Backends...)
	if a.Balances != nil {
		c.Balances = make(channel.Balances, len(a.Balances))
		for i, row := range a.Balances {
			c.Balances[i] = make([]channel.Bal, len(row))
			for j, b := range row {
				if b != nil {
					c.Balances[i][j] = new(big.Int).Set(b)
				}
			}
		}
	}
	if a.Locked != nil {
		c.Locked = make([]channel.SubAlloc, len(a.Locked))
		for i, l := range a.Locked {
			c.Locked[i].ID = l.ID
			c.Locked[i].Bals = make([]channel.Bal, len(l.Bals))
			for j, b := range l.Bals {
				if b != nil {
					c.Locked[i].Bals[j] = new(big.Int).Set(b)
				}
			}
			c.Locked[i].IndexMap = append([]channel.Index{}, l.IndexMap...)
		}
	}
	return c
}

// CloneState is the harness's own deep copy of a state (independent of the
// library's Clone methods).
func CloneState(s *channel.State) *channel.State { return cloneState(s) }

// BalanceOverLimit reports whether some balance needs more than 128 bytes.
func BalanceOverLimit(a *channel.Allocation) bool { return overLimit(a) }

func overLimit(a *channel.Allocation) bool {
	for _, row := range a.Balances {
		for _, b := range row {
			if b != nil && b.BitLen() > 1024 {
				return true
			}
		}
	}
	for _, l := range a.Locked {
		for _, b := range l.Bals {
			if b != nil && b.BitLen() > 1024 {
				return true
			}
		}
	}
	return false
}

// ValidSuccessor derives a valid successor of cur for the given app kind.
// final asks for a final state.
func ValidSuccessor(r *kernel.Rand, cur *channel.State, n int, appKind int, final bool) Succ {
	s := cloneState(cur)
	s.Version = cur.Version + 1
	s.IsFinal = final
	actor := channel.Index(r.Intn(n))
	if !WellFormed(&s.Allocation) || len(s.Balances[0]) != n {
		// irregular current state (force-staged or adopted from a progression
		// event): only the version is advanced
		return Succ{State: s, Actor: actor, Valid: true}
	}
	// move funds from the actor to others (valid for both apps)
	for i := range s.Balances {
		if r.Bool(0.7) && s.Balances[i][actor].Sign() > 0 {
			amt := new(big.Int).Rand(randSource(r), new(big.Int).Add(s.Balances[i][actor], big.NewInt(1)))
			to := r.Intn(n)
			s.Balances[i][actor].Sub(s.Balances[i][actor], amt)
			s.Balances[i][to].Add(s.Balances[i][to], amt)
		}
	}
	if appKind == AppNone {
		switch r.Intn(6) {
		case 0: // lock funds of the actor into a new sub-allocation, total preserved
			bals := make([]channel.Bal, len(s.Balances))
			for i := range bals {
				amt := new(big.Int).Rand(randSource(r), new(big.Int).Add(s.Balances[i][actor], big.NewInt(1)))
				s.Balances[i][actor].Sub(s.Balances[i][actor], amt)
				bals[i] = amt
			}
			if len(s.Locked) < 4 {
				s.Locked = append(s.Locked, *channel.NewSubAlloc(SubID(r.Uint64()%1000), bals, nil))
			} else {
				for i := range bals {
					s.Balances[i][actor].Add(s.Balances[i][actor], bals[i])
				}
			}
		case 1: // unlock a sub-allocation into a participant's balance
			if len(s.Locked) > 0 {
				k := r.Intn(len(s.Locked))
				to := r.Intn(n)
				for i, b := range s.Locked[k].Bals {
					s.Balances[i][to].Add(s.Balances[i][to], b)
				}
				s.Locked = append(s.Locked[:k], s.Locked[k+1:]...)
			}
		case 2: // arbitrary redistribution with preserved totals
			for i := range s.Balances {
				a, b := r.Intn(n), r.Intn(n)
				amt := new(big.Int).Rand(randSource(r), new(big.Int).Add(s.Balances[i][a], big.NewInt(1)))
				s.Balances[i][a].Sub(s.Balances[i][a], amt)
				s.Balances[i][b].Add(s.Balances[i][b], amt)
			}
		}
	}
	if overLimit(&s.Allocation) {
		// a balance would no longer fit the 128 bytes of its encoding (possible
		// only with amounts at the limit): only the version is advanced
		s = cloneState(cur)
		s.Version = cur.Version + 1
		s.IsFinal = final
	}
	return Succ{State: s, Actor: actor, Valid: true}
}

type rsrc struct{ r *kernel.Rand }

func randSource(r *kernel.Rand) *rand.Rand { return rand.New(rsrc{r}) }

func (s rsrc) Int63() int64   { return int64(s.r.Uint64() >> 1) }
func (s rsrc) Uint64() uint64 { return s.r.Uint64() }
func (s rsrc) Seed(int64)     {}
