package gen

// Seeded generators for every wire message type and every serialisable channel
// value, with the shape space that properties C13, C14 and C16 quantify over.
// Everything here is input generation: the caller supplies the PRNG, nothing
// reads a clock or a global source. Two things are random per process and
// cannot be seeded (ECDSA key generation and signing in the sim wallet): the
// bytes of wallet addresses, app identifiers and signatures. Their positions
// and lengths in every encoding are fixed, so a scenario replays to the same
// structure in every process.

import (
	"fmt"
	"math/big"
	"sync"
	"time"

	simchannel "perun.network/go-perun/backend/sim/channel"
	simwire "perun.network/go-perun/backend/sim/wire"
	"perun.network/go-perun/channel"
	"perun.network/go-perun/client"
	"perun.network/go-perun/wallet"
	"perun.network/go-perun/wire"

	"verif/sim/kernel"
)

// AppMock is the app kind whose states carry non-empty data (channel.MockApp
// with an 8-byte channel.MockOp). AppNone and AppPayment carry no data.
const AppMock = 2

// AppBlob is the app kind whose states carry an opaque byte string of
// arbitrary length (0..65535) as data: the long byte fields of the native
// codec (perunio.ByteSlice) that addresses, signatures and MockOp data, all
// of fixed small size in the sim backend, never produce.
const AppBlob = 3

// BlobData is the data of the blob app.
type BlobData []byte

// MarshalBinary returns the bytes.
func (d *BlobData) MarshalBinary() ([]byte, error) { return append([]byte{}, *d...), nil }

// UnmarshalBinary copies the bytes.
func (d *BlobData) UnmarshalBinary(b []byte) error { *d = append(BlobData{}, b...); return nil }

// Clone returns a deep copy.
func (d *BlobData) Clone() channel.Data { c := append(BlobData{}, *d...); return &c }

type blobApp struct{ id channel.AppID }

func (a *blobApp) Def() channel.AppID                              { return a.id }
func (a *blobApp) NewData() channel.Data                           { return &BlobData{} }
func (a *blobApp) ValidInit(*channel.Params, *channel.State) error { return nil }
func (a *blobApp) ValidTransition(*channel.Params, *channel.State, *channel.State, channel.Index) error {
	return nil
}

var blobApps []channel.App

// BlobApp returns the k-th blob app.
func BlobApp(k int) channel.App {
	mockMu.Lock()
	defer mockMu.Unlock()
	for len(blobApps) <= k {
		blobApps = append(blobApps, &blobApp{simchannel.AppID{Address: DetAddress("blob-app", len(blobApps))}})
	}
	return blobApps[k]
}

// MsgTypes lists the 17 message types of the wire protocol in type-byte order.
var MsgTypes = []wire.Type{
	wire.Ping, wire.Pong, wire.Shutdown, wire.AuthResponse,
	wire.LedgerChannelProposal, wire.LedgerChannelProposalAcc,
	wire.SubChannelProposal, wire.SubChannelProposalAcc,
	wire.VirtualChannelProposal, wire.VirtualChannelProposalAcc,
	wire.ChannelProposalRej, wire.ChannelUpdate,
	wire.VirtualChannelFundingProposal, wire.VirtualChannelSettlementProposal,
	wire.ChannelUpdateAcc, wire.ChannelUpdateRej, wire.ChannelSync,
}

var (
	mockMu   sync.Mutex
	mockApps []channel.App
	regOnce  sync.Once
)

// MockApp returns the k-th mock app (its states carry MockOp data).
func MockApp(k int) channel.App {
	mockMu.Lock()
	defer mockMu.Unlock()
	for len(mockApps) <= k {
		mockApps = append(mockApps, channel.NewMockApp(simchannel.AppID{Address: DetAddress("mock-app", len(mockApps))}))
	}
	return mockApps[k]
}

// NumApps is the number of payment apps and of mock apps that RegisterApps
// makes resolvable.
const NumApps = 2

// RegisterApps registers PaymentApp(0..NumApps-1) and MockApp(0..NumApps-1)
// with the channel app registry, which decoders consult for every app
// definition they read. No default resolver is installed, so an unknown
// definition is a decode error. Idempotent.
func RegisterApps() {
	regOnce.Do(func() {
		for k := 0; k < NumApps; k++ {
			channel.RegisterApp(PaymentApp(k))
			channel.RegisterApp(MockApp(k))
			channel.RegisterApp(BlobApp(k))
		}
	})
}

// AppOf returns the app for a kind (AppNone, AppPayment, AppMock) and variant.
func AppOf(kind, variant int) channel.App {
	switch kind {
	case AppPayment:
		return PaymentApp(variant % NumApps)
	case AppMock:
		return MockApp(variant % NumApps)
	case AppBlob:
		return BlobApp(variant % NumApps)
	}
	return channel.NoApp()
}

// DataOf draws app data matching the kind.
func DataOf(r *kernel.Rand, kind int) channel.Data {
	if kind == AppMock {
		return channel.NewMockOp(channel.MockOp(r.Uint64()))
	}
	if kind == AppBlob {
		d := BlobData(r.Bytes(r.Weighted([]int{3, 1}) * r.Range(0, 400)))
		return &d
	}
	return channel.NoData()
}

// ValShape is the shape of a generated wire value. It is written into
// scenario steps, so a replay file shows what was generated.
type ValShape struct {
	Parts    int    // participants, 2..5 (more for long messages)
	Assets   int    // assets, 1..8 (more for long messages)
	Locked   int    // sub-allocations, 0..4
	IndexMap bool   // sub-allocations carry index maps
	Big      bool   // balances up to 2^1016 instead of small ones
	App      int    // AppNone, AppPayment, AppMock
	SigMask  uint32 // bit i set: participant i's signature is present
	Flags    int    // bit 0 ledger channel, bit 1 virtual channel, bit 2 non-zero aux, bit 3 final state, bit 4 assets on two ledgers
	Text     int    // length in bytes of reasons / opaque signatures
}

// Ledger, Virtual, Aux and Final decode Flags.
func (s ValShape) Ledger() bool  { return s.Flags&1 != 0 }
func (s ValShape) Virtual() bool { return s.Flags&2 != 0 }
func (s ValShape) Aux() bool     { return s.Flags&4 != 0 }
func (s ValShape) Final() bool   { return s.Flags&8 != 0 }

// TwoLedgers: every second asset lives on the second ledger (cross-ledger
// allocation); only in processes that registered it.
func (s ValShape) TwoLedgers() bool { return s.Flags&16 != 0 && twoLedgers }

// Clamp forces a shape into the range the generators accept, so that a
// shape read from an edited or minimised replay file is always usable.
func (s ValShape) Clamp() ValShape {
	cl := func(v, lo, hi int) int {
		if v < lo {
			return lo
		}
		if v > hi {
			return hi
		}
		return v
	}
	s.Parts = cl(s.Parts, 2, 1024)
	s.Assets = cl(s.Assets, 1, 1024)
	s.Locked = cl(s.Locked, 0, 16)
	s.App = cl(s.App, AppNone, AppBlob)
	s.Flags &= 31
	s.Text = cl(s.Text, 0, 40000)
	return s
}

// RandValShape draws a shape: 2-5 participants, 1-8 assets, 0-4
// sub-allocations with and without index maps, any signature subset, all
// parameter flag combinations, all three app kinds. long biases towards
// encodings longer than a network segment (many assets / participants, long
// texts), still far inside the documented limits and the protobuf frame limit.
func RandValShape(r *kernel.Rand, long bool) ValShape {
	s := ValShape{
		Parts:  2 + r.Weighted([]int{6, 3, 2, 1}),
		Assets: 1 + r.Weighted([]int{8, 4, 2, 2, 1, 1, 1, 1}),
		Big:    r.Bool(0.25),
		App:    r.Weighted([]int{4, 3, 3, 2}),
		Flags:  r.Intn(16),
		Text:   r.Weighted([]int{1, 6, 3, 1}) * r.Range(0, 40),
	}
	if r.Bool(0.45) {
		s.Locked = r.Range(1, 4)
		s.IndexMap = r.Bool(0.5)
	}
	s.SigMask = uint32(r.Uint64())
	switch r.Intn(5) {
	case 0:
		s.SigMask = 0xffffffff // fully signed
	case 1:
		s.SigMask = 0
	}
	if r.Bool(0.25) {
		s.Flags |= 16
	}
	if long {
		switch r.Intn(4) {
		case 0:
			s.Assets, s.Parts, s.Big = r.Range(8, 32), r.Range(3, 12), true
		case 1:
			s.Text = r.Range(1500, 30000)
		case 2:
			s.Assets, s.Locked, s.IndexMap, s.Big = r.Range(4, 16), r.Range(2, 8), true, true
			s.Text = r.Range(200, 3000)
		default:
			s.Parts, s.Text = r.Range(5, 24), r.Range(0, 2000)
		}
	}
	return s
}

// ShapeArgs returns the shape as step arguments (see ShapeFromStep).
func (s ValShape) ShapeArgs() []any {
	return []any{"parts", s.Parts, "assets", s.Assets, "locked", s.Locked, "im", s.IndexMap, "big", s.Big,
		"app", s.App, "sigs", int64(s.SigMask), "flags", s.Flags, "text", s.Text}
}

// ShapeFromStep reads a shape written with ShapeArgs (absent keys give the
// smallest shape).
func ShapeFromStep(st *kernel.Step) ValShape {
	return ValShape{Parts: int(st.Int("parts")), Assets: int(st.Int("assets")), Locked: int(st.Int("locked")),
		IndexMap: st.Int("im") != 0, Big: st.Int("big") != 0, App: int(st.Int("app")), SigMask: uint32(st.Int("sigs")),
		Flags: int(st.Int("flags")), Text: int(st.Int("text"))}.Clamp()
}

// ---- addresses ---------------------------------------------------------------

// WireAddr returns a deterministic sim wire address map (single backend).
func WireAddr(k uint64) map[wallet.BackendID]wire.Address {
	a := simwire.NewAddress()
	copy(a[:], kernel.NewRand(kernel.Derive(0x313e, k)).Bytes(len(a)))
	return map[wallet.BackendID]wire.Address{channel.TestBackendID: a}
}

// WireAddrs returns n wire address maps; about one in ten maps is empty when
// sparse is set (an empty map is serialisable: length 0).
func WireAddrs(r *kernel.Rand, n int, sparse bool) []map[wallet.BackendID]wire.Address {
	out := make([]map[wallet.BackendID]wire.Address, n)
	for i := range out {
		if sparse && r.Bool(0.1) {
			out[i] = map[wallet.BackendID]wire.Address{}
			continue
		}
		out[i] = WireAddr(r.Uint64() % 64)
		// a client that is reachable under several backends has one wire
		// address per backend id
		if r.Bool(0.25) {
			for b, n := 1, r.Range(1, 3); b <= n; b++ {
				out[i][wallet.BackendID(b)] = WireAddr(r.Uint64() % 64)[channel.TestBackendID]
			}
			// the backend ids of a client need not be 0..n-1: some maps lack id 0
			// or have gaps
			switch r.Intn(5) {
			case 0:
				delete(out[i], channel.TestBackendID)
			case 1:
				if a, ok := out[i][1]; ok {
					delete(out[i], 1)
					out[i][wallet.BackendID(r.Range(4, 9))] = a
				}
			}
		}
	}
	return out
}

// WalletAddrs returns the address maps of the first n pool accounts, in a
// seeded order.
func WalletAddrs(r *kernel.Rand, n int) ([]map[wallet.BackendID]wallet.Address, []*Acc) {
	pool := Pool(64)
	accs := make([]*Acc, n)
	out := make([]map[wallet.BackendID]wallet.Address, n)
	off := r.Intn(len(pool))
	for i := range out {
		accs[i] = pool[(off+i)%len(pool)]
		out[i] = accs[i].Addr
	}
	return out, accs
}

// ---- channel values ------------------------------------------------------------

func (s ValShape) alloc() Shape {
	return Shape{Parts: s.Parts, Assets: s.Assets, Locked: s.Locked, IndexMap: s.IndexMap, Big: false, Zeros: true}
}

// RandAllocation draws a valid allocation of the shape. With Big, balances use
// up to perunio.MaxBigIntLength-1 bytes.
func RandAllocation(r *kernel.Rand, s ValShape) channel.Allocation {
	a := Allocation(r, s.alloc())
	if s.TwoLedgers() {
		for i := 1; i < len(a.Assets); i += 2 {
			a.Assets[i], a.Backends[i] = NewAssetB(i), LedgerB
		}
	}
	if s.Big {
		big := func() *big.Int {
			n := r.Range(1, 128)
			if r.Bool(0.15) {
				n = 128 // exactly the documented limit
			}
			b := r.Bytes(n)
			if n == 128 && b[0] == 0 {
				b[0] = 0x80
			}
			return new(big.Int).SetBytes(b)
		}
		for i := range a.Balances {
			for j := range a.Balances[i] {
				if r.Bool(0.6) {
					a.Balances[i][j] = big()
				}
			}
		}
		for l := range a.Locked {
			for i := range a.Locked[l].Bals {
				if r.Bool(0.6) {
					a.Locked[l].Bals[i] = big()
				}
			}
		}
	}
	// index maps of arbitrary length and content are serialisable, not only
	// permutations of the parent's participants
	for l := range a.Locked {
		if s.IndexMap && r.Bool(0.3) {
			im := make([]channel.Index, r.Range(1, 6))
			for i := range im {
				im[i] = channel.Index(r.Intn(1 << 16))
			}
			a.Locked[l].IndexMap = im
		}
	}
	return a
}

// RandBalances draws a balance matrix of the shape's dimensions.
func RandBalances(r *kernel.Rand, s ValShape) channel.Balances {
	s.Locked = 0
	return RandAllocation(r, s).Balances
}

// RandSubAlloc draws one sub-allocation (one balance per asset).
func RandSubAlloc(r *kernel.Rand, s ValShape) channel.SubAlloc {
	if s.Locked < 1 {
		s.Locked = 1
	}
	return RandAllocation(r, s).Locked[0]
}

// RandParams draws valid channel parameters for Parts pool accounts and
// returns the accounts (for signing).
func RandParams(r *kernel.Rand, s ValShape) (*channel.Params, []*Acc) {
	parts, accs := WalletAddrs(r, s.Parts)
	var aux channel.Aux
	if s.Aux() {
		copy(aux[:], r.Bytes(len(aux)))
	}
	nonce := new(big.Int).SetBytes(r.Bytes(r.Range(0, channel.MaxNonceLen)))
	cd := r.Uint64()>>uint(r.Intn(64)) | 1
	p, err := channel.NewParams(cd, parts, AppOf(s.App, r.Intn(NumApps)), nonce, s.Ledger(), s.Virtual(), aux)
	if err != nil {
		panic(fmt.Sprintf("gen.RandParams: %v", err))
	}
	return p, accs
}

// RandStateFor draws a state of the shape belonging to params.
func RandStateFor(r *kernel.Rand, p *channel.Params, s ValShape) *channel.State {
	st := &channel.State{
		ID:         p.ID(),
		Version:    r.Uint64() >> uint(r.Intn(64)),
		App:        p.App,
		Allocation: RandAllocation(r, s),
		IsFinal:    s.Final(),
	}
	switch {
	case channel.IsNoApp(p.App):
		st.Data = channel.NoData()
	case s.App == AppMock:
		st.Data = DataOf(r, AppMock)
	case s.App == AppBlob:
		// the data length follows the shape's text length (long for long messages)
		n := s.Text
		if n > 20000 {
			// a message can carry two or three states; the protobuf frame holds
			// at most 65535 bytes
			n = 20000
		}
		d := BlobData(r.Bytes(n))
		st.Data = &d
	default:
		st.Data = p.App.NewData()
	}
	return st
}

// RandState draws parameters and a state for them.
func RandState(r *kernel.Rand, s ValShape) (*channel.Params, *channel.State, []*Acc) {
	p, accs := RandParams(r, s)
	return p, RandStateFor(r, p, s), accs
}

// SignState returns one slot per participant: a real signature of accs[i] on
// st where bit i of mask is set, nil elsewhere.
func SignState(accs []*Acc, st *channel.State, mask uint32) []wallet.Sig {
	sigs := make([]wallet.Sig, len(accs))
	for i, a := range accs {
		if i < 32 && mask&(1<<uint(i)) == 0 {
			continue
		}
		sig, err := channel.Sign(a.Acc, st, channel.TestBackendID)
		if err != nil {
			panic(fmt.Sprintf("gen.SignState: %v", err))
		}
		sigs[i] = sig
	}
	return sigs
}

// Signed is what the harness knows about signatures carried by a value: the
// signature Sig must verify for Signer on State (after any transport).
type Signed struct {
	Signer map[wallet.BackendID]wallet.Address
	State  func(v any) *channel.State // selects the state inside the (decoded) value
	Sig    func(v any) wallet.Sig     // selects the signature inside the (decoded) value
	What   string
}

// Meta carries the harness's knowledge about a generated value.
type Meta struct {
	Signed []Signed
	// ParamsID is the channel ID of the parameters inside the value (zero if
	// the value has none); Params selects them in a decoded value.
	ParamsID channel.ID
	Params   func(v any) *channel.Params
	// StateID is the ID field of the main state inside the value.
	StateID channel.ID
	State   func(v any) *channel.State
}

// RandTransaction draws a transaction: state plus any subset of signatures.
func RandTransaction(r *kernel.Rand, s ValShape) (channel.Transaction, *channel.Params, []*Acc) {
	p, st, accs := RandState(r, s)
	return channel.Transaction{State: st, Sigs: SignState(accs, st, s.SigMask)}, p, accs
}

// Text draws a valid UTF-8 string of exactly n bytes (ASCII with some
// multi-byte runes; protobuf string fields must be valid UTF-8).
func Text(r *kernel.Rand, n int) string {
	b := make([]byte, 0, n)
	for len(b) < n {
		switch {
		case n-len(b) >= 3 && r.Bool(0.05):
			b = append(b, "€"...)
		case n-len(b) >= 2 && r.Bool(0.05):
			b = append(b, "é"...)
		default:
			b = append(b, byte(32+r.Intn(95)))
		}
	}
	return string(b)
}

func id32(r *kernel.Rand) (id [32]byte) {
	copy(id[:], r.Bytes(32))
	return
}

func indexMap(r *kernel.Rand, n int) []channel.Index {
	im := make([]channel.Index, n)
	for i, p := range r.Perm(n) {
		im[i] = channel.Index(p)
	}
	return im
}

func baseProposal(r *kernel.Rand, s ValShape) client.BaseChannelProposal {
	if r.Bool(0.9) {
		s.Locked = 0 // proposals with locked funds are serialisable but refused by Valid
	}
	alloc := RandAllocation(r, s)
	var aux channel.Aux
	if s.Aux() {
		copy(aux[:], r.Bytes(len(aux)))
	}
	app := AppOf(s.App, r.Intn(NumApps))
	return client.BaseChannelProposal{
		ProposalID:        id32(r),
		ChallengeDuration: r.Uint64() >> uint(r.Intn(64)),
		NonceShare:        id32(r),
		App:               app,
		InitData:          DataOf(r, s.App),
		InitBals:          &alloc,
		FundingAgreement:  RandBalances(r, s),
		Aux:               aux,
	}
}

func updateMsg(r *kernel.Rand, s ValShape) (*client.ChannelUpdateMsg, Signed) {
	_, st, accs := RandState(r, s)
	actor := r.Intn(len(accs))
	sig, err := channel.Sign(accs[actor].Acc, st, channel.TestBackendID)
	if err != nil {
		panic(err)
	}
	m := &client.ChannelUpdateMsg{ChannelUpdate: client.ChannelUpdate{State: st, ActorIdx: channel.Index(actor)}, Sig: sig}
	return m, Signed{Signer: accs[actor].Addr, What: "ChannelUpdate.Sig"}
}

func signedState(r *kernel.Rand, s ValShape) (channel.SignedState, []*Acc) {
	p, st, accs := RandState(r, s)
	return channel.SignedState{Params: p, State: st, Sigs: SignState(accs, st, s.SigMask)}, accs
}

func sigSlots(accs []*Acc, sigs []wallet.Sig, state func(any) *channel.State, slot func(any) []wallet.Sig, what string) []Signed {
	var out []Signed
	for i := range sigs {
		if sigs[i] == nil {
			continue
		}
		i := i
		out = append(out, Signed{Signer: accs[i].Addr, State: state, What: fmt.Sprintf("%s[%d]", what, i),
			Sig: func(v any) wallet.Sig {
				if s := slot(v); i < len(s) {
					return s[i]
				}
				return nil
			}})
	}
	return out
}

// RandMsg draws a message of type t with the given shape, together with what
// the harness knows about the signatures and IDs inside it.
func RandMsg(r *kernel.Rand, t wire.Type, s ValShape) (wire.Msg, Meta) {
	s = s.Clamp()
	var meta Meta
	switch t {
	case wire.Ping:
		return &wire.PingMsg{PingPongMsg: wire.PingPongMsg{Created: time.Unix(0, int64(r.Uint64()>>uint(1+r.Intn(40))))}}, meta
	case wire.Pong:
		return &wire.PongMsg{PingPongMsg: wire.PingPongMsg{Created: time.Unix(0, -int64(r.Uint64()>>uint(1+r.Intn(40))))}}, meta
	case wire.Shutdown:
		return &wire.ShutdownMsg{Reason: Text(r, s.Text)}, meta
	case wire.AuthResponse:
		return &wire.AuthResponseMsg{Signature: r.Bytes(s.Text)}, meta
	case wire.LedgerChannelProposal:
		base := baseProposal(r, s)
		parts, _ := WalletAddrs(r, 1)
		return &client.LedgerChannelProposalMsg{BaseChannelProposal: base, Participant: parts[0],
			Peers: WireAddrs(r, s.Parts, true)}, meta
	case wire.LedgerChannelProposalAcc:
		parts, _ := WalletAddrs(r, 1)
		return &client.LedgerChannelProposalAccMsg{
			BaseChannelProposalAcc: client.BaseChannelProposalAcc{ProposalID: id32(r), NonceShare: id32(r)},
			Participant:            parts[0]}, meta
	case wire.SubChannelProposal:
		return &client.SubChannelProposalMsg{BaseChannelProposal: baseProposal(r, s), Parent: id32(r)}, meta
	case wire.SubChannelProposalAcc:
		return &client.SubChannelProposalAccMsg{
			BaseChannelProposalAcc: client.BaseChannelProposalAcc{ProposalID: id32(r), NonceShare: id32(r)}}, meta
	case wire.VirtualChannelProposal:
		base := baseProposal(r, s)
		parts, _ := WalletAddrs(r, 1)
		m := &client.VirtualChannelProposalMsg{BaseChannelProposal: base, Proposer: parts[0], Peers: WireAddrs(r, s.Parts, true)}
		for i := r.Range(0, s.Parts); i > 0; i-- {
			m.Parents = append(m.Parents, id32(r))
		}
		for i := r.Range(0, s.Parts); i > 0; i-- {
			m.IndexMaps = append(m.IndexMaps, indexMap(r, r.Range(0, s.Parts)))
		}
		return m, meta
	case wire.VirtualChannelProposalAcc:
		parts, _ := WalletAddrs(r, 1)
		return &client.VirtualChannelProposalAccMsg{
			BaseChannelProposalAcc: client.BaseChannelProposalAcc{ProposalID: id32(r), NonceShare: id32(r)},
			Responder:              parts[0]}, meta
	case wire.ChannelProposalRej:
		return &client.ChannelProposalRejMsg{ProposalID: id32(r), Reason: Text(r, s.Text)}, meta
	case wire.ChannelUpdate:
		m, sg := updateMsg(r, s)
		sg.State = func(v any) *channel.State { return v.(*client.ChannelUpdateMsg).State }
		sg.Sig = func(v any) wallet.Sig { return v.(*client.ChannelUpdateMsg).Sig }
		meta.Signed = []Signed{sg}
		meta.StateID, meta.State = m.State.ID, sg.State
		return m, meta
	case wire.VirtualChannelFundingProposal:
		up, sg := updateMsg(r, s)
		ss, accs := signedState(r, s)
		m := &client.VirtualChannelFundingProposalMsg{ChannelUpdateMsg: *up, Initial: ss, IndexMap: indexMap(r, r.Range(0, s.Parts))}
		sg.State = func(v any) *channel.State { return v.(*client.VirtualChannelFundingProposalMsg).State }
		sg.Sig = func(v any) wallet.Sig { return v.(*client.VirtualChannelFundingProposalMsg).Sig }
		ini := func(v any) *channel.State { return v.(*client.VirtualChannelFundingProposalMsg).Initial.State }
		meta.Signed = append([]Signed{sg}, sigSlots(accs, ss.Sigs, ini,
			func(v any) []wallet.Sig { return v.(*client.VirtualChannelFundingProposalMsg).Initial.Sigs }, "Initial.Sigs")...)
		meta.ParamsID = ss.Params.ID()
		meta.Params = func(v any) *channel.Params { return v.(*client.VirtualChannelFundingProposalMsg).Initial.Params }
		meta.StateID, meta.State = ss.State.ID, ini
		return m, meta
	case wire.VirtualChannelSettlementProposal:
		up, sg := updateMsg(r, s)
		ss, accs := signedState(r, s)
		m := &client.VirtualChannelSettlementProposalMsg{ChannelUpdateMsg: *up, Final: ss}
		sg.State = func(v any) *channel.State { return v.(*client.VirtualChannelSettlementProposalMsg).State }
		sg.Sig = func(v any) wallet.Sig { return v.(*client.VirtualChannelSettlementProposalMsg).Sig }
		fin := func(v any) *channel.State { return v.(*client.VirtualChannelSettlementProposalMsg).Final.State }
		meta.Signed = append([]Signed{sg}, sigSlots(accs, ss.Sigs, fin,
			func(v any) []wallet.Sig { return v.(*client.VirtualChannelSettlementProposalMsg).Final.Sigs }, "Final.Sigs")...)
		meta.ParamsID = ss.Params.ID()
		meta.Params = func(v any) *channel.Params { return v.(*client.VirtualChannelSettlementProposalMsg).Final.Params }
		meta.StateID, meta.State = ss.State.ID, fin
		return m, meta
	case wire.ChannelUpdateAcc:
		_, st, accs := RandState(r, ValShape{Parts: 2, Assets: 1})
		sig, err := channel.Sign(accs[0].Acc, st, channel.TestBackendID)
		if err != nil {
			panic(err)
		}
		return &client.ChannelUpdateAccMsg{ChannelID: st.ID, Version: st.Version, Sig: sig}, meta
	case wire.ChannelUpdateRej:
		return &client.ChannelUpdateRejMsg{ChannelID: id32(r), Version: r.Uint64() >> uint(r.Intn(64)), Reason: Text(r, s.Text)}, meta
	case wire.ChannelSync:
		tx, _, accs := RandTransaction(r, s)
		m := &client.ChannelSyncMsg{Phase: channel.Phase(r.Intn(channel.LastPhase + 1)), CurrentTX: tx}
		cur := func(v any) *channel.State { return v.(*client.ChannelSyncMsg).CurrentTX.State }
		meta.Signed = sigSlots(accs, tx.Sigs, cur, func(v any) []wallet.Sig { return v.(*client.ChannelSyncMsg).CurrentTX.Sigs }, "CurrentTX.Sigs")
		meta.StateID, meta.State = tx.State.ID, cur
		return m, meta
	}
	panic(fmt.Sprintf("gen.RandMsg: unknown type %d", t))
}

// RandEnvelope draws an envelope around a message of type t. About one
// envelope in twenty has an empty sender or recipient map.
func RandEnvelope(r *kernel.Rand, t wire.Type, s ValShape) (*wire.Envelope, Meta) {
	m, meta := RandMsg(r, t, s)
	env := &wire.Envelope{Sender: WireAddr(r.Uint64() % 64), Recipient: WireAddr(r.Uint64() % 64), Msg: m}
	if r.Bool(0.05) {
		env.Sender = map[wallet.BackendID]wire.Address{}
	}
	if r.Bool(0.05) {
		env.Recipient = map[wallet.BackendID]wire.Address{}
	}
	if rr := kernel.NewRand(kernel.Derive(r.Uint64(), "envelope-backend-ids")); rr.Bool(0.3) {
		// peers reachable under other or several backend ids; the addresses come
		// from a handful, so that over the envelopes of a process the same
		// address occurs under different ids and in different company
		for _, m := range []*map[wallet.BackendID]wire.Address{&env.Sender, &env.Recipient} {
			if !rr.Bool(0.7) {
				continue
			}
			out := map[wallet.BackendID]wire.Address{}
			for k, n, id := 0, rr.Range(1, 3), rr.Intn(3); k < n; k++ {
				out[wallet.BackendID(id)] = WireAddr(rr.Uint64() % 4)[channel.TestBackendID]
				id += rr.Range(1, 3)
			}
			*m = out
		}
	}
	// metadata selectors address the message; lift them to the envelope
	lift := func(f func(any) *channel.State) func(any) *channel.State {
		if f == nil {
			return nil
		}
		return func(v any) *channel.State { return f(v.(*wire.Envelope).Msg) }
	}
	for i := range meta.Signed {
		sg := meta.Signed[i].Sig
		meta.Signed[i].State = lift(meta.Signed[i].State)
		meta.Signed[i].Sig = func(v any) wallet.Sig { return sg(v.(*wire.Envelope).Msg) }
	}
	meta.State = lift(meta.State)
	if p := meta.Params; p != nil {
		meta.Params = func(v any) *channel.Params { return p(v.(*wire.Envelope).Msg) }
	}
	return env, meta
}
