package gen

import (
	"bytes"
	"math/big"

	"perun.network/go-perun/channel"
)

// The reference predicates below are written from the statement of property
// C02, not from machine.ValidTransition. They never call Valid, Sum, Equal or
// AssertAssetsEqual of the code under test.

func sameApp(a, b channel.App) bool {
	an, bn := channel.IsNoApp(a), channel.IsNoApp(b)
	if an || bn {
		return an && bn
	}
	ab, err1 := a.Def().MarshalBinary()
	bb, err2 := b.Def().MarshalBinary()
	return err1 == nil && err2 == nil && bytes.Equal(ab, bb)
}

func sameAssets(a, b []channel.Asset) bool {
	if len(a) != len(b) {
		return false
	}
	for i := range a {
		x, err1 := a[i].MarshalBinary()
		y, err2 := b[i].MarshalBinary()
		if err1 != nil || err2 != nil || !bytes.Equal(x, y) {
			return false
		}
	}
	return true
}

// WellFormed: at least one asset, one balance row per asset, all rows of the
// same non-zero length, no negative balance; every sub-allocation has one
// non-negative balance per asset.
func WellFormed(a *channel.Allocation) bool {
	if len(a.Assets) == 0 || len(a.Balances) != len(a.Assets) {
		return false
	}
	n := len(a.Balances[0])
	if n == 0 {
		return false
	}
	for _, row := range a.Balances {
		if len(row) != n {
			return false
		}
		for _, b := range row {
			if b == nil || b.Sign() < 0 {
				return false
			}
		}
	}
	for _, l := range a.Locked {
		if len(l.Bals) != len(a.Assets) {
			return false
		}
		for _, b := range l.Bals {
			if b == nil || b.Sign() < 0 {
				return false
			}
		}
	}
	return true
}

// Totals returns per asset the sum of balances plus locked funds of a
// well-formed allocation.
func Totals(a *channel.Allocation) []*big.Int {
	t := make([]*big.Int, len(a.Balances))
	for i, row := range a.Balances {
		t[i] = new(big.Int)
		for _, b := range row {
			t[i].Add(t[i], b)
		}
		for _, l := range a.Locked {
			t[i].Add(t[i], l.Bals[i])
		}
	}
	return t
}

// RefValidSuccessor says whether cand is an acceptable successor of cur.
// reason names the first violated clause.
func RefValidSuccessor(id channel.ID, app channel.App, n int, cur, cand *channel.State, actor channel.Index) (ok bool, reason string) {
	if cand.ID != id {
		return false, "id"
	}
	if !sameApp(app, cand.App) {
		return false, "app"
	}
	if cur.IsFinal {
		return false, "after-final"
	}
	if cand.Version != cur.Version+1 {
		return false, "version"
	}
	if !WellFormed(&cand.Allocation) {
		return false, "malformed"
	}
	// "Balances ... inner dimension must match the size of the Params.parts
	// slice" (doc comment of channel.Allocation): a well-formed allocation of
	// this channel has one balance per participant.
	if len(cand.Balances[0]) != n {
		return false, "parts"
	}
	if !sameAssets(cur.Assets, cand.Assets) {
		return false, "assets"
	}
	ct, nt := Totals(&cur.Allocation), Totals(&cand.Allocation)
	for i := range ct {
		if ct[i].Cmp(nt[i]) != 0 {
			return false, "sum"
		}
	}
	if int(actor) >= n {
		return false, "actor"
	}
	if !channel.IsNoApp(app) {
		// payment app rule: money flows only away from the actor
		for i, row := range cur.Balances {
			for j, b := range row {
				if j >= len(cand.Balances[i]) {
					continue
				}
				c := cand.Balances[i][j].Cmp(b)
				if j == int(actor) && c > 0 {
					return false, "payment-actor-gains"
				}
				if j != int(actor) && c < 0 {
					return false, "payment-nonactor-loses"
				}
			}
		}
	}
	return true, ""
}

// RefValidInit says whether (alloc, noData) is an acceptable initial allocation
// for n participants.
func RefValidInit(n int, alloc *channel.Allocation, noData bool) (bool, string) {
	if !WellFormed(alloc) {
		return false, "malformed"
	}
	for _, row := range alloc.Balances {
		if len(row) != n {
			return false, "parts"
		}
	}
	if !noData {
		return false, "data"
	}
	return true, ""
}
