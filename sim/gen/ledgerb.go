package gen

import (
	"bytes"
	"errors"
	"fmt"
	"sync"

	"perun.network/go-perun/channel"
	"perun.network/go-perun/wallet"

	simchannel "perun.network/go-perun/backend/sim/channel"
	simwallet "perun.network/go-perun/backend/sim/wallet"
)

// A second ledger: a channel backend registered under backend id 1 next to
// the sim backend (id 0), so that the assets of one allocation can live on
// two ledgers (cross-ledger channels). Only asset handling is needed by the
// codecs; the second ledger neither signs nor verifies.

// LedgerB is the backend id of the second ledger.
const LedgerB wallet.BackendID = 1

// AssetB is an asset of the second ledger: a 20-byte contract address, i.e. a
// different encoding length than the sim asset's 8 bytes.
type AssetB struct{ Addr [20]byte }

func (a AssetB) MarshalBinary() ([]byte, error) { return append([]byte{}, a.Addr[:]...), nil }

func (a *AssetB) UnmarshalBinary(b []byte) error {
	if len(b) != len(a.Addr) {
		return fmt.Errorf("ledger B asset: unexpected length %d, want %d", len(b), len(a.Addr))
	}
	copy(a.Addr[:], b)
	return nil
}

func (a AssetB) Equal(b channel.Asset) bool {
	o, ok := b.(*AssetB)
	return ok && bytes.Equal(a.Addr[:], o.Addr[:])
}

func (a AssetB) Address() []byte { return append([]byte{}, a.Addr[:]...) }

// NewAssetB returns the second ledger's asset with the given small id.
func NewAssetB(id int) channel.Asset {
	a := &AssetB{}
	for i := range a.Addr {
		a.Addr[i] = byte(uint64(0xb0+i) * uint64(id+3))
	}
	return a
}

type ledgerB struct{}

var errLedgerB = errors.New("ledger B does not sign")

func (ledgerB) CalcID(*channel.Params) (channel.ID, error)              { return channel.ID{}, errLedgerB }
func (ledgerB) Sign(wallet.Account, *channel.State) (wallet.Sig, error) { return nil, errLedgerB }
func (ledgerB) Verify(wallet.Address, *channel.State, wallet.Sig) (bool, error) {
	return false, errLedgerB
}
func (ledgerB) NewAsset() channel.Asset { return &AssetB{} }

// NewAppID is the sim backend's: app identifiers do not depend on the ledger.
func (ledgerB) NewAppID() (channel.AppID, error) {
	return simchannel.AppID{Address: &simwallet.Address{}}, nil
}

var (
	ledgerBOnce sync.Once
	twoLedgers  bool
)

// RegisterSecondLedger registers the second ledger with the channel backend
// registry. Only processes that called it generate allocations with assets on
// both ledgers (ValShape flag bit 4). Idempotent.
func RegisterSecondLedger() {
	ledgerBOnce.Do(func() {
		channel.SetBackend(ledgerB{}, int(LedgerB))
		twoLedgers = true
	})
}
