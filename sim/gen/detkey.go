package gen

import (
	"crypto/ecdsa"
	"math/big"
	"unsafe"

	simwallet "perun.network/go-perun/backend/sim/wallet"

	"verif/sim/kernel"
)

// Go's ECDSA key generation cannot be seeded (it deliberately perturbs the
// reader it is given), so the sim wallet's accounts and addresses would differ
// from process to process - and with them every channel ID, the order of the
// store's keys and every order derived from IDs. The key material is therefore
// derived here: the private scalar comes from the PRNG, the public point from
// the curve, and the value is put into the sim wallet's types.

// detKey returns the key pair for a derivation path.
func detKey(parts ...any) *ecdsa.PrivateKey {
	curve := (*ecdsa.PublicKey)(simwallet.NewRandomAddress(kernel.NewRand(1))).Curve
	n := curve.Params().N
	raw := kernel.NewRand(kernel.Derive(0xdec0de, parts...)).Bytes(40)
	d := new(big.Int).SetBytes(raw)
	d.Mod(d, new(big.Int).Sub(n, big.NewInt(1)))
	d.Add(d, big.NewInt(1))
	k := &ecdsa.PrivateKey{D: d}
	k.PublicKey.Curve = curve
	k.PublicKey.X, k.PublicKey.Y = curve.ScalarBaseMult(d.Bytes()) //nolint:staticcheck // the sim wallet works on big.Int points
	return k
}

// DetAddress returns the sim wallet address for a derivation path.
func DetAddress(parts ...any) *simwallet.Address {
	a := simwallet.Address(detKey(parts...).PublicKey)
	return &a
}

// DetAccount returns the sim wallet account for a derivation path. The
// account type keeps its key in an unexported first field; an account made by
// the wallet's own constructor gets the derived key put in its place.
func DetAccount(parts ...any) *simwallet.Account {
	acc := simwallet.NewRandomAccount(kernel.NewRand(1))
	*(**ecdsa.PrivateKey)(unsafe.Pointer(acc)) = detKey(parts...)
	return acc
}
