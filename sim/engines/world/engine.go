package worldeng

import (
	"testing"

	"verif/sim/kernel"
	"verif/sim/world"
)

// Engine implements kernel.Engine for the world-kernel properties.
type Engine struct{}

func (Engine) Name() string { return "world" }

// yield sites placed in /repo (MANIFEST.hooks); the per-run buggify mask
// enables a random subset. "relay.Put" is not used here: a client's relays are
// nested (client relay -> channel relay -> receiver), so the inner Put runs
// under the outer relay's read lock, where parking is forbidden (R3).
var yieldSites = []string{
	"client.handleUpdateReq.beforeLock", "client.enableNotifyUpdate.beforePublish", "client.handleChannelProposal.beforeValidate",
	"client.handleSyncMsg.beforeLock", "client.ensureRegistered.beforeRegisterDispute", "relay.Subscribe", "relay.Cache", "relay.ReleaseCache", "relay.delete", "relay.cachedDelivery",
	"receiver.Next", "watcher.handleRegisteredEvent.locked", "watcher.handleRegisteredEvent.retrieved", "watcher.StopWatching.retrieved",
}

func installYields(s *world.Sim) {
	s.EnableYields(yieldSites, float64(s.Sc.Cfg("yield_pct", 0))/100)
	world.InstallYields(s)
}

func removeYields() { world.RemoveYields() }

func (Engine) Plan(prop, tier string) kernel.Plan {
	runs := map[string]int{
		"C06/quick": 2000, "C06/thorough": 300000,
		"C03/quick": 1500, "C03/thorough": 200000,
		"C04/quick": 1500, "C04/thorough": 200000,
		"C08/quick": 2000, "C08/thorough": 200000,
		"C07/quick": 2000, "C07/thorough": 200000,
		"C12/quick": 5000, "C12/thorough": 400000,
	}[prop+"/"+tier]
	return kernel.Plan{Runs: runs, Pin: true, CrashProne: true}
}

func (e Engine) Generate(prop, tier string, run int, seed uint64) *kernel.Scenario {
	sc := e.generate(prop, tier, run, seed)
	if sr := kernel.NewRand(kernel.Derive(seed, "slow-spot")); sc != nil && sc.Config["slow_site"] == 0 && sr.Bool(0.1) {
		// one hand-placed yield point of the run is a slow spot: whoever passes
		// it loses 0.2-3 ms every time
		sc.Config["slow_site"] = int64(sr.Range(1, len(world.SlowSites)))
	}
	return sc
}

func (Engine) generate(prop, tier string, run int, seed uint64) *kernel.Scenario {
	r := kernel.NewRand(seed)
	switch prop {
	case "C06":
		return genC06(r, tier)
	case "C03", "C04":
		sc := genSettleScenario(r, prop)
		if ir := kernel.NewRand(kernel.Derive(seed, "impatient-settlement")); prop == "C03" && ir.Bool(0.08) {
			// impatient users and a short challenge period: every Settle attempt
			// gets 300 ms, so that attempts end while waiting for the challenge
			// period or inside Withdraw and later attempts meet a channel that is
			// registered (or concluded) already; every lock boundary yields
			c := sc.Config
			c["short_settle_ctx"], c["yield_pct"], c["long_yields"] = 1, 100, int64(ir.Intn(2))
			// (mostly with a slow spot right before the registration)
			c["slow_site"] = int64(ir.Weighted([]int{1, 3}))
			c["event_max_us"] = int64([]int{200, 3000}[ir.Intn(2)])
			c["ledger_max_us"] = int64([]int{200, 2000}[ir.Intn(2)])
			for i := range sc.Steps {
				if sc.Steps[i].Op == "open" {
					sc.Steps[i].A["challenge"] = 1
				}
			}
		}
		return sc
	case "C08":
		if r.Bool(0.2) {
			return genC08V(r)
		}
		return genC08(r)
	case "C12":
		if r.Bool(0.12) {
			return genC12Pair(r)
		}
		return genC12(r)
	case "C07":
		if r.Bool(0.35) {
			return genC07V(r)
		}
		return genC07(r)
	}
	return nil
}

func (Engine) Execute(t *testing.T, sc *kernel.Scenario, trace bool) *kernel.Result {
	switch sc.Property {
	case "C06":
		return execC06(t, sc, trace)
	case "C03", "C04":
		return execSettle(t, sc, trace)
	case "C08":
		if sc.Cfg("trio", 0) == 1 {
			return execC08V(t, sc, trace)
		}
		return execC08(t, sc, trace)
	case "C12":
		if sc.Cfg("pairfault", 0) == 1 {
			return execC12Pair(t, sc, trace)
		}
		return execC12(t, sc, trace)
	case "C07":
		if sc.Cfg("trio", 0) == 1 {
			return execC07V(t, sc, trace)
		}
		return execC07(t, sc, trace)
	}
	return &kernel.Result{}
}

var commonReal = []string{"client.Client (proposal, update, sync, dispute, sub-channel protocols)", "channel.StateMachine + persistence.StateMachine",
	"watcher/local.Watcher", "wire.Relay/Receiver/Cache (per-client and per-channel connections)", "wire/perunio serializer (every envelope is encoded and decoded on the bus)",
	"backend/sim channel+wallet+wire (real ECDSA signatures)", "polycry.pt/poly-go sync primitives"}
var commonStub = []string{"wire.Bus -> world.Bus (keyed delays, FIFO or unordered, sync or async publish, loss/duplication in relaxed configurations; in a part of the C06 runs the deliveries themselves are made by the library's real wire.LocalBus behind these seams; failing sends fail at once or stall until the sender's context ends)",
	"channel.Funder/Adjudicator/RegisterSubscriber -> world.Ledger (strict reference ledger on the simulated clock)",
	"time -> testing/synctest fake clock", "user handlers -> policy callbacks with keyed reaction times", "persistence.PersistRestorer -> recording wrapper around NonPersistRestorer"}

func (Engine) Describe(prop string) kernel.Describe {
	d := kernel.Describe{Real: commonReal, Stub: commonStub}
	switch prop {
	case "C06":
		d.Rule = "two real clients with 1-3 ledger channels; programs of up to 15 Channel.Update calls from either side (sequential, back-to-back, concurrent on the same and on different channels), keyed accept/reject decisions and reaction times, one synctest bubble per run with keyed delays at bus, ledger, handlers and yield hooks. Strict runs (no timed-out request): success => both Enabled streams hold the proposed state fully signed; rejection => never enabled; no fork; versions differ by at most one at every Enabled event; accept => enabled; both Acting and a probe update succeeds. Token configuration: no request may time out. Relaxed runs (loss, duplication, short contexts): only the fully-signed invariant. Non-trivial: at least one successful update and (a rejection or overlapping updates); distinct = scenario digest x interleaving hash. Later additions: channel synchronisation messages injected during the program (replies taken by the driver), restart runs (one client crashes, only its store survives, is restored; the survivor may update meanwhile) in which successful updates on current instances are judged, handlers answering with nearly expired contexts; the success clause is judged in relaxed runs on non-duplicating networks too; runs whose deliveries go through the real wire.LocalBus (strict, and relaxed with nearly expired answer contexts)."
		d.FaultKinds = []string{"delay/reorder", "loss", "duplication", "short context timeouts", "slow handlers", "yield hooks (buggify subset)"}
		d.Assumptions = []string{"the bus delivers exactly once in strict configurations (go-perun's stated assumption); loss and duplication are only injected in relaxed runs",
			"concurrent proposals on one channel from both sides legitimately time out; such runs fall under the relaxed oracle"}
	case "C03":
		d.Rule = "two real clients with real local watchers; scenario: 1-3 assets, balances, optional different funding agreement, challenge duration, app; up to 12 actions (payments either way with keyed accept/reject, sub-channel open / pay / finalise-and-close under a no-app parent), then cooperative (final) or dispute settlement with drawn first settler, gap and secondary flag. Oracle after both settled: account = before - agreed funding + balance in the newest transaction enabled by both (balances in sub-channels still locked included), holdings zero, funding debits equal the agreement, ledger conservation after every mutation, every Enabled event fully signed. Non-trivial: last common version >= 2; distinct = scenario digest x interleaving hash. Later additions: settlement while a sub-channel update waits for a slow decision with impatient first Settle attempts, the parent moving on between a sub-channel's final update and its settlement, callers cancelling on enable."
		d.FaultKinds = []string{"delay/reorder", "slow handlers", "slow ledger calls", "late ledger events", "yield hooks (buggify subset)", "impatient Settle contexts",
			"ledger Register gives up when its caller's context is done", "the two users settle a final sub-channel out of step"}
		d.Assumptions = []string{"the reference ledger's contract (DESIGN 3.2): signatures and tree shape verified, refutation does not extend the challenge period, withdraw must supply the registered states",
			"sub-channels are opened only under no-app parents (the payment app forbids the funding update)",
			"a Settle call that fails because not all registered events of the channel tree have arrived yet is repeated by the driver (counted as probe.settle_retry)"}
	case "C04":
		d.Rule = "as C03, but one side is semi-honest: its real client runs the protocol while an adversary registers earlier fully signed states from that client's Enabled history (version latest-1..latest-4, sub-states any signed state it holds) at drawn instants, synchronously or concurrently with the following updates; the honest side watches and settles when notified. Oracle: the concluded tree consists of states the honest client enabled, each at least as new as its newest at the moment its machine entered Registered; payout >= its balances there; Settle succeeds within the challenge period + 400 simulated seconds. Non-trivial: the honest side registered a refutation; distinct = scenario digest x interleaving hash. Later additions: slow decisions on sub-channel or ledger-channel updates while the dispute starts, a user who settles only after the challenge period, a transient failure of the honest side's Register paired with two re-deliveries of the latest event."
		d.FaultKinds = []string{"outdated_registration (adversary)", "delay/reorder", "slow handlers", "slow ledger calls", "late ledger events", "yield hooks", "transient Register failure + re-delivered events",
			"late start of watching", "ledger Register gives up when its caller's context is done", "out-of-step sub-channel settlement"}
		d.Assumptions = []string{"ledger and event latencies are bounded so that five refutation rounds fit into the shortest challenge period (1 s): the protocol's own assumption",
			"the adversary deviates only by registering old signed states; its client does not run a watcher",
			"known findings are matched by history shape (see known_findings.json)"}
	case "C07":
		d.Rule = "two-party runs (65%): honest history (payments, sub-channel open/pay under a no-app parent) with crafted steps in which the adversary edits the counterparty client's outgoing ChannelUpdateMsg in flight: ordinary payments, the parent's sub-channel funding update, the parent's sub-channel settlement update. Three-party runs (35%): the honest hub between two adversarial peers; edited VirtualChannelFundingProposalMsg / VirtualChannelSettlementProposalMsg. Edited messages are re-signed with the peer's key and re-serialised (undecodable ones are counted and dropped). Violation: countersigned and not acceptable by the independent predicate. Non-trivial: at least one crafted message was delivered; distinct = scenario digest x interleaving hash."
		d.FaultKinds = append(append(append(append([]string{"delay/reorder", "yield hooks"}, c07OrdinaryMuts...), c07FundingMuts...), c07SettleMuts...), append(c07VFundMuts, c07VSettleMuts...)...)
		d.Assumptions = []string{"the honest client's update handler accepts everything, so only library checks protect it",
			"a stealing ordinary update on a no-app channel is acceptable by the statement (valid successor, sender is actor, locked unchanged): whether to accept it is the user handler's decision"}
	case "C12":
		d.Rule = "three real clients: victim H (hub) with ledger channels to the adversary's address A and to an honest client B, optionally an honest virtual channel A<->B; 1-6 hostile envelopes per run drawn from 70 kinds (ledger/sub/virtual proposals, proposal responses, updates, update responses, virtual funding/settlement proposals, sync messages) sent as A or as a stranger Z, re-serialised with the run's serializer, at drawn gaps, optionally while H holds its machine lock with a pending own request (3 s or 12 s) and a pending own proposal. Oracle: no process death, no stalled simulation, and after 30 simulated seconds honest probes on both channels return in time. Non-trivial: at least one hostile envelope was delivered; distinct = scenario digest x interleaving hash. Second family (12% of the runs): two honest clients run payments and sub-channel open/pay/close while 2-12% of their sends fail; after a quiet period both sides probe every open channel (no wait for the machine lock, no unanswered request). First family additions: funding updates aimed at the victim's recorded deadline, answer floods after timed-out proposals or failed sends, send faults during honest virtual channel funding/settlement, one transient send error anywhere in the honest traffic, a new channel opening as first probe."
		d.FaultKinds = append([]string{"delay/reorder", "machine lock held by pending request", "yield hooks", "send errors (at once, or stalling until the sender's context ends)", "remote message aimed at the victim's recorded deadline"}, c12Kinds...)
		d.Assumptions = []string{"decodable = survives Encode+Decode of the run's serializer; other envelopes are counted (probe.undecodable) and not sent",
			"the adversary's real client does not answer sync messages", "runs are capped at 20000 seam events (probe.event_cap_hit)"}
	case "C08":
		d.Rule = "honest openings (ledger channels with drawn challenge duration up to 2^40 s, 1-3 assets, zero balances, funding agreement, app, aux; sub-channels) with scenario-controlled nonce shares, interleaved with crafted proposals that break exactly one validity condition, sent by a stranger or by the channel counterparty and passed through the real serializer. Oracles: identical parameters/ID/participant order/fully signed version-0 state equal to the proposal on both sides; different nonce shares => different IDs; handler never runs for a mutant, no channel is created from one, no panic, a later honest proposal succeeds. Non-trivial: at least one opening and (a mutant or a second opening). 20% of the runs are three-party runs: honest virtual channel openings A<->B through the hub (1-3 per run, drawn balances including zero) with the same identity checks on the two endpoints. Later additions: proposals built from one re-used options value, an opening during which one message cannot be sent (only the final honest opening is judged), two openings by one proposer at once."
		d.FaultKinds = append([]string{"delay/reorder", "yield hooks", "send error during an opening", "the same proposal again after a failed opening", "decision on an update in flight takes more than 10 s"}, c08Mutations...)
		d.Assumptions = []string{"mutants that the serializer cannot encode or decode are outside the quantifier and only counted (probe.mutant_undecodable)"}
	}
	return d
}
