package worldeng

import (
	"testing"

	"verif/sim/kernel"
	"verif/sim/world"
)

// Engine implements kernel.Engine for the world-kernel properties.
type Engine struct{}

func (Engine) Name() string { return "world" }

// yield sites placed in /repo (MANIFEST.hooks); the per-run buggify mask
// enables a random subset. "relay.Put" is not used here: a client's relays are
// nested (client relay -> channel relay -> receiver), so the inner Put runs
// under the outer relay's read lock, where parking is forbidden (R3).
var yieldSites = []string{
	"client.handleUpdateReq.beforeLock", "client.enableNotifyUpdate.beforePublish", "client.handleChannelProposal.beforeValidate",
	"client.handleSyncMsg.beforeLock", "relay.Subscribe", "relay.Cache", "relay.ReleaseCache", "relay.delete", "relay.cachedDelivery",
	"receiver.Next", "watcher.handleRegisteredEvent.locked", "watcher.handleRegisteredEvent.retrieved", "watcher.StopWatching.retrieved",
}

func installYields(s *world.Sim) {
	s.EnableYields(yieldSites, float64(s.Sc.Cfg("yield_pct", 0))/100)
	world.InstallYields(s)
}

func removeYields() { world.RemoveYields() }

func (Engine) Plan(prop, tier string) kernel.Plan {
	runs := map[string]int{
		"C06/quick": 2000, "C06/thorough": 300000,
		"C03/quick": 1500, "C03/thorough": 200000,
		"C04/quick": 1500, "C04/thorough": 200000,
		"C08/quick": 2000, "C08/thorough": 200000,
		"C07/quick": 2000, "C07/thorough": 200000,
		"C12/quick": 2000, "C12/thorough": 200000,
	}[prop+"/"+tier]
	return kernel.Plan{Runs: runs, Pin: true, CrashProne: true}
}

func (Engine) Generate(prop, tier string, run int, seed uint64) *kernel.Scenario {
	r := kernel.NewRand(seed)
	switch prop {
	case "C06":
		return genC06(r, tier)
	case "C03", "C04":
		return genSettleScenario(r, prop)
	case "C08":
		return genC08(r)
	}
	return nil
}

func (Engine) Execute(t *testing.T, sc *kernel.Scenario, trace bool) *kernel.Result {
	switch sc.Property {
	case "C06":
		return execC06(t, sc, trace)
	case "C03", "C04":
		return execSettle(t, sc, trace)
	case "C08":
		return execC08(t, sc, trace)
	}
	return &kernel.Result{}
}

var commonReal = []string{"client.Client (proposal, update, sync, dispute, sub-channel protocols)", "channel.StateMachine + persistence.StateMachine",
	"watcher/local.Watcher", "wire.Relay/Receiver/Cache (per-client and per-channel connections)", "wire/perunio serializer (every envelope is encoded and decoded on the bus)",
	"backend/sim channel+wallet+wire (real ECDSA signatures)", "polycry.pt/poly-go sync primitives"}
var commonStub = []string{"wire.Bus -> world.Bus (keyed delays, FIFO or unordered, sync or async publish, loss/duplication in relaxed configurations)",
	"channel.Funder/Adjudicator/RegisterSubscriber -> world.Ledger (strict reference ledger on the simulated clock)",
	"time -> testing/synctest fake clock", "user handlers -> policy callbacks with keyed reaction times", "persistence.PersistRestorer -> recording wrapper around NonPersistRestorer"}

func (Engine) Describe(prop string) kernel.Describe {
	d := kernel.Describe{Real: commonReal, Stub: commonStub}
	switch prop {
	case "C06":
		d.Rule = "two real clients with 1-3 ledger channels; programs of up to 15 Channel.Update calls from either side (sequential, back-to-back, concurrent on the same and on different channels), keyed accept/reject decisions and reaction times, one synctest bubble per run with keyed delays at bus, ledger, handlers and yield hooks. Strict runs (no timed-out request): success => both Enabled streams hold the proposed state fully signed; rejection => never enabled; no fork; versions differ by at most one at every Enabled event; accept => enabled; both Acting and a probe update succeeds. Token configuration: no request may time out. Relaxed runs (loss, duplication, short contexts): only the fully-signed invariant. Non-trivial: at least one successful update and (a rejection or overlapping updates); distinct = scenario digest x interleaving hash."
		d.FaultKinds = []string{"delay/reorder", "loss", "duplication", "short context timeouts", "slow handlers", "yield hooks (buggify subset)"}
		d.Assumptions = []string{"the bus delivers exactly once in strict configurations (go-perun's stated assumption); loss and duplication are only injected in relaxed runs",
			"concurrent proposals on one channel from both sides legitimately time out; such runs fall under the relaxed oracle"}
	}
	return d
}
