package worldeng

import (
	"bytes"
	"fmt"
	"math/big"
	"sync"
	"testing"
	"time"

	"perun.network/go-perun/channel"
	"perun.network/go-perun/client"
	"perun.network/go-perun/wallet"
	"perun.network/go-perun/wire"

	"verif/sim/gen"
	"verif/sim/kernel"
	"verif/sim/world"
)

// ---- C07, three-party part: the hub between two colluding peers -----------------

var c07VFundMuts = []string{
	"none", "vf:debit-hub-more", "vf:debit-hub-all", "vf:indexmap-swapped", "vf:indexmap-all-hub", "vf:indexmap-all-peer", "vf:second-suballoc", "vf:suballoc-amount+1", "vf:initial-sig-dropped",
	"vf:initial-sig-wrong", "vf:touch-other-suballoc", "vf:parent-sig-other-state", "vf:actor-other",
}
var c07VSettleMuts = []string{
	"none", "vs:credit-wrong-party", "vs:final-sig-dropped", "vs:final-sig-wrong", "vs:touch-other-suballoc", "vs:keep-suballoc", "vs:final-other-state",
	"vs:parent-sig-wrong-key",
}

func genC07V(r *kernel.Rand) *kernel.Scenario {
	sc := &kernel.Scenario{Config: map[string]int64{"trio": 1}}
	c := sc.Config
	c["ser"] = int64(r.Intn(2))
	c["fifo"] = int64(r.Intn(2))
	c["bus_max_us"] = int64([]int{100, 400}[r.Intn(2)])
	c["react_max_us"] = int64([]int{50, 500}[r.Intn(2)])
	c["yield_pct"] = int64([]int{0, 30}[r.Intn(2)])
	c["long_yields"] = int64(r.Intn(2))
	c["ctx_ms"] = 15000
	c["assets"] = int64(1 + r.Weighted([]int{3, 1}))
	c["r"] = int64(r.Uint64() >> 2)
	n := r.Range(1, 6)
	open := 0
	amt := 1
	for i := 0; i < n; i++ {
		amt++
		switch k := r.Weighted([]int{4, 2, 3, 1}); {
		case k == 0 && open < 2:
			sc.Steps = append(sc.Steps, kernel.St("vopen", "a", r.Range(1, 80), "b", r.Range(1, 80), "mut", c07VFundMuts[r.Intn(len(c07VFundMuts))], "who", r.Intn(2), "r", int64(r.Uint64()>>2)))
			open++
		case k == 1 && open > 0:
			sc.Steps = append(sc.Steps, kernel.St("vpay", "v", r.Intn(open), "from", r.Intn(2), "amt", amt))
		case k == 2 && open > 0:
			sc.Steps = append(sc.Steps, kernel.St("vsettle", "v", r.Intn(open), "amt", amt, "mut", c07VSettleMuts[r.Intn(len(c07VSettleMuts))], "who", r.Intn(2), "r", int64(r.Uint64()>>2)))
		default:
			sc.Steps = append(sc.Steps, kernel.St("lpay", "ch", r.Intn(2), "from", r.Intn(2), "amt", amt))
		}
	}
	return sc
}

type vcraft struct {
	class  string // vfunding, vsettlement
	mut    string
	who    string // "A" or "B": whose message is edited
	r      *kernel.Rand
	armed  bool
	fired  bool
	parent channel.ID
	before *channel.State
	upd    *client.ChannelUpdateMsg
	signed channel.SignedState // Initial or Final as sent
	imap   []channel.Index
	sigOK  bool
	acc    bool
}

type c07v struct {
	t  *trio
	mu sync.Mutex
	cr *vcraft
}

func execC07V(tt *testing.T, sc *kernel.Scenario, trace bool) *kernel.Result {
	return world.RunBubble(tt, sc, trace, func(s *world.Sim) {
		t := newTrio(s)
		installYields(s)
		defer removeYields()
		if !t.setup(kernel.NewRand(kernel.Derive(uint64(sc.Cfg("r", 1)), "setup")), int(sc.Cfg("assets", 1))) {
			s.Note("setup failed")
			t.w.Shutdown()
			return
		}
		st0 := &c07v{t: t}
		t.w.Bus.Intercept = st0.intercept
		t.w.Bus.Tap = func(from, to string, e *wire.Envelope, fate string) {
			if acc, ok := e.Msg.(*client.ChannelUpdateAccMsg); ok && from == "H" {
				st0.mu.Lock()
				if c := st0.cr; c != nil && c.fired && acc.ChannelID == c.parent && acc.Version == c.upd.State.Version && to == c.who {
					c.acc = true
				}
				st0.mu.Unlock()
			}
		}
		crafted := 0
		for i := range sc.Steps {
			st := &sc.Steps[i]
			who := []string{"A", "B"}[int(st.Int("who"))&1]
			switch st.Op {
			case "lpay":
				chs := [][2]*client.Channel{t.chAH, t.chBH}[int(st.Int("ch"))&1]
				nodes := []*world.Node{[]*world.Node{t.A, t.B}[int(st.Int("ch"))&1], t.H}
				side := int(st.Int("from")) & 1
				_ = t.payOn(nodes[side], chs[side], st.Int("amt"), false, 5*time.Second)
			case "vopen":
				crafted++
				st0.arm(&vcraft{class: "vfunding", mut: st.Str("mut"), who: who, r: kernel.NewRand(kernel.Derive(uint64(st.Int("r")), "vcraft"))})
				_, _ = t.openVirtual(i, st.Int("a"), st.Int("b"))
				if !st0.settle() {
					goto done
				}
			case "vpay":
				if k := int(st.Int("v")); k < len(t.virt) && !t.virt[k].closed {
					v := t.virt[k]
					if st.Int("from")&1 == 0 {
						_ = t.payOn(t.A, v.a, st.Int("amt"), false, 5*time.Second)
					} else {
						_ = t.payOn(t.B, v.b, st.Int("amt"), false, 5*time.Second)
					}
				}
			case "vsettle":
				if k := int(st.Int("v")); k < len(t.virt) && !t.virt[k].closed {
					crafted++
					st0.arm(&vcraft{class: "vsettlement", mut: st.Str("mut"), who: who, r: kernel.NewRand(kernel.Derive(uint64(st.Int("r")), "vcraft"))})
					t.settleVirtual(i, k, st.Int("amt"))
					if !st0.settle() {
						goto done
					}
				}
			}
			if s.Failed() {
				break
			}
		}
	done:
		s.Count("probe.crafted", int64(crafted))
		s.Res.NonTrivial = crafted > 0
		time.Sleep(10 * time.Millisecond)
		t.w.Shutdown()
	})
}

func (c *c07v) arm(cr *vcraft) {
	c.mu.Lock()
	cr.armed = true
	c.cr = cr
	c.mu.Unlock()
}

func (c *c07v) parentOf(who string) (peer *world.Node, hch *client.Channel) {
	if who == "A" {
		return c.t.A, c.t.chAH[1]
	}
	return c.t.B, c.t.chBH[1]
}

func (c *c07v) intercept(from, to string, e *wire.Envelope) (*wire.Envelope, bool) {
	if to != "H" {
		return e, true
	}
	c.mu.Lock()
	cr := c.cr
	if cr == nil || !cr.armed || from != cr.who {
		c.mu.Unlock()
		return e, true
	}
	var upd *client.ChannelUpdateMsg
	var signed *channel.SignedState
	var imap *[]channel.Index
	switch m := e.Msg.(type) {
	case *client.VirtualChannelFundingProposalMsg:
		if cr.class == "vfunding" {
			upd, signed, imap = &m.ChannelUpdateMsg, &m.Initial, &m.IndexMap
		}
	case *client.VirtualChannelSettlementProposalMsg:
		if cr.class == "vsettlement" {
			upd, signed = &m.ChannelUpdateMsg, &m.Final
		}
	}
	if upd == nil {
		c.mu.Unlock()
		return e, true
	}
	cr.armed = false
	c.mu.Unlock()
	peer, hch := c.parentOf(cr.who)
	// predecessor = the sender's own current state of the parent (see c07.go)
	hist := peer.Rec.EnabledOf(hch.ID())
	if len(hist) == 0 {
		return e, true
	}
	cr.parent = hch.ID()
	cr.before = hist[len(hist)-1].State.Clone()
	c.mutate(cr, peer, upd, signed, imap)
	cr.upd = upd
	cr.signed = *signed
	if imap != nil {
		cr.imap = append([]channel.Index{}, (*imap)...)
	}
	if ok, err := channel.Verify(peer.Acc.Addr[channel.TestBackendID], upd.State, upd.Sig); err == nil && ok {
		cr.sigOK = true
	}
	c.mu.Lock()
	cr.fired = true
	c.mu.Unlock()
	c.t.s.Count("fault.craft."+cr.mut, 1)
	c.t.s.Event("ADV", "adv:craft", fmt.Sprintf("%s %s by %s on %s v%d", cr.class, cr.mut, cr.who, c.t.s.ChanName(cr.parent), upd.State.Version))
	return e, true
}

func (c *c07v) mutate(cr *vcraft, peer *world.Node, m *client.ChannelUpdateMsg, signed *channel.SignedState, imap *[]channel.Index) {
	s := m.State
	one := big.NewInt(1)
	const pIdx, hIdx = 0, 1 // the peer proposed the ledger channel, the hub has index 1
	resign := true
	vid := signed.State.ID
	other := func() int {
		for i, la := range s.Locked {
			if la.ID != vid {
				return i
			}
		}
		return -1
	}
	switch cr.mut {
	case "vf:debit-hub-more", "vf:debit-hub-all":
		for a := range s.Balances {
			d := new(big.Int).Sub(cr.before.Balances[a][pIdx], s.Balances[a][pIdx])
			if cr.mut == "vf:debit-hub-more" && d.Sign() > 0 {
				d = big.NewInt(1)
			}
			if d.Sign() <= 0 || s.Balances[a][hIdx].Cmp(d) < 0 {
				continue
			}
			s.Balances[a][pIdx].Add(s.Balances[a][pIdx], d)
			s.Balances[a][hIdx].Sub(s.Balances[a][hIdx], d)
		}
	case "vf:indexmap-swapped":
		if imap != nil && len(*imap) == 2 {
			(*imap)[0], (*imap)[1] = (*imap)[1], (*imap)[0]
			for i := range s.Locked {
				if s.Locked[i].ID == vid {
					s.Locked[i].IndexMap = append([]channel.Index{}, (*imap)...)
				}
			}
		}
	case "vf:indexmap-all-hub", "vf:indexmap-all-peer":
		// an index map that names one parent participant for every virtual
		// participant, with the debit moved accordingly (totals preserved)
		tgt := channel.Index(hIdx)
		if cr.mut == "vf:indexmap-all-peer" {
			tgt = pIdx
		}
		if imap != nil {
			for i := range *imap {
				(*imap)[i] = tgt
			}
			for i := range s.Locked {
				if s.Locked[i].ID == vid {
					s.Locked[i].IndexMap = append([]channel.Index{}, (*imap)...)
					for a := range s.Balances {
						tot := s.Locked[i].Bals[a]
						s.Balances[a][pIdx] = new(big.Int).Set(cr.before.Balances[a][pIdx])
						s.Balances[a][hIdx] = new(big.Int).Set(cr.before.Balances[a][hIdx])
						if s.Balances[a][tgt].Cmp(tot) >= 0 {
							s.Balances[a][tgt].Sub(s.Balances[a][tgt], tot)
						}
					}
				}
			}
		}
	case "vf:second-suballoc":
		bals := make([]channel.Bal, len(s.Assets))
		for i := range bals {
			bals[i] = new(big.Int)
		}
		if s.Balances[0][hIdx].Sign() > 0 {
			s.Balances[0][hIdx].Sub(s.Balances[0][hIdx], one)
			bals[0] = big.NewInt(1)
		}
		s.Locked = append(s.Locked, *channel.NewSubAlloc(gen.SubID(600+cr.r.Uint64()%50), bals, nil))
	case "vf:suballoc-amount+1":
		for i := range s.Locked {
			if s.Locked[i].ID == vid && s.Balances[0][hIdx].Sign() > 0 {
				s.Locked[i].Bals[0] = new(big.Int).Add(s.Locked[i].Bals[0], one)
				s.Balances[0][hIdx].Sub(s.Balances[0][hIdx], one)
			}
		}
	case "vf:initial-sig-dropped", "vs:final-sig-dropped":
		if len(signed.Sigs) > 0 {
			signed.Sigs[cr.r.Intn(len(signed.Sigs))] = nil
		}
		resign = false
	case "vf:initial-sig-wrong", "vs:final-sig-wrong":
		if len(signed.Sigs) > 0 {
			k := cr.r.Intn(len(signed.Sigs))
			signed.Sigs[k], _ = channel.Sign(gen.Pool(6)[4].Acc, signed.State, channel.TestBackendID)
		}
		resign = false
	case "vf:touch-other-suballoc", "vs:touch-other-suballoc":
		k := other()
		if k < 0 {
			cr.mut = "none"
			resign = false
			break
		}
		if len(s.Locked[k].IndexMap) > 0 {
			s.Locked[k].IndexMap[0] ^= 1
		} else {
			s.Locked[k].ID[11] ^= 1
		}
	case "vf:parent-sig-other-state":
		o := s.Clone()
		o.Version += 3
		m.Sig = signAs(peer, o)
		resign = false
	case "vs:parent-sig-wrong-key":
		m.Sig, _ = channel.Sign(gen.Pool(6)[4].Acc, s, channel.TestBackendID)
		resign = false
	case "vf:actor-other":
		m.ActorIdx = hIdx
	case "vs:credit-wrong-party":
		for a := range s.Balances {
			if s.Balances[a][hIdx].Sign() > 0 {
				s.Balances[a][hIdx].Sub(s.Balances[a][hIdx], one)
				s.Balances[a][pIdx].Add(s.Balances[a][pIdx], one)
				break
			}
		}
	case "vs:keep-suballoc":
		if la, ok := cr.before.SubAlloc(vid); ok {
			s.Locked = append(s.Locked, la)
		}
	case "vs:final-other-state":
		// a different (but equally signed... by this peer only) final state
		f := signed.State.Clone()
		if f.Balances[0][0].Sign() > 0 {
			f.Balances[0][0].Sub(f.Balances[0][0], one)
			f.Balances[0][1].Add(f.Balances[0][1], one)
		}
		signed.State = f
		for i := range signed.Sigs {
			signed.Sigs[i] = signAs(peer, f)
		}
		resign = false
	default:
		cr.mut = "none"
		resign = false
	}
	if resign {
		m.Sig = signAs(peer, s)
	}
}

// settle evaluates the oracle for the armed craft. false = stop the run.
func (c *c07v) settle() bool {
	t, s := c.t, c.t.s
	time.Sleep(12 * time.Second) // past the hub's 10 s matching timeouts
	c.mu.Lock()
	cr := c.cr
	c.cr = nil
	c.mu.Unlock()
	if cr == nil || !cr.fired {
		return true
	}
	held := false
	benc := gen.EncodeState(cr.before)
	for _, e := range t.H.Rec.EnabledOf(cr.parent) {
		held = held || bytes.Equal(e.Enc, benc)
	}
	if !held {
		s.Count("probe.predecessor_not_held_by_H", 1)
		return false
	}
	enc := gen.EncodeState(cr.upd.State)
	enabled := false
	for _, e := range t.H.Rec.EnabledOf(cr.parent) {
		if e.Version == cr.upd.State.Version && bytes.Equal(e.Enc, enc) {
			enabled = true
		}
	}
	counter := enabled || cr.acc
	ok, why := c.acceptable(cr)
	if counter {
		s.Count("probe.countersigned", 1)
	} else {
		s.Count("probe.refused", 1)
	}
	if counter && !ok {
		s.Fail("C07.countersigned-unsafe@"+cr.class+"/"+why, "the hub countersigned a %s update (%s by %s) that is not acceptable: %s", cr.class, cr.mut, cr.who, why)
		return false
	}
	// whatever the hub refused must have left its channels untouched: the state
	// a controller holds in memory is the last one it enabled (a validator that
	// edits the live state while judging a proposal changes what later updates
	// are compared with)
	for _, hc := range []*client.Channel{t.chAH[1], t.chBH[1]} {
		if l := t.H.Rec.EnabledOf(hc.ID()); len(l) > 0 {
			if cur := hc.State(); !bytes.Equal(gen.EncodeState(cur), l[len(l)-1].Enc) {
				s.Fail("C07.current-state-changed-without-update", "the hub's current state of %s (v%d) is not the state it enabled last: it changed without any update being countersigned (after a %s %s by %s)",
					s.ChanName(hc.ID()), cur.Version, cr.class, cr.mut, cr.who)
				return false
			}
		}
	}
	// continue only if everybody is still in sync
	for _, pr := range [][2]*client.Channel{t.chAH, t.chBH} {
		a, h := pr[0].State(), pr[1].State()
		if a.Version != h.Version || !bytes.Equal(gen.EncodeState(a), gen.EncodeState(h)) {
			return false
		}
	}
	return true
}

func fullySigned(ss channel.SignedState) bool {
	if ss.Params == nil || ss.State == nil || ss.Params.ID() != ss.State.ID || len(ss.Sigs) != len(ss.Params.Parts) {
		return false
	}
	for i, sig := range ss.Sigs {
		if sig == nil {
			return false
		}
		for _, addr := range ss.Params.Parts[i] {
			if ok, err := channel.Verify(addr, ss.State, sig); err != nil || !ok {
				return false
			}
		}
	}
	return true
}

// acceptable: predicate for the hub, written from the statement of C07.
func (c *c07v) acceptable(cr *vcraft) (bool, string) {
	peer, hch := c.parentOf(cr.who)
	const pIdx, hIdx = 0, 1
	st, before := cr.upd.State, cr.before
	if !cr.sigOK {
		return false, "signature-not-by-peer-over-proposed-state"
	}
	if ok, why := gen.RefValidSuccessor(hch.Params().ID(), hch.Params().App, 2, before, st, cr.upd.ActorIdx); !ok {
		return false, "invalid-successor:" + why
	}
	if !fullySigned(cr.signed) {
		return false, "virtual-state-not-fully-signed"
	}
	v := cr.signed.State
	if len(v.Locked) != 0 || len(v.Balances) != len(before.Balances) {
		return false, "virtual-state-shape"
	}
	// which parent participant stands for which virtual participant: the peer
	// for itself, the hub for everybody else
	want := make([]channel.Index, len(cr.signed.Params.Parts))
	for p := range want {
		want[p] = hIdx
		if wallet.IndexOfAddrs([]map[wallet.BackendID]wallet.Address{cr.signed.Params.Parts[p]}, peer.Acc.Addr) == 0 {
			want[p] = pIdx
		}
	}
	share := func(a, j int) *big.Int {
		x := new(big.Int)
		for p := range want {
			if int(want[p]) == j {
				x.Add(x, v.Balances[a][p])
			}
		}
		return x
	}
	switch cr.class {
	case "vfunding":
		if !cr.signed.Params.VirtualChannel {
			return false, "not-a-virtual-channel"
		}
		if len(st.Locked) != len(before.Locked)+1 || !sameLocked(before.Locked, st.Locked[:len(before.Locked)]) {
			return false, "locked-not-extended-by-exactly-one"
		}
		exp := channel.SubAlloc{ID: v.ID, Bals: gen.Totals(&v.Allocation), IndexMap: want}
		if !sameSubAlloc(&st.Locked[len(st.Locked)-1], &exp) {
			return false, "added-suballoc-differs"
		}
		for a := range st.Balances {
			for j := 0; j < 2; j++ {
				d := new(big.Int).Sub(before.Balances[a][j], st.Balances[a][j])
				if d.Cmp(share(a, j)) != 0 {
					return false, "debit-differs-from-balance-in-funded-channel"
				}
			}
		}
		return true, ""
	case "vsettlement":
		la, ok := before.SubAlloc(v.ID)
		if !ok {
			return false, "virtual-channel-not-allocated"
		}
		var rest []channel.SubAlloc
		for _, x := range before.Locked {
			if x.ID != v.ID {
				rest = append(rest, x)
			}
		}
		if !sameLocked(rest, st.Locked) {
			return false, "locked-not-reduced-by-exactly-that-suballoc"
		}
		tot := gen.Totals(&v.Allocation)
		for a := range tot {
			if tot[a].Cmp(la.Bals[a]) != 0 {
				return false, "final-total-differs-from-locked-amount"
			}
		}
		for a := range st.Balances {
			for j := 0; j < 2; j++ {
				d := new(big.Int).Sub(st.Balances[a][j], before.Balances[a][j])
				if d.Cmp(share(a, j)) != 0 {
					return false, "credit-differs-from-balance-in-settled-channel"
				}
			}
		}
		return true, ""
	}
	return false, "unknown-class"
}
