package worldeng

import (
	"context"
	"fmt"
	"math/big"
	"strings"
	"sync"
	"sync/atomic"
	"testing"
	"time"

	simwire "perun.network/go-perun/backend/sim/wire"
	"perun.network/go-perun/channel"
	"perun.network/go-perun/client"
	"perun.network/go-perun/wallet"
	"perun.network/go-perun/wire"

	"verif/sim/gen"
	"verif/sim/kernel"
	"verif/sim/world"
)

// ---- C12: no remote message can crash a client or lock up a channel -------------
//
// World: the trio. H is the honest client under attack (hub, index 1 in both
// ledger channels). A is the adversary: a real client opens the channel A-H
// and answers probes honestly, and crafted envelopes are injected with A's
// wire address (A owns valid channel keys) or with the address of a stranger Z.
// B is an honest second client with its own channel to H, so collateral
// lock-ups are seen too.

var c12Kinds = []string{
	// proposals
	"lprop:ok", "lprop:one-part", "lprop:zero-challenge", "lprop:peers-3", "lprop:bals-3parts", "lprop:agreement-assets", "lprop:agreement-parts", "lprop:prelocked", "lprop:mock-app-data",
	"sprop:ok-shape", "sprop:unknown-parent", "sprop:assets-mismatch", "sprop:more-assets", "sprop:too-many-funds", "sprop:bals-3parts",
	"vprop:ok-shape", "vprop:no-parents", "vprop:one-parent", "vprop:indexmaps-missing", "vprop:indexmap-long", "vprop:indexmap-entry", "vprop:bals-3parts", "vprop:agreement-dims",
	// proposal responses
	"pacc:ledger-unknown", "pacc:sub-unknown", "pacc:virtual-unknown", "prej:unknown", "pacc:ledger-for-pending", "pacc:wrong-type-for-pending", "prej:for-pending",
	// updates
	"upd:valid", "upd:fewer-parts", "upd:more-parts", "upd:actor-max", "upd:version-max", "upd:other-channel", "upd:unknown-channel", "upd:garbage-sig", "upd:add-suballoc", "upd:final",
	"upd:locked-drop-all", "upd:locked-drop-first", "upd:locked-swap", "upd:locked-dup", "upd:virtual-id",
	// a sub-channel proposal whose opening the sender abandons after the acceptance, followed by the funding update it announced
	"sprop:abandoned-then-funded", "sprop:completed-then-funded-late", "sprop:completed-then-funded-at-deadline", "lprop:participant-empty", "vprop:proposer-empty", "pacc:ledger-for-pending-empty-participant",
	// update responses
	"uacc:unknown-version", "uacc:pending-garbage-sig", "urej:unknown-version", "uacc:unknown-channel", "urej:pending", "uacc:pending-twice",
	// virtual channel funding / settlement proposals
	"vfund:ok-shape", "vfund:state-3parts", "vfund:indexmap-short", "vfund:indexmap-entry", "vfund:sigs-nil", "vfund:not-virtual", "vfund:state-other-id", "vfund:unknown-channel", "vfund:assets-mismatch", "vfund:twice",
	// a funding proposal that satisfies every check of the hub (each party debited by its own share) and never gets its match
	"vfund:valid-unmatched",
	"vfund:locked-drop-all", "vfund:locked-drop-first", "vfund:locked-swap", "vfund:locked-dup",
	// the embedded state has fewer balance columns than the channel has participants, one signature per participant
	"vfund:state-1part", "vsettle:state-1part",
	"vsettle:locked-drop-all", "vsettle:locked-drop-first", "vsettle:locked-swap",
	"vsettle:unknown-virtual", "vsettle:state-3parts", "vsettle:sigs-nil", "vsettle:other-id", "vsettle:twice",
	// responses to a proposal of the victim that has already timed out, more of them than a receiver buffers
	"presp:late-flood",
	// a ledger channel proposal whose opening the sender abandons after the acceptance (it never signs the initial state); after the victim
	// has given up, more answers for the initial version of that channel arrive than a receiver buffers
	"lprop:abandoned-then-flood",
	// an update of the victim could not be sent (connection fault); afterwards more answers for that version arrive than a receiver buffers
	"uresp:flood-after-failed-send",
	// a virtual channel settlement proposal that names an ordinary (honest, open) sub-channel of the ledger channel
	"vsettle:names-sub-channel",
	// sync
	"sync:nil-state", "sync:current", "sync:unknown-channel", "sync:while-locked", "sync:phase-garbage",
}

func genC12(r *kernel.Rand) *kernel.Scenario {
	sc := &kernel.Scenario{Config: map[string]int64{"trio": 1}}
	c := sc.Config
	c["ser"] = int64(r.Intn(2))
	c["fifo"] = int64(r.Intn(2))
	c["bus_max_us"] = int64([]int{100, 400}[r.Intn(2)])
	c["react_max_us"] = int64([]int{50, 500}[r.Intn(2)])
	c["yield_pct"] = int64([]int{0, 30}[r.Intn(2)])
	c["long_yields"] = int64(r.Intn(2))
	c["ctx_ms"] = 15000
	c["assets"] = int64(1 + r.Weighted([]int{3, 1}))
	c["r"] = int64(r.Uint64() >> 2)
	c["virtual"] = int64(r.Weighted([]int{4, 4, 2, 1})) // number of honest virtual channels A<->B (sub-allocations locked in A-H and B-H)
	if r.Bool(0.5) {                                    // (a publisher that holds a standard mutex is never parked: Sim.UnderStdMutex)
		// without matched virtual-channel proposals nothing is sent under a std
		// mutex, so the bus may park publishers (a slow link: replies stay in
		// flight while other messages arrive)
		c["sync_bus"] = 1
		c["bus_max_us"] = int64([]int{100, 400, 3000}[r.Intn(3)])
	}
	// H has a pending own request while the messages arrive: 1 = for 3 s, 2 = for
	// 12 s (longer than the library's 10 s timeouts for taking the machine lock)
	c["hold"] = int64(r.Weighted([]int{3, 2, 2}))
	if c["virtual"] > 0 && r.Bool(0.25) {
		c["vsettle_gap_ms"] = int64([]int{9999, 10000, 10000, 10000, 10001, 10500, 12000}[r.Intn(7)])
		if c["vsettle_gap_ms"] < 10400 {
			// at the boundary of the hub's patience the outcome depends on what
			// happens between the expiry and the de-registration: all yield points on
			c["yield_pct"], c["long_yields"] = 100, 1
		}
	}
	// Swarm weights: messages that the victim actually acts on (valid updates,
	// sync messages for an open channel, well-formed proposals) create in-flight
	// state for the other messages to collide with, so they are drawn more often;
	// per run a random third of the kinds is switched off entirely.
	w := make([]int, len(c12Kinds))
	for i, k := range c12Kinds {
		w[i] = 1
		switch k {
		case "upd:valid":
			w[i] = 10
		case "sync:current", "sync:while-locked":
			w[i] = 5
		case "sprop:completed-then-funded-at-deadline", "lprop:abandoned-then-flood":
			w[i] = 4
		case "lprop:ok", "sprop:ok-shape", "vprop:ok-shape", "vfund:ok-shape", "upd:final", "urej:pending", "uacc:pending-garbage-sig":
			w[i] = 3
		}
		if r.Bool(0.33) && w[i] < 5 {
			w[i] = 0
		}
	}
	if r.Bool(0.5) {
		// the probes start with a new channel opening between two honest clients
		c["probe_open"] = 1
	}
	if c["virtual"] > 0 && c["vsettle_gap_ms"] == 0 && r.Bool(0.2) {
		c["vsettle_sendfail"] = int64(1 + r.Intn(2))
	} else if c["virtual"] > 0 && r.Bool(0.15) {
		c["vfund_gap_ms"] = int64([]int{9990, 9999, 10000, 10000, 10000, 10001, 10010, 10500}[r.Intn(8)])
		c["yield_pct"], c["long_yields"] = 100, 1
	} else if c["virtual"] > 0 && r.Bool(0.15) {
		c["vfund_sendfail"] = int64(1 + r.Intn(2))
	} else if r.Bool(0.15) {
		c["sendfail_nth"], c["sendfail_dir"] = int64(r.Range(1, 30)), int64(r.Intn(2))
	}
	if c["vsettle_sendfail"]+c["vfund_sendfail"]+c["sendfail_nth"] > 0 && c["virtual"]%2 == 1 {
		// the failing send does not fail at once: it stalls until the sender's
		// context ends (with whatever locks the sender holds meanwhile)
		c["send_stall"] = 1
	}
	n := r.Range(1, 6)
	for i := 0; i < n; i++ {
		k := c12Kinds[r.Weighted(w)]
		st := kernel.St("msg", "kind", k, "from", r.Weighted([]int{3, 1}), "r", int64(r.Uint64()>>2), "gap_us", []int{0, 5, 50, 100, 400, 2000, 200000}[r.Intn(7)])
		if k == "sprop:completed-then-funded-at-deadline" {
			st.A["from"], st.A["off_us"] = 0, int64(r.Range(-1000, 4000))
			// what happens between the expiry and the clean-up decides: all yield points on
			c["yield_pct"], c["long_yields"] = 100, 1
		}
		sc.Steps = append(sc.Steps, st)
	}
	if c["virtual"] > 0 && r.Bool(0.4) {
		// the honest virtual channels are proposed by B: the adversary A is
		// their participant 1
		c["virtual_by_b"] = 1
	}
	return sc
}

func execC12(tt *testing.T, sc *kernel.Scenario, trace bool) *kernel.Result {
	return world.RunBubble(tt, sc, trace, func(s *world.Sim) {
		t := newTrio(s)
		if sc.Cfg("send_stall", 0) == 1 {
			t.w.Bus.StallSendP = 1
		}
		installYields(s)
		defer removeYields()
		if !t.setup(kernel.NewRand(kernel.Derive(uint64(sc.Cfg("r", 1)), "setup")), int(sc.Cfg("assets", 1))) {
			t.w.Shutdown()
			return
		}
		// A's address is the adversary's: its real client only opens channels and
		// answers probes. It must not answer sync messages: two clients running
		// the library's handler would bounce sync replies forever (each reply is
		// itself a request), which an adversary's own software would not do.
		vfundGap, vfundHeld := time.Duration(sc.Cfg("vfund_gap_ms", 0))*time.Millisecond, false
		t.w.Bus.Intercept = func(from, to string, e *wire.Envelope) (*wire.Envelope, bool) {
			if _, ok := e.Msg.(*client.ChannelSyncMsg); ok && from == "A" {
				return e, false
			}
			if _, ok := e.Msg.(*client.VirtualChannelFundingProposalMsg); ok && vfundGap > 0 && from == "B" && to == "H" && !vfundHeld {
				// a slow link: the second party's funding proposal of the first honest
				// virtual channel reaches the hub about its patience (10 s) after the
				// first party's
				vfundHeld = true
				s.Count("fault.virtual_funding_proposals_far_apart", 1)
				_ = t.w.Bus.Inject(e, vfundGap+s.Delay("vfund-gap", 0, 500*time.Microsecond))
				return e, false
			}
			return e, true
		}
		a := &c12adv{t: t, pendingOver: make(chan struct{})}
		a.zWire = map[wallet.BackendID]wire.Address{channel.TestBackendID: func() *simwire.Address { x := simwire.NewAddress(); copy(x[:], "stranger-Z"); return x }()}
		t.w.Bus.Name(a.zWire, "Z")
		if n := sc.Cfg("sendfail_nth", 0); n > 0 {
			// one transient connection fault somewhere in the honest traffic of the
			// run: the n-th message that the hub sends, or that is sent to the hub,
			// (after the ledger channels are open) fails in the bus
			seen, dir := int64(0), sc.Cfg("sendfail_dir", 0)
			var once sync.Once
			t.w.Bus.FailSend = func(from, to string, e *wire.Envelope) bool {
				if (dir == 0 && from != "H") || (dir == 1 && to != "H") {
					return false
				}
				if atomic.AddInt64(&seen, 1) != n {
					return false
				}
				hit := false
				once.Do(func() {
					hit = true
					s.Count("fault.transient_send_error_in_honest_traffic", 1)
					s.Note("transient send error: %s -> %s %s", from, to, s.DescribeMsg(e.Msg))
				})
				return hit
			}
		} else if f := sc.Cfg("vfund_sendfail", 0); f > 0 {
			// a transient connection fault while an honest virtual channel is being
			// funded: the hub's acceptance of one party's funding proposal is not sent
			victim, done := []string{"A", "B"}[(f-1)&1], false
			t.w.Bus.FailSend = func(from, to string, e *wire.Envelope) bool {
				if _, ok := e.Msg.(*client.ChannelUpdateAccMsg); ok && from == "H" && to == victim && !done {
					done = true
					s.Count("fault.virtual_funding_acceptance_not_sent", 1)
					return true
				}
				return false
			}
		}
		for i := range sc.Steps {
			if sc.Steps[i].Str("kind") == "vsettle:names-sub-channel" && t.subAH[0] == nil {
				if t.openSubAH(i) {
					s.Count("probe.honest_sub_channel_open", 1)
				}
			}
		}
		for k := int64(0); k < sc.Cfg("virtual", 0); k++ {
			if v, err := t.openVirtualBy(int(k), 20+3*k, 30-2*k, sc.Cfg("virtual_by_b", 0) == 1); err == nil && a.virt == nil {
				a.virt = v
			}
		}
		if sc.Cfg("sendfail_nth", 0) == 0 {
			t.w.Bus.FailSend = nil
		}
		// optionally H holds its machine lock on A-H with a pending own request:
		// A's client answers that request only after a long reaction time
		holdDone := make(chan struct{})
		if h := sc.Cfg("hold", 0); h >= 1 {
			react, to := 3*time.Second, 8*time.Second
			if h == 2 {
				react, to = 12*time.Second, 16*time.Second
			}
			t.A.OnUpdate = func(cur *channel.State, u client.ChannelUpdate) (bool, time.Duration) { return true, react }
			go func() {
				defer close(holdDone)
				_ = t.payOn(t.H, t.chAH[1], 1, false, to)
			}()
			time.Sleep(2 * time.Millisecond)

		} else {
			close(holdDone)
		}
		// H has a pending proposal to Z (never answered) so that responses "for a pending request" exist
		go func() {
			alloc := channel.Allocation{Assets: []channel.Asset{gen.Asset(0)}, Backends: []wallet.BackendID{channel.TestBackendID},
				Balances: channel.Balances{{big.NewInt(5), big.NewInt(5)}}}
			prop, err := client.NewLedgerChannelProposal(10, t.H.Acc.Addr, &alloc, []map[wallet.BackendID]wire.Address{t.H.Wire, a.zWire},
				client.WithNonceFrom(kernel.NewRand(kernel.Derive(s.Sc.Seed, "hz"))))
			if err != nil {
				return
			}
			a.pendingProp = prop.ProposalID
			ctx, cancel := context.WithTimeout(context.Background(), 6*time.Second)
			defer cancel()
			_, _ = t.H.Client.ProposeChannel(ctx, prop)
			close(a.pendingOver)
		}()
		time.Sleep(time.Millisecond)
		sent := 0
		for i := range sc.Steps {
			st := &sc.Steps[i]
			if st.Op != "msg" {
				continue
			}
			if a.send(i, st) {
				sent++
			}
			time.Sleep(time.Duration(st.Int("gap_us"))*time.Microsecond + s.Delay(fmt.Sprintf("adv:gap:%d", i), 0, time.Microsecond))
		}
		s.Count("probe.hostile_messages", int64(sent))
		<-holdDone
		if f := sc.Cfg("vsettle_sendfail", 0); f > 0 && a.virt != nil && !s.Failed() {
			// the honest virtual channel is settled while the hub's connection to
			// one of the two parties has a transient fault: its acceptance of that
			// party's settlement proposal cannot be sent
			victim, done := []string{"A", "B"}[(f-1)&1], false
			t.w.Bus.FailSend = func(from, to string, e *wire.Envelope) bool {
				if _, ok := e.Msg.(*client.ChannelUpdateAccMsg); ok && from == "H" && to == victim && !done {
					done = true
					return true
				}
				return false
			}
			errA, errB := t.settleVirtual(len(sc.Steps), 0, 1)
			t.w.Bus.FailSend = nil
			if done {
				s.Count("fault.virtual_settlement_acceptance_not_sent", 1)
			}
			s.Note("virtual settlement with a send fault towards %s: errA=%v errB=%v", victim, errA, errB)
		} else if sc.Cfg("sendfail_nth", 0) > 0 && sc.Cfg("vsettle_gap_ms", 0) == 0 && a.virt != nil && !s.Failed() {
			// (more honest traffic for the transient send error to land in)
			errA, errB := t.settleVirtual(len(sc.Steps), 0, 1)
			s.Note("virtual settlement under a transient send error somewhere: errA=%v errB=%v", errA, errB)
		} else if sc.Cfg("vsettle_gap_ms", 0) > 0 && a.virt != nil && !s.Failed() {
			// the honest virtual channel is finalised and settled, the two parties'
			// settlement proposals reaching the hub more than its 10 s patience apart
			// (pure timing; whether the settlement succeeds is not judged here, the
			// probes below are)
			errA, errB := t.settleVirtual(len(sc.Steps), 0, 1)
			s.Count("fault.virtual_settlement_proposals_far_apart", 1)
			s.Note("late virtual settlement: errA=%v errB=%v", errA, errB)
		}
		// faults have stopped: run past every internal timeout, then probe
		t.w.Bus.FailSend = nil
		t.A.OnUpdate = func(cur *channel.State, u client.ChannelUpdate) (bool, time.Duration) {
			return true, 50 * time.Microsecond
		}
		time.Sleep(30 * time.Second)
		probe := func(name string, n *world.Node, ch *client.Channel) {
			type res struct {
				err error
			}
			done := make(chan res, 1)
			go func() {
				_ = ch.Phase() // must return
				done <- res{t.payOn(n, ch, 0, false, 60*time.Second)}
			}()
			tm := time.NewTimer(120 * time.Second)
			defer tm.Stop()
			select {
			case r := <-done:
				if r.err != nil && strings.Contains(r.err.Error(), "locking machine mutex in time") {
					s.Fail("C12.lockup@"+name, "after the hostile messages an honest update on %s could not lock the machine mutex within 60 simulated seconds", name)
				} else if r.err != nil && classify(r.err) == "timeout" && name == "B-H" && sc.Cfg("vfund_gap_ms", 0) == 0 {
					// (with funding proposals held back for about the hub's patience the
					// second party's own request times out; the hub's late rejection of
					// it can then meet that party's next request for the same version -
					// answers name only channel and version - and the two honest clients
					// legitimately end up one version apart. The update protocol promises
					// nothing after a timed-out request, and the channel is not locked:
					// requests are refused or time out in bounded time.)
					s.Fail("C12.unresponsive@"+name, "after the hostile messages an honest update on %s between two honest clients timed out: %v", name, r.err)
				}
				s.Count("probe.probe_"+classify(r.err), 1)
			case <-tm.C:
				s.Fail("C12.lockup@"+name, "after the hostile messages an honest request on %s did not return within 120 simulated seconds", name)
			}
		}
		if !s.Failed() && sc.Cfg("probe_open", 0) == 1 {
			// an honest request that needs new subscriptions at the client's relay:
			// B opens another ledger channel with H
			done := make(chan [2]*client.Channel, 1)
			go func() {
				done <- t.openLedger(len(sc.Steps)+7, t.B, int(sc.Cfg("assets", 1)), kernel.NewRand(kernel.Derive(uint64(sc.Cfg("r", 1)), "probe-open")))
			}()
			tm := time.NewTimer(120 * time.Second)
			select {
			case chs := <-done:
				if chs[0] == nil || chs[1] == nil {
					s.Fail("C12.unresponsive@open B-H", "after the hostile messages a channel opening between two honest clients failed")
				}
				s.Count("probe.probe_open", 1)
			case <-tm.C:
				s.Fail("C12.lockup@open B-H", "after the hostile messages a channel opening between two honest clients did not return within 120 simulated seconds")
			}
			tm.Stop()
		}
		if !s.Failed() {
			probe("B-H", t.H, t.chBH[1])
		}
		if !s.Failed() {
			probe("A-H", t.H, t.chAH[1])
		}
		s.Res.NonTrivial = sent > 0
		t.w.Shutdown()
	})
}

type c12adv struct {
	t              *trio
	zWire          map[wallet.BackendID]wire.Address
	virt           *virtInfo
	pendingProp    client.ProposalID
	pendingOver    chan struct{} // closed when the victim's proposal to Z has returned (timed out)
	pendingVersion uint64
	sentOnce       map[string]wire.Msg
	abandoned      channel.ID
}

// waitNoStalledSend lets every stalling send of the run end before a flood of
// answers is sent (see world.Bus.StalledSends).
func (a *c12adv) waitNoStalledSend() {
	for i := 0; i < 600 && a.t.w.Bus.StalledSends() > 0; i++ {
		time.Sleep(100 * time.Millisecond)
	}
}

func (a *c12adv) send(step int, st *kernel.Step) bool {
	t, s := a.t, a.t.s
	r := kernel.NewRand(kernel.Derive(uint64(st.Int("r")), "c12"))
	kind := st.Str("kind")
	fromZ := st.Int("from") == 1
	from, fromAcc := t.A.Wire, t.A.Acc.Addr
	if fromZ {
		from, fromAcc = a.zWire, gen.Pool(6)[5].Addr
	}
	if kind == "sprop:abandoned-then-funded" || kind == "sprop:completed-then-funded-late" || kind == "sprop:completed-then-funded-at-deadline" {
		// The counterparty proposes a sub-channel, lets the victim accept and
		// never sends its signature on the initial state; after the victim has
		// given up it sends the parent update that would have funded the
		// sub-channel. The sub-channel's ID follows from the two nonce shares,
		// both of which the sender knows after the acceptance; the harness reads
		// it from the victim's persistence record instead of re-deriving it.
		if fromZ {
			return false
		}
		created := len(t.H.Rec.CreatedList())
		m1 := a.build("sprop:ok-shape", r, from, fromAcc, false)
		if m1 == nil || t.w.Bus.Inject(&wire.Envelope{Sender: from, Recipient: t.H.Wire, Msg: m1}, s.Delay(fmt.Sprintf("inject:%d", step), 0, 100*time.Microsecond)) != nil {
			return false
		}
		s.Count("fault.msg.sprop:ok-shape", 1)
		for i := 0; i < 200 && len(t.H.Rec.CreatedList()) == created; i++ {
			time.Sleep(100 * time.Millisecond)
		}
		l := t.H.Rec.CreatedList()
		if len(l) == created {
			return true // the proposal was refused (e.g. the parent was locked): nothing to follow up
		}
		a.abandoned = l[len(l)-1]
		if kind != "sprop:abandoned-then-funded" {
			// the sender does complete the signature exchange on the initial state
			// (which follows from the proposal) and only the funding comes too late
			sp := m1.(*client.SubChannelProposalMsg)
			v0 := &channel.State{ID: a.abandoned, Version: 0, App: channel.NoApp(), Data: channel.NoData(), Allocation: sp.InitBals.Clone()}
			sig := &client.ChannelUpdateAccMsg{ChannelID: a.abandoned, Version: 0, Sig: signAs(t.A, v0)}
			if t.w.Bus.Inject(&wire.Envelope{Sender: from, Recipient: t.H.Wire, Msg: sig}, s.Delay(fmt.Sprintf("inject-sig:%d", step), 0, 100*time.Microsecond)) == nil {
				s.Count("fault.msg.sprop:initial-sig", 1)
			}
		}
		if kind == "sprop:completed-then-funded-at-deadline" {
			// the funding reaches the victim around the very instant at which it
			// gives up waiting for it (st "off_us": -1000..4000 us after that instant)
			if dl := t.H.LastPropDeadline(); dl > s.Now() {
				time.Sleep(dl - s.Now() + time.Duration(st.Int("off_us"))*time.Microsecond)
			}
			s.Count("fault.funding_at_the_victims_deadline", 1)
			if m := a.build("sprop:funding-of", r, from, fromAcc, false); m != nil {
				_ = t.w.Bus.Inject(&wire.Envelope{Sender: from, Recipient: t.H.Wire, Msg: m}, s.Delay(fmt.Sprintf("inject-fund:%d", step), 0, 20*time.Microsecond))
				s.Count("fault.msg.sprop:funding-of", 1)
			}
			time.Sleep(3 * time.Second)
			return true
		}
		time.Sleep(t.H.CtxTimeout + 2*time.Second) // the victim's opening attempt has timed out by now
		kind = "sprop:funding-of"
	}
	if kind == "lprop:abandoned-then-flood" {
		created := len(t.H.Rec.CreatedList())
		m1 := a.build("lprop:ok", r, from, fromAcc, fromZ)
		if m1 == nil || t.w.Bus.Inject(&wire.Envelope{Sender: from, Recipient: t.H.Wire, Msg: m1}, s.Delay(fmt.Sprintf("inject:%d", step), 0, 100*time.Microsecond)) != nil {
			return false
		}
		s.Count("fault.msg.lprop:ok", 1)
		for i := 0; i < 200 && len(t.H.Rec.CreatedList()) == created; i++ {
			time.Sleep(100 * time.Millisecond)
		}
		l := t.H.Rec.CreatedList()
		if len(l) == created {
			return true // the proposal was refused: nothing to follow up
		}
		id := l[len(l)-1]
		time.Sleep(t.H.CtxTimeout + 2*time.Second) // the victim's opening attempt has timed out by now
		n := r.Range(17, 40)
		a.waitNoStalledSend()
		for i := 0; i < n; i++ {
			var m wire.Msg = &client.ChannelUpdateAccMsg{ChannelID: id, Version: 0, Sig: r.Bytes(64)}
			if r.Bool(0.3) {
				m = &client.ChannelUpdateRejMsg{ChannelID: id, Version: 0, Reason: "no"}
			}
			if t.w.Bus.Inject(&wire.Envelope{Sender: from, Recipient: t.H.Wire, Msg: m}, s.Delay(fmt.Sprintf("inject:%d:%d", step, i), 0, 100*time.Microsecond)) != nil {
				return false
			}
		}
		s.Count("fault.msg."+kind, 1)
		s.Count("fault.initial_version_answers_after_abandoned_opening", int64(n))
		return true
	}
	if kind == "uresp:flood-after-failed-send" {
		// a connection fault makes one outgoing update of the victim fail while
		// it is being sent; the counterparty then answers that version many times
		ch := t.chAH[1]
		var failed uint64
		t.w.Bus.FailSend = func(from, to string, e *wire.Envelope) bool {
			u, ok := e.Msg.(*client.ChannelUpdateMsg)
			if ok && from == "H" && to == "A" && u.State.ID == ch.ID() && failed == 0 {
				failed = u.State.Version
				return true
			}
			return false
		}
		// (this send fails at once, also in runs whose failing sends stall: while
		// a send stalls its Update does not read answers yet, 17 of them fill its
		// receiver, the 18th parks under the relays' standard read locks until the
		// sender's context ends - and a goroutine waiting for such a lock is not
		// blocked in the eyes of the simulated clock (rule R3), so that end would
		// never come: a stall of the simulation, not of the client)
		stallP := t.w.Bus.StallSendP
		t.w.Bus.StallSendP = 0
		err := t.payOn(t.H, ch, 1, false, 20*time.Second)
		t.w.Bus.FailSend, t.w.Bus.StallSendP = nil, stallP
		if failed == 0 {
			return false // the update never reached the bus (the channel was busy or closed)
		}
		s.Note("victim's update v%d failed in send: %v", failed, err)
		n := r.Range(17, 40)
		a.waitNoStalledSend()
		for i := 0; i < n; i++ {
			var m wire.Msg = &client.ChannelUpdateRejMsg{ChannelID: ch.ID(), Version: failed, Reason: "no"}
			if r.Bool(0.5) {
				m = &client.ChannelUpdateAccMsg{ChannelID: ch.ID(), Version: failed, Sig: r.Bytes(64)}
			}
			if t.w.Bus.Inject(&wire.Envelope{Sender: t.A.Wire, Recipient: t.H.Wire, Msg: m}, s.Delay(fmt.Sprintf("inject:%d:%d", step, i), 0, 100*time.Microsecond)) != nil {
				return false
			}
		}
		s.Count("fault.msg."+kind, 1)
		s.Count("fault.update_responses_after_failed_send", int64(n))
		return true
	}
	if kind == "presp:late-flood" {
		// Z, to whom the victim proposed a channel, stays silent until the victim
		// has given up and then answers: many times, accepting and refusing
		<-a.pendingOver
		zAcc := gen.Pool(6)[5].Addr
		n := r.Range(17, 40)
		a.waitNoStalledSend()
		for i := 0; i < n; i++ {
			var m wire.Msg = &client.LedgerChannelProposalAccMsg{BaseChannelProposalAcc: client.BaseChannelProposalAcc{ProposalID: a.pendingProp, NonceShare: client.NonceShare{byte(i)}}, Participant: zAcc}
			if r.Bool(0.3) {
				m = &client.ChannelProposalRejMsg{ProposalID: a.pendingProp, Reason: "too late"}
			}
			if t.w.Bus.Inject(&wire.Envelope{Sender: a.zWire, Recipient: t.H.Wire, Msg: m}, s.Delay(fmt.Sprintf("inject:%d:%d", step, i), 0, 100*time.Microsecond)) != nil {
				return false
			}
		}
		s.Count("fault.msg."+kind, 1)
		s.Count("fault.late_proposal_responses", int64(n))
		return true
	}
	msg := a.build(kind, r, from, fromAcc, fromZ)
	if msg == nil {
		s.Count("probe.unbuildable", 1)
		return false
	}
	env := &wire.Envelope{Sender: from, Recipient: t.H.Wire, Msg: msg}
	if err := t.w.Bus.Inject(env, s.Delay(fmt.Sprintf("inject:%d", step), 0, 100*time.Microsecond)); err != nil {
		s.Count("probe.undecodable", 1)
		s.Note("%s not decodable: %v", kind, err)
		return false
	}
	s.Count("fault.msg."+kind, 1)
	return true
}

func alloc1(parts int, assets int) *channel.Allocation {
	a := &channel.Allocation{}
	for i := 0; i < assets; i++ {
		a.Assets = append(a.Assets, gen.Asset(i))
		a.Backends = append(a.Backends, channel.TestBackendID)
		row := make([]channel.Bal, parts)
		for j := range row {
			row[j] = big.NewInt(3)
		}
		a.Balances = append(a.Balances, row)
	}
	return a
}

func pid(r *kernel.Rand) (id client.ProposalID) {
	copy(id[:], r.Bytes(32))
	return
}

func (a *c12adv) build(kind string, r *kernel.Rand, from map[wallet.BackendID]wire.Address, fromAcc map[wallet.BackendID]wallet.Address, fromZ bool) wire.Msg {
	t := a.t
	H := t.H
	hch := t.chAH[1] // H's controller of A-H
	// never touch the controllers here: Channel.State() takes the machine
	// lock, which H may hold with a pending request; use the recorded streams
	lastOf := func(n *world.Node, id channel.ID) *channel.State {
		l := n.Rec.EnabledOf(id)
		if len(l) == 0 {
			return nil
		}
		return l[len(l)-1].State.Clone()
	}
	cur := lastOf(H, hch.ID())
	if cur == nil {
		return nil
	}
	nA := len(cur.Assets)
	peers := []map[wallet.BackendID]wire.Address{from, H.Wire}
	base := func(al *channel.Allocation, cd uint64) client.BaseChannelProposal {
		var ns client.NonceShare
		copy(ns[:], r.Bytes(32))
		return client.BaseChannelProposal{ProposalID: pid(r), ChallengeDuration: cd, NonceShare: ns, App: channel.NoApp(), InitData: channel.NoData(),
			InitBals: al, FundingAgreement: al.Balances.Clone()}
	}
	signA := func(st *channel.State) wallet.Sig { return signAs(t.A, st) }
	next := func() *channel.State {
		c := cur.Clone()
		c.Version++
		return c
	}
	// mutLocked rearranges the sub-allocations that the current state already
	// holds (what: drop-all, drop-first, swap, dup); funds of dropped entries go
	// back to the sender's balance so that the sums still match.
	mutLocked := func(st *channel.State, what string) {
		n := len(cur.Locked)
		if n == 0 {
			return
		}
		giveBack := func(sa channel.SubAlloc) {
			for i := range sa.Bals {
				if i < len(st.Balances) {
					st.Balances[i][0].Add(st.Balances[i][0], sa.Bals[i])
				}
			}
		}
		switch what {
		case "drop-all":
			for _, sa := range st.Locked[:n] {
				giveBack(sa)
			}
			st.Locked = append([]channel.SubAlloc{}, st.Locked[n:]...)
		case "drop-first":
			giveBack(st.Locked[0])
			st.Locked = append([]channel.SubAlloc{}, st.Locked[1:]...)
		case "swap":
			if n >= 2 {
				st.Locked[0], st.Locked[n-1] = st.Locked[n-1], st.Locked[0]
			} else if len(st.Locked) >= 2 {
				st.Locked[0], st.Locked[1] = st.Locked[1], st.Locked[0]
			}
		case "dup":
			st.Locked = append(st.Locked, st.Locked[0])
		}
	}
	lockedMut := func(kind string) string {
		if i := strings.Index(kind, ":locked-"); i >= 0 {
			return kind[i+len(":locked-"):]
		}
		return ""
	}
	vParams := func(parts int) *channel.Params {
		accs := gen.Pool(6)
		ps := []*gen.Acc{accs[0], accs[2], accs[4]}[:parts]
		// (any non-zero challenge duration is legal, also one of decades)
		cd := []uint64{10, 10, 10, 1, 3600, 1 << 30, 1 << 62}[r.Intn(7)]
		return gen.Params(ps, cd, gen.AppNone, 900+r.Uint64()%50, false, true)
	}
	vState := func(p *channel.Params, parts int) *channel.State {
		return &channel.State{ID: p.ID(), Version: 0, App: channel.NoApp(), Data: channel.NoData(), Allocation: *alloc1(parts, nA)}
	}
	switch kind {
	// ---- ledger proposals ---------------------------------------------------------
	case "lprop:ok":
		return &client.LedgerChannelProposalMsg{BaseChannelProposal: base(alloc1(2, 1), 5), Participant: fromAcc, Peers: peers}
	case "lprop:participant-empty":
		return &client.LedgerChannelProposalMsg{BaseChannelProposal: base(alloc1(2, 1), 5), Participant: map[wallet.BackendID]wallet.Address{}, Peers: peers}
	case "upd:virtual-id":
		if a.virt == nil {
			return nil
		}
		st := lastOf(t.A, a.virt.id)
		if st == nil {
			return nil
		}
		st.Version++
		// (sent to the hub, which holds a copy of the virtual channel: the actor
		// is A's index in the virtual channel)
		return &client.ChannelUpdateMsg{ChannelUpdate: client.ChannelUpdate{State: st, ActorIdx: a.virt.a.Idx()}, Sig: signA(st)}
	case "sprop:funding-of":
		// second half of sprop:abandoned-then-funded: the parent update that funds sub-channel a.abandoned
		al := alloc1(2, nA)
		st := next()
		for i := range st.Balances {
			for j := range st.Balances[i] {
				if st.Balances[i][j].Cmp(al.Balances[i][j]) < 0 {
					return nil
				}
				st.Balances[i][j].Sub(st.Balances[i][j], al.Balances[i][j])
			}
		}
		st.Locked = append(st.Locked, *channel.NewSubAlloc(a.abandoned, al.Sum(), nil))
		return &client.ChannelUpdateMsg{ChannelUpdate: client.ChannelUpdate{State: st, ActorIdx: 0}, Sig: signA(st)}
	case "lprop:one-part":
		return &client.LedgerChannelProposalMsg{BaseChannelProposal: base(alloc1(1, 1), 5), Participant: fromAcc, Peers: peers}
	case "lprop:zero-challenge":
		return &client.LedgerChannelProposalMsg{BaseChannelProposal: base(alloc1(2, 1), 0), Participant: fromAcc, Peers: peers}
	case "lprop:peers-3":
		return &client.LedgerChannelProposalMsg{BaseChannelProposal: base(alloc1(2, 1), 5), Participant: fromAcc, Peers: append(peers, a.zWire)}
	case "lprop:bals-3parts":
		return &client.LedgerChannelProposalMsg{BaseChannelProposal: base(alloc1(3, 1), 5), Participant: fromAcc, Peers: peers}
	case "lprop:agreement-assets":
		b := base(alloc1(2, 1), 5)
		b.FundingAgreement = alloc1(2, 2).Balances
		return &client.LedgerChannelProposalMsg{BaseChannelProposal: b, Participant: fromAcc, Peers: peers}
	case "lprop:agreement-parts":
		b := base(alloc1(2, 1), 5)
		b.FundingAgreement = alloc1(1, 1).Balances
		return &client.LedgerChannelProposalMsg{BaseChannelProposal: b, Participant: fromAcc, Peers: peers}
	case "lprop:prelocked":
		al := alloc1(2, 1)
		al.Locked = []channel.SubAlloc{*channel.NewSubAlloc(gen.SubID(1), []channel.Bal{big.NewInt(1)}, nil)}
		return &client.LedgerChannelProposalMsg{BaseChannelProposal: base(al, 5), Participant: fromAcc, Peers: peers}
	case "lprop:mock-app-data":
		b := base(alloc1(2, 1), 5)
		b.App, b.InitData = gen.PaymentApp(0), channel.NoData()
		return &client.LedgerChannelProposalMsg{BaseChannelProposal: b, Participant: fromAcc, Peers: peers}
	// ---- sub-channel proposals ----------------------------------------------------
	case "sprop:ok-shape", "sprop:unknown-parent", "sprop:assets-mismatch", "sprop:more-assets", "sprop:too-many-funds", "sprop:bals-3parts":
		al := alloc1(2, nA)
		parent := hch.ID()
		switch kind {
		case "sprop:unknown-parent":
			parent = gen.SubID(r.Uint64())
		case "sprop:assets-mismatch":
			al.Assets[0] = gen.Asset(44)
		case "sprop:more-assets":
			al = alloc1(2, nA+1)
		case "sprop:too-many-funds":
			al.Balances[0][1] = new(big.Int).Add(cur.Balances[0][1], big.NewInt(1))
		case "sprop:bals-3parts":
			al = alloc1(3, nA)
		}
		return &client.SubChannelProposalMsg{BaseChannelProposal: base(al, 5), Parent: parent}
	// ---- virtual channel proposals -------------------------------------------------
	case "vprop:proposer-empty", "vprop:ok-shape", "vprop:no-parents", "vprop:one-parent", "vprop:indexmaps-missing", "vprop:indexmap-long", "vprop:indexmap-entry", "vprop:bals-3parts", "vprop:agreement-dims":
		al := alloc1(2, nA)
		parents := []channel.ID{gen.SubID(5), hch.ID()}
		imaps := [][]channel.Index{{0, 1}, {0, 1}}
		b := base(al, 5)
		switch kind {
		case "vprop:no-parents":
			parents = nil
		case "vprop:one-parent":
			parents = parents[1:]
		case "vprop:indexmaps-missing":
			imaps = nil
		case "vprop:indexmap-long":
			imaps[1] = []channel.Index{0, 1, 1, 0}
		case "vprop:indexmap-entry":
			imaps[1] = []channel.Index{0, 7}
		case "vprop:bals-3parts":
			b = base(alloc1(3, nA), 5)
			parents = append(parents, gen.SubID(6))
			imaps = append(imaps, []channel.Index{0, 1, 1})
		case "vprop:agreement-dims":
			b.FundingAgreement = alloc1(3, nA).Balances
		}
		if kind == "vprop:proposer-empty" {
			fromAcc = map[wallet.BackendID]wallet.Address{}
		}
		return &client.VirtualChannelProposalMsg{BaseChannelProposal: b, Proposer: fromAcc, Peers: peers, Parents: parents, IndexMaps: imaps}
	// ---- proposal responses ---------------------------------------------------------
	case "pacc:ledger-unknown":
		return &client.LedgerChannelProposalAccMsg{BaseChannelProposalAcc: client.BaseChannelProposalAcc{ProposalID: pid(r)}, Participant: fromAcc}
	case "pacc:sub-unknown":
		return &client.SubChannelProposalAccMsg{BaseChannelProposalAcc: client.BaseChannelProposalAcc{ProposalID: pid(r)}}
	case "pacc:virtual-unknown":
		return &client.VirtualChannelProposalAccMsg{BaseChannelProposalAcc: client.BaseChannelProposalAcc{ProposalID: pid(r)}, Responder: fromAcc}
	case "prej:unknown":
		return &client.ChannelProposalRejMsg{ProposalID: pid(r), Reason: "no"}
	case "pacc:ledger-for-pending":
		return &client.LedgerChannelProposalAccMsg{BaseChannelProposalAcc: client.BaseChannelProposalAcc{ProposalID: a.pendingProp}, Participant: fromAcc}
	case "pacc:ledger-for-pending-empty-participant":
		return &client.LedgerChannelProposalAccMsg{BaseChannelProposalAcc: client.BaseChannelProposalAcc{ProposalID: a.pendingProp}, Participant: map[wallet.BackendID]wallet.Address{}}
	case "pacc:wrong-type-for-pending":
		return &client.SubChannelProposalAccMsg{BaseChannelProposalAcc: client.BaseChannelProposalAcc{ProposalID: a.pendingProp}}
	case "prej:for-pending":
		return &client.ChannelProposalRejMsg{ProposalID: a.pendingProp, Reason: strings.Repeat("x", r.Range(0, 300))}
	// ---- updates --------------------------------------------------------------------
	case "upd:valid", "upd:fewer-parts", "upd:more-parts", "upd:actor-max", "upd:version-max", "upd:garbage-sig", "upd:add-suballoc", "upd:final",
		"upd:locked-drop-all", "upd:locked-drop-first", "upd:locked-swap", "upd:locked-dup":
		st := next()
		actor := channel.Index(0)
		mutLocked(st, lockedMut(kind))
		switch kind {
		case "upd:fewer-parts":
			for i := range st.Balances {
				st.Balances[i][0].Add(st.Balances[i][0], st.Balances[i][1])
				st.Balances[i] = st.Balances[i][:1]
			}
		case "upd:more-parts":
			for i := range st.Balances {
				st.Balances[i] = append(st.Balances[i], new(big.Int))
			}
		case "upd:actor-max":
			actor = 65535
		case "upd:version-max":
			st.Version = ^uint64(0)
		case "upd:add-suballoc":
			bals := make([]channel.Bal, nA)
			for i := range bals {
				bals[i] = new(big.Int)
			}
			st.Locked = append(st.Locked, *channel.NewSubAlloc(gen.SubID(r.Uint64()%9), bals, []channel.Index{3, 9}))
		case "upd:final":
			st.IsFinal = true
		}
		sig := signA(st)
		if kind == "upd:garbage-sig" {
			sig = r.Bytes(r.Range(0, 70))
		}
		return &client.ChannelUpdateMsg{ChannelUpdate: client.ChannelUpdate{State: st, ActorIdx: actor}, Sig: sig}
	case "upd:other-channel":
		st := lastOf(H, t.chBH[1].ID())
		if st == nil {
			return nil
		}
		st.Version++
		return &client.ChannelUpdateMsg{ChannelUpdate: client.ChannelUpdate{State: st, ActorIdx: 0}, Sig: signA(st)}
	case "upd:unknown-channel":
		st := next()
		st.ID = gen.SubID(r.Uint64())
		st.Version = uint64(r.Intn(3))
		return &client.ChannelUpdateMsg{ChannelUpdate: client.ChannelUpdate{State: st, ActorIdx: 0}, Sig: signA(st)}
	// ---- update responses -------------------------------------------------------------
	case "uacc:unknown-version":
		return &client.ChannelUpdateAccMsg{ChannelID: hch.ID(), Version: cur.Version + uint64(r.Range(2, 9)), Sig: r.Bytes(64)}
	case "uacc:pending-garbage-sig", "uacc:pending-twice":
		return &client.ChannelUpdateAccMsg{ChannelID: hch.ID(), Version: cur.Version + 1, Sig: r.Bytes(64)}
	case "urej:unknown-version":
		return &client.ChannelUpdateRejMsg{ChannelID: hch.ID(), Version: cur.Version + uint64(r.Range(2, 9)), Reason: "no"}
	case "uacc:unknown-channel":
		return &client.ChannelUpdateAccMsg{ChannelID: gen.SubID(r.Uint64()), Version: 1, Sig: r.Bytes(64)}
	case "urej:pending":
		return &client.ChannelUpdateRejMsg{ChannelID: hch.ID(), Version: cur.Version + 1, Reason: "no"}
	// ---- virtual channel funding ---------------------------------------------------------
	case "vfund:ok-shape", "vfund:valid-unmatched", "vfund:state-3parts", "vfund:indexmap-short", "vfund:indexmap-entry", "vfund:sigs-nil", "vfund:not-virtual", "vfund:state-other-id", "vfund:unknown-channel", "vfund:assets-mismatch", "vfund:twice",
		"vfund:locked-drop-all", "vfund:locked-drop-first", "vfund:locked-swap", "vfund:locked-dup", "vfund:state-1part":
		parts := 2
		if kind == "vfund:state-3parts" {
			parts = 3
		}
		if kind == "vfund:state-1part" {
			parts = 1
		}
		vp := vParams(2)
		vs := vState(vp, parts)
		imap := []channel.Index{0, 1}
		switch kind {
		case "vfund:indexmap-short":
			imap = []channel.Index{0}
		case "vfund:indexmap-entry":
			imap = []channel.Index{0, 9}
		case "vfund:not-virtual":
			vp = gen.Params(gen.Pool(3)[:2], 10, gen.AppNone, 800+r.Uint64()%50, false, false)
			vs = vState(vp, 2)
		case "vfund:state-other-id":
			vs.ID[0] ^= 1
		case "vfund:assets-mismatch":
			vs.Assets[0] = gen.Asset(66)
		}
		st := next()
		tot := gen.Totals(&vs.Allocation)
		if kind == "vfund:valid-unmatched" {
			// every participant of the virtual channel is debited by its own share
			ok := true
			for i := range vs.Balances {
				for j, b := range vs.Balances[i] {
					ok = ok && st.Balances[i][imap[j]].Cmp(b) >= 0
				}
			}
			if !ok {
				return nil
			}
			for i := range vs.Balances {
				for j, b := range vs.Balances[i] {
					st.Balances[i][imap[j]].Sub(st.Balances[i][imap[j]], b)
				}
			}
		} else {
			for i := range tot {
				if st.Balances[i][0].Cmp(tot[i]) >= 0 {
					st.Balances[i][0].Sub(st.Balances[i][0], tot[i])
				} else {
					tot[i] = new(big.Int)
				}
			}
		}
		st.Locked = append(st.Locked, channel.SubAlloc{ID: vp.ID(), Bals: tot, IndexMap: imap})
		mutLocked(st, lockedMut(kind))
		if kind == "vfund:unknown-channel" {
			st.ID = gen.SubID(r.Uint64())
		}
		if kind == "vfund:state-1part" {
			parts = 2 // one signature per participant of the parameters
		}
		sigs := make([]wallet.Sig, parts)
		if kind != "vfund:sigs-nil" {
			accs := gen.Pool(6)
			for i, ac := range []*gen.Acc{accs[0], accs[2], accs[4]}[:parts] {
				sigs[i], _ = channel.Sign(ac.Acc, vs, channel.TestBackendID)
			}
		}
		return &client.VirtualChannelFundingProposalMsg{
			ChannelUpdateMsg: client.ChannelUpdateMsg{ChannelUpdate: client.ChannelUpdate{State: st, ActorIdx: 0}, Sig: signA(st)},
			Initial:          channel.SignedState{Params: vp, State: vs, Sigs: sigs}, IndexMap: imap}
	// ---- virtual channel settlement ---------------------------------------------------------
	case "vsettle:unknown-virtual", "vsettle:state-3parts", "vsettle:sigs-nil", "vsettle:other-id", "vsettle:twice",
		"vsettle:locked-drop-all", "vsettle:locked-drop-first", "vsettle:locked-swap", "vsettle:state-1part":
		parts := 2
		if kind == "vsettle:state-3parts" {
			parts = 3
		}
		if kind == "vsettle:state-1part" {
			parts = 1
		}
		vp := vParams(2)
		vs := vState(vp, parts)
		vs.IsFinal = true
		if a.virt != nil && kind != "vsettle:unknown-virtual" && parts == 2 {
			// the honest virtual channel between A and B: A presents a final state signed only by itself
			vp = a.virt.a.Params()
			if l := lastOf(t.A, a.virt.id); l != nil {
				vs = l
			}
			vs.Version++
			vs.IsFinal = true
		}
		if kind == "vsettle:other-id" {
			vs.ID[3] ^= 1
		}
		st := next()
		if la, ok := st.SubAlloc(vp.ID()); ok {
			_ = st.RemoveSubAlloc(la)
			for i := range la.Bals {
				st.Balances[i][0].Add(st.Balances[i][0], la.Bals[i])
			}
		}
		if m := lockedMut(kind); m != "" {
			// applied to what is left after the settled entry was removed
			curSaved := cur
			cur = st
			mutLocked(st, m)
			cur = curSaved
		}
		if kind == "vsettle:state-1part" {
			parts = 2
		}
		sigs := make([]wallet.Sig, parts)
		if kind != "vsettle:sigs-nil" {
			for i := range sigs {
				sigs[i] = signA(vs)
			}
		}
		return &client.VirtualChannelSettlementProposalMsg{
			ChannelUpdateMsg: client.ChannelUpdateMsg{ChannelUpdate: client.ChannelUpdate{State: st, ActorIdx: 0}, Sig: signA(st)},
			Final:            channel.SignedState{Params: vp, State: vs, Sigs: sigs}}
	case "vsettle:names-sub-channel":
		// Final = the fully signed current state of the honest sub-channel (the
		// counterparty holds both signatures), parent update = balance-preserving
		// removal of its sub-allocation
		if t.subAH[0] == nil || fromZ {
			return nil
		}
		sub := t.subAH[0]
		l := t.A.Rec.EnabledOf(sub.ID())
		if len(l) == 0 {
			return nil
		}
		last := l[len(l)-1]
		st := next()
		la, ok := st.SubAlloc(sub.ID())
		if !ok || st.RemoveSubAlloc(la) != nil {
			return nil
		}
		for i := range st.Balances {
			for j := range st.Balances[i] {
				if i < len(last.State.Balances) && j < len(last.State.Balances[i]) {
					st.Balances[i][j].Add(st.Balances[i][j], last.State.Balances[i][j])
				}
			}
		}
		return &client.VirtualChannelSettlementProposalMsg{
			ChannelUpdateMsg: client.ChannelUpdateMsg{ChannelUpdate: client.ChannelUpdate{State: st, ActorIdx: 0}, Sig: signA(st)},
			Final:            channel.SignedState{Params: sub.Params(), State: last.State.Clone(), Sigs: last.Sigs}}
	// ---- sync ----------------------------------------------------------------------------------
	case "sync:nil-state":
		return &client.ChannelSyncMsg{Phase: channel.Acting}
	case "sync:current", "sync:while-locked":
		return &client.ChannelSyncMsg{Phase: channel.Acting, CurrentTX: channel.Transaction{State: cur.Clone(), Sigs: make([]wallet.Sig, 2)}}
	case "sync:unknown-channel":
		st := cur.Clone()
		st.ID = gen.SubID(r.Uint64())
		return &client.ChannelSyncMsg{Phase: channel.Signing, CurrentTX: channel.Transaction{State: st, Sigs: make([]wallet.Sig, 2)}}
	case "sync:phase-garbage":
		return &client.ChannelSyncMsg{Phase: channel.Phase(200), CurrentTX: channel.Transaction{State: cur.Clone(), Sigs: make([]wallet.Sig, 2)}}
	}
	return nil
}
