package worldeng

import (
	"bytes"
	"context"
	"fmt"
	"testing"
	"time"

	"perun.network/go-perun/channel"
	"perun.network/go-perun/client"
	"perun.network/go-perun/wallet"
	"perun.network/go-perun/wire"

	"verif/sim/gen"
	"verif/sim/kernel"
	"verif/sim/world"
)

// ---- C06: update protocol agreement ------------------------------------------

func genC06(r *kernel.Rand, tier string) *kernel.Scenario {
	sc := &kernel.Scenario{Config: map[string]int64{}}
	c := sc.Config
	c["ser"] = int64(r.Intn(2))
	c["fifo"] = int64(r.Intn(2))
	c["async_bus"] = int64(r.Intn(2))
	c["bus_max_us"] = int64([]int{100, 400, 2000}[r.Intn(3)])
	c["bus_ack_max_us"] = int64([]int{0, 0, 100, 3000}[r.Intn(4)])
	c["react_max_us"] = int64([]int{50, 500, 3000}[r.Intn(3)])
	c["accept_pct"] = int64([]int{100, 80, 50}[r.Intn(3)])
	nch := 1 + r.Weighted([]int{5, 3, 2})
	// configuration: 0 token (liveness oracle), 1 free concurrency, 2 relaxed with faults
	// 3 restart: persisted clients, one of them crashes (only its store survives) and is restarted
	mode := r.Weighted([]int{5, 3, 2, 2})
	c["mode"] = int64(mode)
	if mode == 3 {
		c["persist"] = 1
	}
	c["ctx_ms"] = 20000
	if mode == 2 {
		switch r.Intn(3) {
		case 0:
			c["drop_pm"] = int64(r.Range(20, 150))
		case 1:
			c["dup_pm"] = int64(r.Range(50, 300))
		case 2:
			c["drop_pm"], c["dup_pm"] = int64(r.Range(10, 80)), int64(r.Range(10, 80))
		}
		c["ctx_ms"] = int64([]int{5, 50, 2000}[r.Intn(3)])
		if r.Bool(0.4) {
			// handlers answer with a context that runs out around the time their
			// answer is on the wire (with a late return of Publish: after it was delivered)
			c["answer_ctx_max_us"] = int64([]int{500, 3000, 8000}[r.Intn(3)])
			c["async_bus"], c["bus_ack_max_us"] = 0, 3000
		}
		if r.Bool(0.25) {
			// no loss, no duplication: the deliveries go through the library's
			// own local bus, and handlers answer with nearly expired contexts
			c["real_localbus"], c["drop_pm"], c["dup_pm"] = 1, 0, 0
			c["answer_ctx_max_us"] = int64([]int{500, 3000, 8000}[r.Intn(3)])
			c["ctx_ms"] = int64([]int{50, 2000}[r.Intn(2)])
		}
	} else if mode == 0 && r.Bool(0.15) {
		c["real_localbus"] = 1
	}
	c["yield_pct"] = int64([]int{0, 30, 100}[r.Intn(3)])
	c["long_yields"] = int64(r.Intn(2))
	if (mode == 0 || mode == 1) && r.Bool(0.4) {
		if nch < 2 {
			nch = 2 + r.Intn(2)
		}
		if c["accept_pct"] == 100 {
			c["accept_pct"] = int64([]int{80, 50}[r.Intn(2)])
		}
		// eager: the channels are opened concurrently and a proposer issues updates
		// as soon as its own ProposeChannel has returned, without waiting for the
		// responder's Accept to return (first updates can overtake the
		// responder's opening)
		c["eager_open"] = 1
		if r.Bool(0.5) {
			c["yield_pct"], c["long_yields"] = 100, 1 // every lock boundary of the opening is a scheduling point
		}
		if r.Bool(0.15) {
			// many channels between the same two clients, all opened at once by the
			// same side, each with an immediate first update: more early updates
			// than any small cache of them holds
			nch = r.Range(10, 12)
			c["eager_many"] = 1
			c["ledger_max_us"] = 20000 // funding confirmations straggle, so the responder's openings complete late
		}
	}
	openers := make([]int, nch)
	for k := 0; k < nch; k++ {
		openers[k] = r.Intn(2)
		if c["eager_open"] == 1 && k > 0 && (r.Bool(0.7) || c["eager_many"] == 1) {
			openers[k] = openers[0] // overlapping openings at the same responder
		}
		sc.Steps = append(sc.Steps, kernel.St("open", "from", openers[k], "r", int64(r.Uint64()>>2), "app", r.Intn(2), "assets", 1+r.Intn(2)))
	}
	if c["eager_open"] == 1 {
		// each proposer pays at once on its new channel: the first update can
		// reach the responder before its side of the opening is complete
		for k := 0; k < nch; k++ {
			st := kernel.St("pay", "ch", k, "from", openers[k], "amt", 50+k, "gap_us", 0, "timeout_ms", c["ctx_ms"], "async", 1)
			if mode == 0 {
				st.A["token"] = 1
			}
			sc.Steps = append(sc.Steps, st)
		}
	}
	np := r.Range(1, 15)
	for i := 0; i < np; i++ {
		st := kernel.St("pay", "ch", r.Intn(nch), "from", r.Intn(2), "amt", 1+i, "gap_us", []int{0, 0, 1, 30, 300, 2000}[r.Intn(6)],
			"timeout_ms", c["ctx_ms"])
		if mode == 0 {
			st.A["token"] = 1
			st.A["async"] = int64(r.Intn(2))
		} else if mode == 3 {
			st.A["async"] = int64(r.Weighted([]int{3, 1}))
		} else {
			st.A["async"] = int64(r.Weighted([]int{1, 2}))
		}
		sc.Steps = append(sc.Steps, st)
	}
	if r.Bool(0.3) {
		// a party's software announces itself with a channel synchronisation
		// message for an open channel (as after a reconnect) while the update
		// program runs; the peer's client answers with its own view
		for k := r.Range(1, 3); k > 0; k-- {
			pos := nch + r.Intn(len(sc.Steps)-nch+1)
			sy := kernel.St("syncmsg", "ch", r.Intn(nch), "from", r.Intn(2), "delay_us", []int{0, 20, 150, 1000, 4000}[r.Intn(5)])
			sc.Steps = append(sc.Steps[:pos], append([]kernel.Step{sy}, sc.Steps[pos:]...)...)
		}
	}
	if mode == 3 {
		// crash points: between updates (after a synchronous step) or while one is in flight (after an asynchronous one)
		for k := r.Range(1, 2); k > 0; k-- {
			pos := nch + r.Intn(len(sc.Steps)-nch+1)
			cr := kernel.St("crash", "side", r.Intn(2), "delay_us", []int{0, 20, 150, 1000}[r.Intn(4)], "down_us", []int{10, 500, 5000}[r.Intn(3)])
			if r.Bool(0.4) {
				cr.A["pay_during_us"] = int64([]int{1, 50, 300, 1500}[r.Intn(4)])
			}
			sc.Steps = append(sc.Steps[:pos], append([]kernel.Step{cr}, sc.Steps[pos:]...)...)
		}
	}
	return sc
}

func execC06(t *testing.T, sc *kernel.Scenario, trace bool) *kernel.Result {
	return world.RunBubble(t, sc, trace, func(s *world.Sim) {
		p := newPair(s)
		if us := sc.Cfg("ledger_max_us", 0); us > 0 {
			p.w.Ledger.MaxLat = time.Duration(us) * time.Microsecond
			if sc.Cfg("eager_many", 0) == 1 {
				// the responder of the openings learns late that the funding is complete
				p.w.Ledger.ConfirmMax = time.Duration(us) * time.Microsecond
				for i := range sc.Steps {
					if sc.Steps[i].Op == "open" {
						p.w.Ledger.ConfirmOnly = p.n[1-int(sc.Steps[i].Int("from"))&1].Name
						break
					}
				}
			}
		}
		installYields(s)
		defer removeYields()
		mode := sc.Cfg("mode", 0)
		// every Enabled event: fully signed; versions of the two sides differ by at most one
		var hookEnable func(side int)
		hookEnable = func(side int) {
			p.n[side].Rec.OnEnable = func(r world.EnabledRec) {
				if !r.SigsOK {
					s.Fail("C06.enabled-not-fully-signed", "%s enabled %s v%d without a complete set of valid signatures", p.n[side].Name, s.ChanName(r.Ch), r.Version)
				}
				p.mu.Lock()
				peerRestarting := p.restarting[1-side]
				p.mu.Unlock()
				if mode != 2 && !peerRestarting {
					// (while the peer is being restarted its new instance already
					// answers, but the driver still looks at the old one's records)
					other := p.n[1-side].Rec.EnabledOf(r.Ch)
					if len(other) > 0 {
						ov := other[len(other)-1].Version
						d := int64(r.Version) - int64(ov)
						if d > 1 || d < -1 {
							p.mu.Lock()
							to := p.timeout
							p.mu.Unlock()
							if !to {
								s.Fail("C06.version-gap", "%s enabled v%d while the peer's newest is v%d", s.ChanName(r.Ch), r.Version, ov)
							}
						}
					}
				}
			}
		}
		hookEnable(0)
		hookEnable(1)
		for i := range sc.Steps {
			st := &sc.Steps[i]
			switch st.Op {
			case "open":
				if sc.Cfg("eager_open", 0) == 1 {
					p.eager = true
					p.wg.Add(1)
					start := s.Delay(fmt.Sprintf("driver:open-start:%d", i), 0, 200*time.Microsecond)
					go func() { defer p.wg.Done(); time.Sleep(start); p.open(i, int(st.Int("from"))&1, st) }()
				} else {
					p.open(i, int(st.Int("from"))&1, st)
				}
			case "crash":
				p.crashRestart(i, st, hookEnable)
			case "syncmsg":
				k, side := int(st.Int("ch")), int(st.Int("from"))&1
				// the answers are taken by the driver in the announcing party's place
				// (two library clients would answer each other's answers for ever)
				p.w.Bus.Sink = func(to string, e *wire.Envelope) bool {
					_, ok := e.Msg.(*client.ChannelSyncMsg)
					if ok {
						s.Count("probe.sync_reply_received", 1)
					}
					return ok
				}
				p.wg.Add(1)
				go func() {
					defer p.wg.Done()
					time.Sleep(time.Duration(st.Int("delay_us"))*time.Microsecond + s.Delay(fmt.Sprintf("driver:syncmsg:%d", i), 0, time.Microsecond))
					p.mu.Lock()
					var ch *client.Channel
					if k < len(p.chans) {
						ch = p.chans[k][side]
					}
					from, to := p.n[side], p.n[1-side]
					p.mu.Unlock()
					if ch == nil {
						return
					}
					msg := &client.ChannelSyncMsg{Phase: channel.Acting, CurrentTX: channel.Transaction{State: ch.State().Clone(), Sigs: make([]wallet.Sig, 2)}}
					if p.w.Bus.Inject(&wire.Envelope{Sender: from.Wire, Recipient: to.Wire, Msg: msg}, s.Delay(fmt.Sprintf("inject:syncmsg:%d", i), 0, 100*time.Microsecond)) == nil {
						s.Count("fault.sync_message_during_updates", 1)
					}
				}()
			case "pay":
				k := int(st.Int("ch"))
				side := int(st.Int("from")) & 1
				var ch *client.Channel
				for try := 0; ; try++ {
					p.mu.Lock()
					if k < len(p.chans) {
						ch = p.chans[k][side]
					}
					p.mu.Unlock()
					if ch != nil || !p.eager || try > 3000 {
						break
					}
					time.Sleep(20 * time.Microsecond) // eager: the opening (or this side's controller) is still under way
				}
				if ch == nil {
					continue // never opened, or lost in a crash (never restored)
				}
				to := time.Duration(st.Int("timeout_ms")) * time.Millisecond
				if to <= 0 {
					to = 20 * time.Second
				}
				run := func() {
					if st.Int("token") == 1 {
						tk := p.token(fmt.Sprint(k))
						<-tk
						defer func() { tk <- struct{}{} }()
					}
					p.pay(i, ch, side, st.Int("amt"), to, false)
				}
				if st.Int("async") == 1 {
					p.wg.Add(1)
					start := s.Delay(fmt.Sprintf("driver:start:%d", i), 0, 20*time.Microsecond)
					go func() { defer p.wg.Done(); time.Sleep(start); run() }()
				} else {
					run()
				}
				if g := st.Int("gap_us"); g > 0 {
					time.Sleep(time.Duration(g)*time.Microsecond + s.Delay(fmt.Sprintf("driver:gap:%d", i), 0, time.Microsecond))
				}
			}
		}
		p.wg.Wait()
		// quiescence: let responders finish enabling
		time.Sleep(200 * time.Millisecond)
		checkC06(p, sc)
		p.w.Shutdown()
	})
}

func checkC06(p *pair, sc *kernel.Scenario) {
	s := p.s
	mode := sc.Cfg("mode", 0)
	p.mu.Lock()
	ops := append([]*opRec{}, p.ops...)
	timedOut := p.timeout
	p.mu.Unlock()
	nOK, nRej, nTO := 0, 0, 0
	for _, o := range ops {
		if o.op != "pay" {
			continue
		}
		switch o.class {
		case "ok":
			nOK++
		case "rejected":
			nRej++
		case "timeout":
			nTO++
		}
	}
	s.Count("probe.update_ok", int64(nOK))
	s.Count("probe.update_rejected", int64(nRej))
	s.Count("probe.update_timeout", int64(nTO))
	// a run whose responder failed to send its answer also counts as "a request failed"
	for _, n := range p.n {
		for _, a := range n.UpdateAcks {
			if a.Err != nil {
				timedOut = true
			}
		}
	}
	strict := mode != 2 && mode != 3 && !timedOut
	if mode == 0 && nTO > 0 {
		// (6) token configuration: reliable delivery, one pending proposal per
		// channel, contexts far longer than all delays -> nothing may time out
		s.Fail("C06.token-timeout", "%d update request(s) timed out in the token configuration (a reply was lost inside the client)", nTO)
		return
	}
	if mode == 3 && !timedOut {
		// restart runs without a timed-out request: a successful Update whose
		// proposer (peer) instance was already running when it started must have
		// been enabled by that instance, whatever the restart and the channel
		// synchronisation it triggers were doing at that moment
		p.mu.Lock()
		born := p.born
		p.mu.Unlock()
		for _, o := range ops {
			if o.op != "pay" || o.class != "ok" {
				continue
			}
			find := func(l []world.EnabledRec) bool {
				for i := range l {
					if bytes.Equal(l[i].Enc, o.proposed) && l[i].SigsOK {
						return true
					}
				}
				return false
			}
			if o.start >= born[o.side] && !find(p.n[o.side].Rec.EnabledOf(o.ch)) {
				s.Fail("C06.success-not-enabled@proposer", "Update of %s v%d returned nil but the proposer did not enable the proposed state with all signatures (restart run)", s.ChanName(o.ch), o.version)
				return
			}
			if o.start >= born[1-o.side] && born[o.side] <= o.start && !find(p.n[1-o.side].Rec.EnabledOf(o.ch)) {
				s.Fail("C06.success-not-enabled@peer", "Update of %s v%d returned nil but the peer never enabled the proposed state (restart run)", s.ChanName(o.ch), o.version)
				return
			}
			s.Count("probe.restart_run_success_judged", 1)
		}
	}
	if mode != 3 && !strict && sc.Cfg("dup_pm", 0) == 0 {
		// The success clause holds whatever timed out elsewhere: an Update that
		// returned nil had the peer's signature, the peer sends that signature
		// only with the state staged and enables it right afterwards - also when
		// its own context has run out meanwhile. Lost and late messages do not
		// change that. A duplicating network does: the sender's Publish can time
		// out (the responder then discards) while a copy still arrives - the
		// two-generals limit, outside the clause; so does a crash (mode 3).
		for _, o := range ops {
			if o.op != "pay" || o.class != "ok" {
				continue
			}
			has := func(l []world.EnabledRec) bool {
				for i := range l {
					if bytes.Equal(l[i].Enc, o.proposed) && l[i].SigsOK {
						return true
					}
				}
				return false
			}
			if !has(p.n[o.side].Rec.EnabledOf(o.ch)) {
				s.Fail("C06.success-not-enabled@proposer", "Update of %s v%d returned nil but the proposer did not enable the proposed state with all signatures (relaxed run)", s.ChanName(o.ch), o.version)
				return
			}
			if !has(p.n[1-o.side].Rec.EnabledOf(o.ch)) {
				s.Fail("C06.success-not-enabled@peer", "Update of %s v%d returned nil but the peer never enabled the proposed state (relaxed run)", s.ChanName(o.ch), o.version)
				return
			}
			s.Count("probe.relaxed_run_success_judged", 1)
		}
	}
	if !strict {
		s.Count("probe.relaxed_run", 1)
		return
	}
	s.Count("probe.strict_run", 1)
	concurrent := false
	for i, a := range ops {
		for _, b := range ops[i+1:] {
			if a.op == "pay" && b.op == "pay" && a.start < b.end && b.start < a.end {
				concurrent = true
			}
		}
	}
	if concurrent {
		s.Count("probe.strict_run_with_overlapping_updates", 1)
	}
	for _, o := range ops {
		if o.op != "pay" {
			continue
		}
		cname := s.ChanName(o.ch)
		mine := p.n[o.side].Rec.EnabledOf(o.ch)
		theirs := p.n[1-o.side].Rec.EnabledOf(o.ch)
		find := func(l []world.EnabledRec) *world.EnabledRec {
			for i := range l {
				if bytes.Equal(l[i].Enc, o.proposed) {
					return &l[i]
				}
			}
			return nil
		}
		switch o.class {
		case "ok":
			m := find(mine)
			if m == nil || !m.SigsOK {
				s.Fail("C06.success-not-enabled@proposer", "Update of %s v%d returned nil but the proposer did not enable the proposed state with all signatures", cname, o.version)
				return
			}
			if th := find(theirs); th == nil {
				s.Fail("C06.success-not-enabled@peer", "Update of %s v%d returned nil but the peer never enabled the proposed state", cname, o.version)
				return
			}
			for _, e := range theirs {
				if e.Version == o.version && !bytes.Equal(e.Enc, o.proposed) {
					s.Fail("C06.peer-other-state", "peer enabled a different state as %s v%d", cname, o.version)
					return
				}
			}
		case "rejected":
			if find(mine) != nil || find(theirs) != nil {
				s.Fail("C06.rejected-but-enabled", "Update of %s v%d was rejected but the state was enabled", cname, o.version)
				return
			}
			after := p.n[o.side].Rec.EnabledOf(o.ch)
			_ = after
		case "error":
			s.Fail("C06.unexpected-error", "Update of %s v%d failed with an unexpected error: %v", cname, o.version, o.err)
			return
		}
	}
	// (4) no two different states of one version fully signed anywhere
	for k, id := range p.ids {
		byVer := map[uint64][]byte{}
		for side := 0; side < 2; side++ {
			for _, e := range p.n[side].Rec.EnabledOf(id) {
				if prev, ok := byVer[e.Version]; ok && !bytes.Equal(prev, e.Enc) {
					s.Fail("C06.fork", "two different fully signed states of %s v%d", s.ChanName(id), e.Version)
					return
				}
				byVer[e.Version] = e.Enc
			}
		}
		// (5) accepted by the responder => enabled by the responder
		for side := 0; side < 2; side++ {
			for _, a := range p.n[side].UpdateAcks {
				if a.Ch != id || !a.Accepted || a.Err != nil {
					continue
				}
				found := false
				for _, e := range p.n[side].Rec.EnabledOf(id) {
					found = found || e.Version == a.Version
				}
				if !found {
					s.Fail("C06.accept-not-enabled", "%s accepted %s v%d without enabling it", p.n[side].Name, s.ChanName(id), a.Version)
					return
				}
			}
		}
		// both sides agree at quiescence and are ready for further updates
		a, b := p.chans[k][0], p.chans[k][1]
		if a == nil || b == nil {
			s.Fail("C06.responder-without-channel", "ProposeChannel returned a funded channel %s but the responder never obtained its controller", s.ChanName(id))
			return
		}
		sa, sb := a.State(), b.State()
		if mode != 3 {
			// what a controller holds in memory is the last state it enabled
			for side, st := range []*channel.State{sa, sb} {
				if l := p.n[side].Rec.EnabledOf(id); len(l) > 0 && !bytes.Equal(gen.EncodeState(st), l[len(l)-1].Enc) {
					s.Fail("C06.current-state-changed-without-update", "%s's current state of %s (v%d) is not the state it enabled last", p.n[side].Name, s.ChanName(id), st.Version)
					return
				}
			}
		}
		if sa.Version != sb.Version || sa.Equal(sb) != nil {
			s.Fail("C06.diverged", "at quiescence %s is at v%d on A and v%d on B", s.ChanName(id), sa.Version, sb.Version)
			return
		}
		if pa, pb := a.Phase(), b.Phase(); pa != channel.Acting || pb != channel.Acting {
			s.Fail("C06.not-acting", "at quiescence %s is in phase %v / %v", s.ChanName(id), pa, pb)
			return
		}
		// probe from the side that proposed last (or A)
		side := k % 2
		o := p.pay(-1, p.chans[k][side], side, 0, 20*time.Second, false)
		if o.class != "ok" {
			s.Fail("C06.probe-failed", "probe update on %s after the program failed: %v", s.ChanName(id), o.err)
			return
		}
	}
	if nOK > 0 && (nRej > 0 || concurrent) {
		s.Res.NonTrivial = true
	}
}

// crashRestart crashes one client at a drawn instant (only its store
// survives), keeps it down for a while, restarts it from a copy of the store
// as of the crash and re-attaches the restored channel controllers.
func (p *pair) crashRestart(step int, st *kernel.Step, hookEnable func(side int)) {
	s := p.s
	side := int(st.Int("side")) & 1
	old := p.n[side]
	if old.DB == nil {
		return
	}
	time.Sleep(time.Duration(st.Int("delay_us"))*time.Microsecond + s.Delay(fmt.Sprintf("crash:delay:%d", step), 0, time.Microsecond))
	// was anything in flight on this pair at the crash instant? (omniscient driver)
	p.mu.Lock()
	inflight := false
	for _, o := range p.ops {
		_ = o
	}
	p.mu.Unlock()
	p.mu.Lock()
	p.restarting[side] = true
	p.mu.Unlock()
	defer func() {
		p.mu.Lock()
		p.restarting[side] = false
		p.mu.Unlock()
	}()
	snap := old.Crash()
	s.Count("fault.crash_restart", 1)
	time.Sleep(time.Duration(st.Int("down_us"))*time.Microsecond + s.Delay(fmt.Sprintf("crash:down:%d", step), 0, time.Microsecond))
	p.mu.Lock()
	p.born[side] = s.Now()
	p.mu.Unlock()
	if d := st.Int("pay_during_us"); d > 0 {
		// the surviving party issues an update while its peer is being restored
		// (and synchronises the channels with it)
		p.mu.Lock()
		var ch *client.Channel
		if len(p.chans) > 0 {
			ch = p.chans[0][1-side]
		}
		p.mu.Unlock()
		if ch != nil {
			p.wg.Add(1)
			go func() {
				defer p.wg.Done()
				time.Sleep(time.Duration(d)*time.Microsecond + s.Delay(fmt.Sprintf("crash:pay-during:%d", step), 0, time.Microsecond))
				s.Count("fault.update_during_peer_restart", 1)
				p.pay(step, ch, 1-side, 700+int64(step), 20*time.Second, false)
			}()
		}
	}
	// the store as of the crash: every channel's current transaction must be fully signed
	nn, err := old.Restart(snap)
	if err != nil {
		s.Fail("C06.restore-failed", "restoring %s from its store failed: %v", old.Name, err)
		return
	}
	p.installPolicies(nn)
	p.n[side] = nn
	hookEnable(side)
	p.mu.Lock()
	for k, id := range p.ids {
		p.chans[k][side] = nn.Chan(id) // nil if the store had no complete record of it yet
	}
	p.mu.Unlock()
	for _, ch := range nn.Chans {
		rc, err := nn.Rec.PersistRestorer.RestoreChannel(context.Background(), ch.ID())
		if err != nil {
			s.Fail("C06.restored-channel-unreadable", "%s: RestoreChannel(%s) failed right after Restore: %v", nn.Name, s.ChanName(ch.ID()), err)
			return
		}
		if cur := rc.CurrentTX(); cur.State != nil {
			if world.VerifyAll(rc.Params(), cur.State, cur.Sigs) != nil {
				s.Fail("C06.restored-current-not-fully-signed", "%s restored %s v%d whose current transaction is not fully signed", nn.Name, s.ChanName(ch.ID()), cur.Version)
				return
			}
		}
	}
	_ = inflight
	s.Count("probe.channels_restored", int64(len(nn.Chans)))
}
