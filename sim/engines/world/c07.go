package worldeng

import (
	"bytes"
	"context"
	"fmt"
	"math/big"
	"sync"
	"testing"
	"time"

	"perun.network/go-perun/channel"
	"perun.network/go-perun/client"
	"perun.network/go-perun/wallet"
	"perun.network/go-perun/wire"

	"verif/sim/gen"
	"verif/sim/kernel"
	"verif/sim/world"
)

// ---- C07: a client never countersigns an unsafe update -----------------------------
//
// Node A is the adversary's: a real client runs the honest parts of the
// protocol (opening channels, proposing sub-channels and updates) while the
// adversary edits A's outgoing update messages in flight and re-signs them
// with A's key. Node H is honest; its update handler accepts everything, so
// only the library's own checks protect it.

var c07OrdinaryMuts = []string{
	"none", "none",
	"state:id", "state:ver+2", "state:ver-same", "state:sum+1", "state:sum-1", "state:asset-replaced", "state:neg-balance", "state:app-swap",
	"state:parts-more", "state:parts-fewer", "state:final-flag", "state:steal",
	"sig:other-state", "sig:wrong-key", "sig:empty", "sig:garbage",
	"actor:other", "actor:out-of-range",
	"locked:add", "locked:remove", "locked:id", "locked:amount", "locked:indexmap", "locked:order",
}
var c07FundingMuts = []string{
	"none", "funding:debit-wrong-party", "funding:debit-only-peer", "funding:second-suballoc", "funding:indexmap-added", "funding:amount+1", "funding:other-id",
	"funding:touch-other-suballoc", "funding:actor-other", "sig:other-state",
	// two messages: the sub-channel proposal carries a funding agreement that
	// differs from its initial balances (H pays everything), and the funding
	// update debits accordingly
	"funding:debit-only-peer+agreement",
	// not an edit but a sequence: the funding update is held back, a payment to
	// H goes first, then the funding update computed from the state before
	// that payment is presented as the next version
	"funding:stale-after-payment",
	// the honest funding update goes through; right behind it comes an
	// "ordinary" update for the version after it that is built on the state
	// before the funding (no new sub-allocation, funds back in the balances)
	"funding:followed-by-stale-ordinary",
}
var c07SettleMuts = []string{
	"none", "settle:credit-wrong-party", "settle:keep-suballoc", "settle:remove-other-too", "settle:touch-other-suballoc-id", "settle:touch-other-suballoc-indexmap",
	"settle:actor-other", "sig:wrong-key",
	// the settlement credits the sub-channel's balances as they were before its
	// final update (which moved funds): same totals, other distribution
	"settle:credit-of-pre-final-state",
}

// (a sequence, not drawn from the list above: see the step craft-sub-close-retry)
const mutDiscardedFinal = "settle:credit-of-discarded-final"

func genC07(r *kernel.Rand) *kernel.Scenario {
	sc := &kernel.Scenario{Config: map[string]int64{}}
	c := sc.Config
	c["ser"] = int64(r.Intn(2))
	c["fifo"] = int64(r.Intn(2))
	c["async_bus"] = int64(r.Intn(2))
	c["bus_max_us"] = int64([]int{100, 400}[r.Intn(2)])
	c["react_max_us"] = int64([]int{50, 500}[r.Intn(2)])
	c["yield_pct"] = int64([]int{0, 30}[r.Intn(2)])
	c["long_yields"] = int64(r.Intn(2))
	c["ctx_ms"] = 4000
	app := r.Weighted([]int{3, 1})
	sc.Steps = append(sc.Steps, kernel.St("open", "from", 0, "r", int64(r.Uint64()>>2), "app", app, "assets", 1+r.Weighted([]int{3, 1}), "challenge", 5))
	nsub := 0
	n := r.Range(1, 9)
	amt := 1
	for i := 0; i < n; i++ {
		amt++
		switch k := r.Weighted([]int{3, 2, 1, 6, 3, 2}); {
		case k == 1 && nsub < 2 && app == 0:
			sc.Steps = append(sc.Steps, kernel.St("sub-open", "a", r.Range(1, 60), "b", r.Range(1, 60), "app", 0))
			nsub++
		case k == 2 && nsub > 0:
			sc.Steps = append(sc.Steps, kernel.St("sub-pay", "sub", r.Intn(nsub), "from", r.Intn(2), "amt", amt))
		case k == 3:
			sc.Steps = append(sc.Steps, kernel.St("craft", "mut", c07OrdinaryMuts[r.Intn(len(c07OrdinaryMuts))], "amt", amt, "r", int64(r.Uint64()>>2)))
		case k == 4 && nsub < 3 && app == 0:
			sc.Steps = append(sc.Steps, kernel.St("craft-sub-open", "mut", c07FundingMuts[r.Intn(len(c07FundingMuts))], "a", r.Range(1, 60), "b", r.Range(1, 60), "r", int64(r.Uint64()>>2)))
			nsub++
		case k == 5 && nsub > 0 && r.Bool(0.3):
			// a final update whose acceptance cannot be sent (connection fault), a
			// second, different final update, then a settlement crediting the first
			sc.Steps = append(sc.Steps, kernel.St("craft-sub-close-retry", "sub", r.Intn(nsub), "amt", amt, "amt2", amt+3+r.Intn(5), "second_by", r.Intn(2), "r", int64(r.Uint64()>>2)))
		case k == 5 && nsub > 0:
			sc.Steps = append(sc.Steps, kernel.St("craft-sub-close", "mut", c07SettleMuts[r.Intn(len(c07SettleMuts))], "sub", r.Intn(nsub), "amt", amt, "r", int64(r.Uint64()>>2)))
		default:
			sc.Steps = append(sc.Steps, kernel.St("pay", "from", r.Intn(2), "amt", amt))
		}
	}
	return sc
}

// craft is one armed in-flight mutation and what the harness learnt about it.
type craft struct {
	class   string // ordinary, funding, settlement
	mut     string
	ch      channel.ID
	r       *kernel.Rand
	armed   bool
	fired   bool
	before  *channel.State // H's current state of ch when the message was sent
	msg     *client.ChannelUpdateMsg
	sigOK   bool           // signature is A's over exactly msg.State
	sub     *channel.State // funded/settled channel's state as H holds it
	subID   channel.ID
	alt     *channel.State // settle:credit-of-discarded-final: the final state whose update was discarded
	accSeen bool           // H sent ChannelUpdateAcc for (ch, version)
	pending bool           // a multi-message craft is still under way
}

type c07state struct {
	p  *pair
	mu sync.Mutex
	cr *craft
}

func execC07(t *testing.T, sc *kernel.Scenario, trace bool) *kernel.Result {
	return world.RunBubble(t, sc, trace, func(s *world.Sim) {
		sc.Config["accept_pct"] = 100
		p := newPair(s)
		installYields(s)
		defer removeYields()
		A, H := p.n[0], p.n[1]
		_ = A
		H.CtxTimeout = 3 * time.Second
		st0 := &c07state{p: p}
		p.w.Bus.Intercept = st0.intercept
		p.w.Bus.Tap = func(from, to string, e *wire.Envelope, fate string) {
			if acc, ok := e.Msg.(*client.ChannelUpdateAccMsg); ok && from == "B" {
				st0.mu.Lock()
				if c := st0.cr; c != nil && c.fired && acc.ChannelID == c.ch && acc.Version == c.msg.State.Version {
					c.accSeen = true
				}
				st0.mu.Unlock()
			}
		}
		crafted := 0
		for i := range sc.Steps {
			st := &sc.Steps[i]
			if len(p.chans) == 0 && st.Op != "open" {
				continue
			}
			switch st.Op {
			case "open":
				if len(p.chans) == 0 {
					p.open(i, 0, st)
				}
			case "pay":
				side := int(st.Int("from")) & 1
				p.pay(i, p.chans[0][side], side, st.Int("amt"), 3*time.Second, false)
			case "sub-open":
				p.subOpen(i, st)
			case "sub-pay":
				if k := int(st.Int("sub")); k < len(p.subs) && !p.subs[k].closed {
					side := int(st.Int("from")) & 1
					p.pay(i, p.subs[k].chans[side], side, st.Int("amt"), 3*time.Second, false)
				}
			case "craft":
				crafted++
				st0.arm(&craft{class: "ordinary", mut: st.Str("mut"), ch: p.ids[0], r: kernel.NewRand(kernel.Derive(uint64(st.Int("r")), "craft"))})
				p.pay(i, p.chans[0][0], 0, st.Int("amt"), time.Second, false)
				if !st0.settle(i) {
					goto done
				}
			case "craft-sub-open":
				crafted++
				st0.arm(&craft{class: "funding", mut: st.Str("mut"), ch: p.ids[0], r: kernel.NewRand(kernel.Derive(uint64(st.Int("r")), "craft"))})
				p.subOpen(i, st)
				if !st0.settle(i) {
					goto done
				}
			case "craft-sub-close-retry":
				k := int(st.Int("sub"))
				if k >= len(p.subs) || p.subs[k].closed || p.subs[k].chans[0].Idx() != 0 {
					continue
				}
				si := &p.subs[k]
				// 1. a final update that H accepts but whose acceptance cannot be sent
				var first *channel.State
				failed := false
				prevTap := p.w.Bus.Tap
				p.w.Bus.Tap = func(from, to string, e *wire.Envelope, fate string) {
					if m, ok := e.Msg.(*client.ChannelUpdateMsg); ok && from == "A" && m.ID() == si.id && first == nil {
						first = m.State.Clone()
					}
					if prevTap != nil {
						prevTap(from, to, e, fate)
					}
				}
				p.w.Bus.FailSend = func(from, to string, e *wire.Envelope) bool {
					acc, ok := e.Msg.(*client.ChannelUpdateAccMsg)
					if ok && from == "B" && acc.ChannelID == si.id && !failed {
						failed = true
						return true
					}
					return false
				}
				if kernel.Derive(uint64(st.Int("r")), "send-stalls")%2 == 0 {
					// the acceptance is not refused at once: the connection stalls
					// until the accepting side's context ends (a context error)
					p.w.Bus.StallSendP = 1
				}
				o1 := p.pay(i, si.chans[0], 0, st.Int("amt"), time.Second, true)
				p.w.Bus.FailSend, p.w.Bus.Tap, p.w.Bus.StallSendP = nil, prevTap, 0
				if o1.class == "ok" || !failed || first == nil {
					continue // H's policy refused, or nothing to fail
				}
				time.Sleep(50 * time.Millisecond)
				// 2. a different final update, accepted and delivered
				by := int(st.Int("second_by")) & 1 // 1: the honest side itself proposes the second final state
				o2 := p.pay(i, si.chans[by], by, st.Int("amt2"), 3*time.Second, true)
				if o2.class != "ok" {
					continue
				}
				crafted++
				// 3. the settlement update credits the balances of the discarded final state
				st0.arm(&craft{class: "settlement", mut: mutDiscardedFinal, ch: p.ids[0], subID: si.id, alt: first, r: kernel.NewRand(kernel.Derive(uint64(st.Int("r")), "craft"))})
				errs := make(chan error, 2)
				for _, side := range []int{0, 1} {
					side := side
					go func() {
						ctx, cancel := context.WithTimeout(context.Background(), 3*time.Second+s.Delay(fmt.Sprintf("ctx:subsettle:%d:%d", i, side), 0, time.Millisecond))
						defer cancel()
						errs <- si.chans[side].Settle(ctx, side != 0)
					}()
					time.Sleep(s.Delay(fmt.Sprintf("driver:subsettle-gap:%d", i), 0, 300*time.Microsecond))
				}
				if e1, e2 := <-errs, <-errs; e1 == nil && e2 == nil {
					si.closed = true
				}
				if !st0.settle(i) {
					goto done
				}
			case "craft-sub-close":
				k := int(st.Int("sub"))
				if k >= len(p.subs) || p.subs[k].closed {
					continue
				}
				crafted++
				si := &p.subs[k]
				// the final update in the sub-channel is honest; the parent's settlement update is edited
				side0 := 0
				if si.chans[1].Idx() == 0 {
					side0 = 1
				}
				if side0 != 0 {
					continue // only A (node 0) can be edited
				}
				preFinal := si.chans[0].State().Clone()
				o := p.pay(i, si.chans[0], 0, st.Int("amt"), 3*time.Second, true)
				if o.class != "ok" {
					continue
				}
				st0.arm(&craft{class: "settlement", mut: st.Str("mut"), ch: p.ids[0], subID: si.id, alt: preFinal, r: kernel.NewRand(kernel.Derive(uint64(st.Int("r")), "craft"))})
				errs := make(chan error, 2)
				for _, side := range []int{0, 1} {
					side := side
					go func() {
						ctx, cancel := context.WithTimeout(context.Background(), 3*time.Second+s.Delay(fmt.Sprintf("ctx:subsettle:%d:%d", i, side), 0, time.Millisecond))
						defer cancel()
						errs <- si.chans[side].Settle(ctx, side != 0)
					}()
					time.Sleep(s.Delay(fmt.Sprintf("driver:subsettle-gap:%d", i), 0, 300*time.Microsecond))
				}
				e1, e2 := <-errs, <-errs
				if e1 == nil && e2 == nil {
					si.closed = true
				}
				if !st0.settle(i) {
					goto done
				}
			}
			if s.Failed() {
				break
			}
		}
	done:
		s.Count("probe.crafted", int64(crafted))
		s.Res.NonTrivial = crafted > 0
		time.Sleep(10 * time.Millisecond)
		p.w.Shutdown()
	})
}

func (c *c07state) arm(cr *craft) {
	c.mu.Lock()
	cr.armed = true
	c.cr = cr
	c.mu.Unlock()
}

// intercept edits the first ChannelUpdateMsg A sends on the target channel.
func (c *c07state) intercept(from, to string, e *wire.Envelope) (*wire.Envelope, bool) {
	if from != "A" || to != "B" { // node B plays the honest H
		return e, true
	}
	if sp, isProp := e.Msg.(*client.SubChannelProposalMsg); isProp {
		c.mu.Lock()
		cr := c.cr
		c.mu.Unlock()
		if cr != nil && cr.armed && cr.mut == "funding:debit-only-peer+agreement" && sp.Parent == cr.ch {
			fa := sp.InitBals.Balances.Clone()
			for a := range fa {
				if len(fa[a]) == 2 {
					fa[a][1] = new(big.Int).Add(fa[a][0], fa[a][1])
					fa[a][0] = new(big.Int)
				}
			}
			sp.FundingAgreement = fa
			c.p.s.Event("ADV", "adv:craft", "sub-channel proposal with a funding agreement that differs from its initial balances")
		}
		return e, true
	}
	m, ok := e.Msg.(*client.ChannelUpdateMsg)
	if !ok {
		return e, true
	}
	c.mu.Lock()
	cr := c.cr
	if cr == nil || !cr.armed || m.ID() != cr.ch {
		c.mu.Unlock()
		return e, true
	}
	cr.armed = false
	c.mu.Unlock()
	p := c.p
	// The predecessor is the sender's own current state: A is inside its
	// Update call, whose base both sides have signed. (H's Enabled stream may
	// lag by one entry at this instant: H records the enable only after its
	// acceptance message has been delivered.)
	hist := p.n[0].Rec.EnabledOf(cr.ch)
	if len(hist) == 0 {
		return e, true
	}
	before := hist[len(hist)-1].State
	cr.before = before.Clone()
	// the sub-channel in question, as H holds it
	if cr.class == "funding" {
		// the sub-channel whose allocation the honest message adds
		for _, la := range m.State.Locked {
			if _, had := before.SubAlloc(la.ID); !had {
				cr.subID = la.ID
			}
		}
	}
	if cr.mut == "funding:followed-by-stale-ordinary" {
		c.mu.Lock()
		cr.pending = true
		c.mu.Unlock()
		go c.staleOrdinary(cr, m, before.Clone())
		return e, true // the honest funding update is delivered unchanged
	}
	if cr.mut == "funding:stale-after-payment" {
		c.mu.Lock()
		cr.pending = true
		c.mu.Unlock()
		go c.staleFunding(cr, m, before.Clone())
		return e, false // the honest funding update never arrives
	}
	c.mutate(cr, m, before)
	cr.msg = m
	if ok, err := channel.Verify(p.n[0].Acc.Addr[channel.TestBackendID], m.State, m.Sig); err == nil && ok {
		cr.sigOK = true
	}
	c.mu.Lock()
	cr.fired = true
	c.mu.Unlock()
	p.s.Count("fault.craft."+cr.mut, 1)
	p.s.Event("ADV", "adv:craft", fmt.Sprintf("%s %s on %s v%d", cr.class, cr.mut, p.s.ChanName(cr.ch), m.State.Version))
	return e, true
}

func signAs(n *world.Node, st *channel.State) wallet.Sig {
	sig, err := channel.Sign(n.Acc.Acc, st, channel.TestBackendID)
	if err != nil {
		return bytes.Repeat([]byte{0x5a}, 64)
	}
	return sig
}

// mutate edits the decoded message m in place and re-signs it with A's key
// (unless the mutation is about the signature).
func (c *c07state) mutate(cr *craft, m *client.ChannelUpdateMsg, before *channel.State) {
	p := c.p
	A := p.n[0]
	r := cr.r
	s := m.State
	one := big.NewInt(1)
	aIdx := int(p.chans[0][0].Idx())
	hIdx := 1 - aIdx
	resign := true
	otherLocked := func() int { // index of a sub-allocation other than cr.subID, or -1
		for i, la := range s.Locked {
			if la.ID != cr.subID {
				return i
			}
		}
		return -1
	}
	switch cr.mut {
	case "none":
		resign = false
	case "state:id":
		s.ID[3] ^= 4
	case "state:ver+2":
		s.Version++
	case "state:ver-same":
		s.Version--
	case "state:sum+1":
		s.Balances[0][aIdx].Add(s.Balances[0][aIdx], one)
	case "state:sum-1":
		if s.Balances[0][hIdx].Sign() > 0 {
			s.Balances[0][hIdx].Sub(s.Balances[0][hIdx], one)
		}
	case "state:asset-replaced":
		s.Assets[0] = gen.Asset(91)
	case "state:neg-balance":
		// not encodable; falls out as undecodable
		s.Balances[0][aIdx] = big.NewInt(-1)
	case "state:app-swap":
		if channel.IsNoApp(s.App) {
			s.App = gen.PaymentApp(0)
		} else {
			s.App = channel.NoApp()
		}
	case "state:parts-more":
		for i := range s.Balances {
			s.Balances[i] = append(s.Balances[i], new(big.Int))
		}
	case "state:parts-fewer":
		for i := range s.Balances {
			s.Balances[i][0].Add(s.Balances[i][0], s.Balances[i][1])
			s.Balances[i] = s.Balances[i][:1]
		}
	case "state:final-flag":
		s.IsFinal = true
	case "state:steal":
		// take from H instead of paying it (a valid transition on a no-app channel)
		for j := range s.Balances[0] {
			s.Balances[0][j] = new(big.Int).Set(before.Balances[0][j])
		}
		if s.Balances[0][hIdx].Sign() > 0 {
			s.Balances[0][hIdx].Sub(s.Balances[0][hIdx], one)
			s.Balances[0][aIdx].Add(s.Balances[0][aIdx], one)
		}
	case "sig:other-state":
		o := s.Clone()
		o.Balances[0][aIdx] = new(big.Int).Add(o.Balances[0][aIdx], big.NewInt(0))
		o.Version += 7
		m.Sig = signAs(A, o)
		resign = false
	case "sig:wrong-key":
		m.Sig, _ = channel.Sign(gen.Pool(6)[4].Acc, s, channel.TestBackendID)
		resign = false
	case "sig:empty":
		m.Sig = wallet.Sig{}
		resign = false
	case "sig:garbage":
		m.Sig = r.Bytes(64)
		resign = false
	case "actor:other", "funding:actor-other", "settle:actor-other":
		m.ActorIdx = channel.Index(hIdx)
	case "actor:out-of-range":
		m.ActorIdx = 2
	case "locked:add":
		bals := make([]channel.Bal, len(s.Assets))
		for i := range bals {
			bals[i] = new(big.Int)
		}
		if s.Balances[0][aIdx].Sign() > 0 {
			s.Balances[0][aIdx].Sub(s.Balances[0][aIdx], one)
			bals[0] = big.NewInt(1)
		}
		s.Locked = append(s.Locked, *channel.NewSubAlloc(gen.SubID(300+r.Uint64()%50), bals, nil))
	case "locked:remove":
		if len(s.Locked) == 0 {
			cr.mut = "none"
			resign = false
			break
		}
		k := r.Intn(len(s.Locked))
		for i, b := range s.Locked[k].Bals {
			s.Balances[i][aIdx].Add(s.Balances[i][aIdx], b)
		}
		s.Locked = append(s.Locked[:k], s.Locked[k+1:]...)
	case "locked:id", "locked:amount", "locked:indexmap", "locked:order":
		if len(s.Locked) == 0 || (cr.mut == "locked:order" && len(s.Locked) < 2) {
			cr.mut = "none"
			resign = false
			break
		}
		k := r.Intn(len(s.Locked))
		switch cr.mut {
		case "locked:id":
			s.Locked[k].ID[5] ^= 1
		case "locked:amount":
			s.Locked[k].Bals[0] = new(big.Int).Add(s.Locked[k].Bals[0], one)
			if s.Balances[0][aIdx].Sign() > 0 {
				s.Balances[0][aIdx].Sub(s.Balances[0][aIdx], one)
			} else {
				s.Balances[0][hIdx].Sub(s.Balances[0][hIdx], one)
			}
		case "locked:indexmap":
			if len(s.Locked[k].IndexMap) == 0 {
				s.Locked[k].IndexMap = []channel.Index{1, 0}
			} else {
				s.Locked[k].IndexMap[0] ^= 1
			}
		case "locked:order":
			s.Locked[0], s.Locked[1] = s.Locked[1], s.Locked[0]
		}
	// ---- funding of a sub-channel --------------------------------------------------
	case "funding:debit-wrong-party", "funding:debit-only-peer", "funding:debit-only-peer+agreement":
		// shift the debit from A to H, totals preserved
		for a := range s.Balances {
			d := new(big.Int).Sub(before.Balances[a][aIdx], s.Balances[a][aIdx]) // what A was debited
			if cr.mut == "funding:debit-wrong-party" && d.Sign() > 0 {
				d = big.NewInt(1)
			}
			if d.Sign() <= 0 || s.Balances[a][hIdx].Cmp(d) < 0 {
				continue
			}
			s.Balances[a][aIdx].Add(s.Balances[a][aIdx], d)
			s.Balances[a][hIdx].Sub(s.Balances[a][hIdx], d)
		}
	case "funding:second-suballoc":
		bals := make([]channel.Bal, len(s.Assets))
		for i := range bals {
			bals[i] = new(big.Int)
		}
		if s.Balances[0][hIdx].Sign() > 0 {
			s.Balances[0][hIdx].Sub(s.Balances[0][hIdx], one)
			bals[0] = big.NewInt(1)
		}
		s.Locked = append(s.Locked, *channel.NewSubAlloc(gen.SubID(400+r.Uint64()%50), bals, nil))
	case "funding:indexmap-added":
		for i := range s.Locked {
			if s.Locked[i].ID == cr.subID {
				s.Locked[i].IndexMap = []channel.Index{1, 0}
			}
		}
	case "funding:amount+1":
		for i := range s.Locked {
			if s.Locked[i].ID == cr.subID && s.Balances[0][hIdx].Sign() > 0 {
				s.Locked[i].Bals[0] = new(big.Int).Add(s.Locked[i].Bals[0], one)
				s.Balances[0][hIdx].Sub(s.Balances[0][hIdx], one)
			}
		}
	case "funding:other-id":
		for i := range s.Locked {
			if s.Locked[i].ID == cr.subID {
				s.Locked[i].ID[7] ^= 2
			}
		}
	case "funding:touch-other-suballoc", "settle:touch-other-suballoc-id", "settle:touch-other-suballoc-indexmap":
		k := otherLocked()
		if k < 0 {
			cr.mut = "none"
			resign = false
			break
		}
		if cr.mut == "settle:touch-other-suballoc-indexmap" {
			s.Locked[k].IndexMap = []channel.Index{1, 0}
		} else {
			s.Locked[k].ID[9] ^= 8
		}
	// ---- settlement of a sub-channel ------------------------------------------------
	case "settle:credit-wrong-party":
		for a := range s.Balances {
			if s.Balances[a][hIdx].Sign() > 0 {
				s.Balances[a][hIdx].Sub(s.Balances[a][hIdx], one)
				s.Balances[a][aIdx].Add(s.Balances[a][aIdx], one)
				break
			}
		}
	case mutDiscardedFinal, "settle:credit-of-pre-final-state":
		if cr.alt == nil || len(cr.alt.Balances) != len(s.Balances) {
			cr.mut = "none"
			resign = false
			break
		}
		for a := range s.Balances {
			for j := range s.Balances[a] {
				if j < len(cr.alt.Balances[a]) && j < len(before.Balances[a]) {
					s.Balances[a][j] = new(big.Int).Add(before.Balances[a][j], cr.alt.Balances[a][j])
				}
			}
		}
	case "settle:keep-suballoc":
		// credit the balances but keep the sub-allocation (totals grow: invalid transition)
		if la, ok := before.SubAlloc(cr.subID); ok {
			s.Locked = append(s.Locked, la)
		}
	case "settle:remove-other-too":
		k := otherLocked()
		if k < 0 {
			cr.mut = "none"
			resign = false
			break
		}
		for i, b := range s.Locked[k].Bals {
			s.Balances[i][aIdx].Add(s.Balances[i][aIdx], b)
		}
		s.Locked = append(s.Locked[:k], s.Locked[k+1:]...)
	default:
		cr.mut = "none"
		resign = false
	}
	if resign {
		m.Sig = signAs(A, s)
	}
}

// settle waits for the outcome of the armed craft and evaluates the oracle.
// It returns false when the run has to stop (A's client is out of sync with H).
// staleFunding: A pays H one to ten coins in the parent (an ordinary update,
// which H's handler accepts), then presents the funding update it had computed
// from the state before that payment as the next version. Each balance of that
// update is below the current one by something else than the participant's
// share of the sub-channel.
func (c *c07state) staleFunding(cr *craft, honest *client.ChannelUpdateMsg, before *channel.State) {
	p, s := c.p, c.p.s
	A, H := p.n[0], p.n[1]
	defer func() {
		c.mu.Lock()
		cr.pending = false
		c.mu.Unlock()
	}()
	aIdx := int(p.chans[0][0].Idx())
	pay := before.Clone()
	pay.Version++
	x := big.NewInt(int64(1 + cr.r.Intn(10)))
	if pay.Balances[0][aIdx].Cmp(x) < 0 {
		return
	}
	pay.Balances[0][aIdx].Sub(pay.Balances[0][aIdx], x)
	pay.Balances[0][1-aIdx].Add(pay.Balances[0][1-aIdx], x)
	send := func(st *channel.State, key string) bool {
		m := &client.ChannelUpdateMsg{ChannelUpdate: client.ChannelUpdate{State: st, ActorIdx: channel.Index(aIdx)}, Sig: signAs(A, st)}
		return p.w.Bus.Inject(&wire.Envelope{Sender: A.Wire, Recipient: H.Wire, Msg: m}, s.Delay(key, 0, 100*time.Microsecond)) == nil
	}
	if !send(pay, "inject:stale-pay") {
		return
	}
	enc := gen.EncodeState(pay)
	got := false
	for i := 0; i < 400 && !got; i++ {
		time.Sleep(50 * time.Microsecond)
		if l := H.Rec.EnabledOf(cr.ch); len(l) > 0 && bytes.Equal(l[len(l)-1].Enc, enc) {
			got = true
		}
	}
	if !got {
		s.Count("probe.stale_payment_not_accepted", 1)
		return
	}
	st := honest.State.Clone()
	st.Version = pay.Version + 1
	msg := &client.ChannelUpdateMsg{ChannelUpdate: client.ChannelUpdate{State: st, ActorIdx: channel.Index(aIdx)}, Sig: signAs(A, st)}
	if p.w.Bus.Inject(&wire.Envelope{Sender: A.Wire, Recipient: H.Wire, Msg: msg}, s.Delay("inject:stale-funding", 0, 100*time.Microsecond)) != nil {
		return
	}
	c.mu.Lock()
	cr.before, cr.msg, cr.sigOK, cr.fired = pay, msg, true, true
	c.mu.Unlock()
	s.Count("fault.craft."+cr.mut, 1)
	s.Event("ADV", "adv:craft", fmt.Sprintf("funding %s on %s v%d after a payment of %v", cr.mut, s.ChanName(cr.ch), st.Version, x))
}

// staleOrdinary: while H handles the honest funding update v+1, A's address
// sends version v+2 built on v: the locked list and the balances of v. Against
// v+1 this removes the sub-allocation that was just added.
func (c *c07state) staleOrdinary(cr *craft, funding *client.ChannelUpdateMsg, before *channel.State) {
	p, s := c.p, c.p.s
	A, H := p.n[0], p.n[1]
	defer func() {
		c.mu.Lock()
		cr.pending = false
		c.mu.Unlock()
	}()
	aIdx := int(p.chans[0][0].Idx())
	st := before.Clone()
	st.Version = funding.State.Version + 1
	msg := &client.ChannelUpdateMsg{ChannelUpdate: client.ChannelUpdate{State: st, ActorIdx: channel.Index(aIdx)}, Sig: signAs(A, st)}
	// the bus delays each message independently: aim at the window in which H
	// holds the funding update
	gap := s.Delay("inject:stale-ordinary-gap", 0, []time.Duration{50 * time.Microsecond, 500 * time.Microsecond, 3 * time.Millisecond}[cr.r.Intn(3)])
	if p.w.Bus.Inject(&wire.Envelope{Sender: A.Wire, Recipient: H.Wire, Msg: msg}, gap) != nil {
		return
	}
	// judged against the funding state, which H holds once it accepted v+1
	time.Sleep(gap + 20*time.Millisecond)
	c.mu.Lock()
	cr.class = "ordinary"
	cr.before, cr.msg, cr.sigOK, cr.fired = funding.State.Clone(), msg, true, true
	c.mu.Unlock()
	s.Count("fault.craft."+cr.mut, 1)
	s.Event("ADV", "adv:craft", fmt.Sprintf("ordinary %s on %s v%d behind the funding update", cr.mut, s.ChanName(cr.ch), st.Version))
}

func (c *c07state) settle(step int) bool {
	p, s := c.p, c.p.s
	for i := 0; i < 100; i++ { // a multi-message craft finishes first
		c.mu.Lock()
		pend := c.cr != nil && c.cr.pending
		c.mu.Unlock()
		if !pend {
			break
		}
		time.Sleep(time.Millisecond)
	}
	time.Sleep(50 * time.Millisecond) // quiescence
	c.mu.Lock()
	cr := c.cr
	c.cr = nil
	c.mu.Unlock()
	if cr == nil || !cr.fired {
		return true
	}
	H := p.n[1]
	// H must have held the predecessor when it handled the message
	held := false
	benc := gen.EncodeState(cr.before)
	for _, e := range H.Rec.EnabledOf(cr.ch) {
		held = held || bytes.Equal(e.Enc, benc)
	}
	if !held {
		s.Count("probe.predecessor_not_held_by_H", 1)
		return false
	}
	// the funded (initial state) or settled (final state) channel as H holds it
	if cr.subID != (channel.ID{}) {
		if sh := H.Rec.EnabledOf(cr.subID); len(sh) > 0 {
			if cr.class == "funding" {
				cr.sub = sh[0].State.Clone()
			} else {
				cr.sub = sh[len(sh)-1].State.Clone()
			}
		}
	}
	enc := gen.EncodeState(cr.msg.State)
	enabled := false
	for _, e := range H.Rec.EnabledOf(cr.ch) {
		if e.Version == cr.msg.State.Version && bytes.Equal(e.Enc, enc) {
			enabled = true
		}
	}
	countersigned := enabled || cr.accSeen
	ok, why := c.acceptable(cr)
	if countersigned {
		s.Count("probe.countersigned", 1)
	} else {
		s.Count("probe.refused", 1)
	}
	if countersigned && !ok {
		s.Fail("C07.countersigned-unsafe@"+cr.class+"/"+why, "H countersigned a %s update (%s) that is not acceptable: %s", cr.class, cr.mut, why)
		return false
	}
	// in sync? A's client and H must agree on the parent, otherwise the run ends here
	a, h := p.chans[0][0].State(), p.chans[0][1].State()
	return a.Version == h.Version && bytes.Equal(gen.EncodeState(a), gen.EncodeState(h))
}

func sameLocked(a, b []channel.SubAlloc) bool {
	if len(a) != len(b) {
		return false
	}
	for i := range a {
		if !sameSubAlloc(&a[i], &b[i]) {
			return false
		}
	}
	return true
}

func sameSubAlloc(a, b *channel.SubAlloc) bool {
	if a.ID != b.ID || len(a.Bals) != len(b.Bals) || len(a.IndexMap) != len(b.IndexMap) {
		return false
	}
	for i := range a.Bals {
		if a.Bals[i].Cmp(b.Bals[i]) != 0 {
			return false
		}
	}
	for i := range a.IndexMap {
		if a.IndexMap[i] != b.IndexMap[i] {
			return false
		}
	}
	return true
}

// acceptable is the independent predicate written from the statement of C07.
func (c *c07state) acceptable(cr *craft) (bool, string) {
	p := c.p
	hch := p.chans[0][1]
	aIdx := channel.Index(p.chans[0][0].Idx())
	st, before := cr.msg.State, cr.before
	if !cr.sigOK {
		return false, "signature-not-by-peer-over-proposed-state"
	}
	if ok, why := gen.RefValidSuccessor(hch.Params().ID(), hch.Params().App, 2, before, st, cr.msg.ActorIdx); !ok {
		return false, "invalid-successor:" + why
	}
	n := len(before.Balances[0])
	switch cr.class {
	case "ordinary":
		if cr.msg.ActorIdx != aIdx {
			return false, "actor-not-sender"
		}
		if !sameLocked(before.Locked, st.Locked) {
			return false, "locked-changed"
		}
		return true, ""
	case "funding":
		// an ordinary-looking update is also fine if it is acceptable as one
		if cr.msg.ActorIdx == aIdx && sameLocked(before.Locked, st.Locked) {
			return true, ""
		}
		if cr.sub == nil {
			return false, "no-sub-channel-being-funded"
		}
		if len(st.Locked) != len(before.Locked)+1 || !sameLocked(before.Locked, st.Locked[:len(before.Locked)]) {
			// the client appends the new sub-allocation; any other change of the list is not "exactly that sub-allocation"
			return false, "locked-not-extended-by-exactly-one"
		}
		want := channel.SubAlloc{ID: cr.subID, Bals: gen.Totals(&cr.sub.Allocation), IndexMap: []channel.Index{}}
		if !sameSubAlloc(&st.Locked[len(st.Locked)-1], &want) {
			return false, "added-suballoc-differs"
		}
		for a := range st.Balances {
			for j := 0; j < n; j++ {
				d := new(big.Int).Sub(before.Balances[a][j], st.Balances[a][j])
				if d.Cmp(cr.sub.Balances[a][j]) != 0 {
					return false, "debit-differs-from-balance-in-funded-channel"
				}
			}
		}
		return true, ""
	case "settlement":
		if cr.msg.ActorIdx == aIdx && sameLocked(before.Locked, st.Locked) {
			return true, ""
		}
		if cr.sub == nil || !cr.sub.IsFinal {
			return false, "no-final-sub-channel"
		}
		var rest []channel.SubAlloc
		found := false
		for _, la := range before.Locked {
			if la.ID == cr.subID {
				found = true
				continue
			}
			rest = append(rest, la)
		}
		if !found || !sameLocked(rest, st.Locked) {
			return false, "locked-not-reduced-by-exactly-that-suballoc"
		}
		for a := range st.Balances {
			for j := 0; j < n; j++ {
				d := new(big.Int).Sub(st.Balances[a][j], before.Balances[a][j])
				if d.Cmp(cr.sub.Balances[a][j]) != 0 {
					return false, "credit-differs-from-balance-in-settled-channel"
				}
			}
		}
		return true, ""
	}
	return false, "unknown-class"
}
