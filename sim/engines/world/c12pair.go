package worldeng

import (
	"fmt"
	"strings"
	"testing"
	"time"

	"perun.network/go-perun/client"
	"perun.network/go-perun/wire"

	"verif/sim/kernel"
	"verif/sim/world"
)

// ---- C12, second family: honest traffic with transient connection faults ----------
//
// Two honest clients run an ordinary history (payments, sub-channel open, pay,
// close) while a few of their messages cannot be sent: the sender's Publish
// returns an error and the message is not delivered. Whether the affected
// operations succeed is not judged. What is judged is the second half of the
// property: once the faults have stopped and every internal timeout has
// passed, no channel is left locked - honest requests on every open channel
// complete or are refused in bounded time, from both sides.

func genC12Pair(r *kernel.Rand) *kernel.Scenario {
	sc := genSettleScenario(r, "C03")
	// no settlement, no cancel-on-enable: plain traffic
	var steps []kernel.Step
	for _, st := range sc.Steps {
		if st.Op == "settle" {
			continue
		}
		if st.Op == "pay" {
			st.A["coe"] = 0
		}
		steps = append(steps, st)
	}
	sc.Steps = steps
	c := sc.Config
	c["pairfault"] = 1
	c["watch"] = 0
	c["ctx_ms"] = 15000
	c["accept_pct"] = 100
	c["senderr_pm"] = int64([]int{20, 50, 120}[r.Intn(3)]) // per mille of the messages
	// this share (per mille) of the failing sends stalls until the sender's context ends
	c["send_stall_pm"] = int64([]int{0, 300, 1000}[r.Intn(3)])
	return sc
}

func execC12Pair(t *testing.T, sc *kernel.Scenario, trace bool) *kernel.Result {
	return world.RunBubble(t, sc, trace, func(s *world.Sim) {
		p := newPair(s)
		p.w.Ledger.MaxLat = time.Duration(sc.Cfg("ledger_max_us", 2000)) * time.Microsecond
		installYields(s)
		defer removeYields()
		pm := float64(sc.Cfg("senderr_pm", 50)) / 1000
		p.w.Bus.StallSendP = float64(sc.Cfg("send_stall_pm", 0)) / 1000
		faults := 0
		arm := func() {
			p.w.Bus.FailSend = func(from, to string, e *wire.Envelope) bool {
				if s.Chance("senderr:"+from+">"+to+":"+s.DescribeMsg(e.Msg), pm) {
					faults++
					return true
				}
				return false
			}
		}
		payTO := 20 * time.Second
		for i := range sc.Steps {
			st := &sc.Steps[i]
			if len(p.chans) == 0 && st.Op != "open" {
				continue
			}
			switch st.Op {
			case "open":
				if len(p.chans) == 0 {
					p.open(i, int(st.Int("from"))&1, st) // the ledger channel is opened without faults
					arm()
				}
			case "pay":
				side := int(st.Int("from")) & 1
				p.pay(i, p.chans[0][side], side, st.Int("amt"), payTO, false)
			case "sub-open":
				p.subOpen(i, st)
			case "sub-pay":
				if k := int(st.Int("sub")); k < len(p.subs) && !p.subs[k].closed {
					side := int(st.Int("from")) & 1
					p.pay(i, p.subs[k].chans[side], side, st.Int("amt"), payTO, false)
				}
			case "sub-close":
				if k := int(st.Int("sub")); k < len(p.subs) && !p.subs[k].closed {
					p.subClose(i, k, st.Int("amt"))
				}
			}
		}
		p.wg.Wait()
		p.w.Bus.FailSend = nil
		s.Count("fault.transient_send_error", int64(faults))
		s.Res.NonTrivial = faults > 0
		if len(p.chans) == 0 {
			p.w.Shutdown()
			return
		}
		// faults have stopped: run past every internal timeout, then probe
		time.Sleep(40 * time.Second)
		probe := func(name string, side int, ch *client.Channel) {
			if ch == nil || ch.IsClosed() || s.Failed() {
				return
			}
			done := make(chan error, 1)
			go func() {
				_ = ch.Phase()
				done <- p.pay(-1, ch, side, 0, 30*time.Second, false).err
			}()
			tm := time.NewTimer(120 * time.Second)
			defer tm.Stop()
			select {
			case err := <-done:
				if err != nil && strings.Contains(err.Error(), "locking machine mutex in time") {
					s.Fail("C12.lockup@"+name, "after transient send errors in honest traffic an honest update on %s could not lock the machine mutex within 30 simulated seconds", name)
				}
				if err != nil && classify(err) == "timeout" && !strings.Contains(err.Error(), "locking machine mutex in time") {
					s.Fail("C12.unresponsive@"+name, "after transient send errors in honest traffic an honest update on %s between two honest clients got no answer: %v", name, err)
				}
				s.Count("probe.probe_"+classify(err), 1)
			case <-tm.C:
				s.Fail("C12.lockup@"+name, "after transient send errors in honest traffic an honest request on %s did not return within 120 simulated seconds", name)
			}
		}
		for side := 0; side < 2; side++ {
			probe(fmt.Sprintf("ledger channel/%s", p.n[side].Name), side, p.chans[0][side])
			for k := range p.subs {
				if !p.subs[k].closed {
					probe(fmt.Sprintf("sub-channel/%s", p.n[side].Name), side, p.subs[k].chans[side])
				}
			}
		}
		p.w.Shutdown()
	})
}
