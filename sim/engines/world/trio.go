package worldeng

import (
	"context"
	"fmt"
	"math/big"
	"time"

	"perun.network/go-perun/channel"
	"perun.network/go-perun/client"
	"perun.network/go-perun/wallet"
	"perun.network/go-perun/wire"

	"verif/sim/gen"
	"verif/sim/kernel"
	"verif/sim/world"
)

// trio is a three-client world for virtual channels: A and B each hold a
// ledger channel with the hub H (A and B propose, so H has index 1 in both),
// and open virtual channels A<->B through H.
type trio struct {
	s       *world.Sim
	w       *world.World
	A, H, B *world.Node
	// ledger channels: [0] A-H, [1] B-H; per channel the two controllers
	chAH [2]*client.Channel // [0] A's, [1] H's
	chBH [2]*client.Channel // [0] B's, [1] H's
	virt []virtInfo
	// subAH is an honest sub-channel of A-H opened by A's client ([0] A's, [1] H's controller), if any
	subAH [2]*client.Channel
}

// openSubAH lets A's real client open a sub-channel of A-H with small balances.
func (t *trio) openSubAH(step int) bool {
	ps := t.chAH[0].State()
	alloc := channel.Allocation{Assets: ps.Assets, Backends: ps.Backends}
	for range ps.Assets {
		alloc.Balances = append(alloc.Balances, []channel.Bal{big.NewInt(7), big.NewInt(5)})
	}
	prop, err := client.NewSubChannelProposal(t.chAH[0].ID(), t.chAH[0].Params().ChallengeDuration, &alloc,
		client.WithNonceFrom(kernel.NewRand(kernel.Derive(t.s.Sc.Seed, "sub-nonce", step))))
	if err != nil {
		return false
	}
	ctx, cancel := t.A.Ctx()
	defer cancel()
	ch, err := t.A.Client.ProposeChannel(ctx, prop)
	t.s.Event("A", "driver:sub-open", fmt.Sprintf("err=%v", err))
	if err != nil || ch == nil {
		return false
	}
	var other *client.Channel
	for i := 0; i < 5000 && other == nil; i++ {
		if other = t.H.Chan(ch.ID()); other == nil {
			time.Sleep(100 * time.Microsecond)
		}
	}
	if other == nil {
		return false
	}
	t.subAH = [2]*client.Channel{ch, other}
	return true
}

type virtInfo struct {
	id     channel.ID
	a, b   *client.Channel
	closed bool
}

var (
	indexMapAlice = []channel.Index{0, 1}
	indexMapBob   = []channel.Index{1, 0}
)

func newTrio(s *world.Sim) *trio {
	sc := s.Sc
	w := world.NewWorld(s, int(sc.Cfg("ser", 0)))
	w.Bus.Fifo = sc.Cfg("fifo", 0) == 1
	// The hub's matching of funding/settlement proposals runs with a std mutex
	// held (client.stateWatcher) and sends the acceptances from there; a
	// publisher that parks its caller would violate R3, so the bus is always
	// asynchronous in three-party runs.
	w.Bus.Async = sc.Cfg("sync_bus", 0) != 1 // sync_bus is only set by scenarios without matched virtual-channel proposals
	if v := sc.Cfg("bus_max_us", 0); v > 0 {
		w.Bus.MaxDelay = time.Duration(v) * time.Microsecond
	}
	t := &trio{s: s, w: w}
	for i, name := range []string{"A", "H", "B"} {
		n := w.AddNode(name, i, nil)
		for a := 0; a < 2; a++ {
			w.Ledger.Credit(name, gen.Asset(a), big.NewInt(initialFunds))
		}
		n.CtxTimeout = time.Duration(sc.Cfg("ctx_ms", 20000)) * time.Millisecond
		reactMax := time.Duration(sc.Cfg("react_max_us", 200)) * time.Microsecond
		nn := n
		n.OnUpdate = func(cur *channel.State, u client.ChannelUpdate) (bool, time.Duration) {
			return true, s.Delay(fmt.Sprintf("react:%s:%s:v%d", nn.Name, s.ChanName(u.State.ID), u.State.Version), 0, reactMax)
		}
		n.OnProposal = func(client.ChannelProposal) (bool, time.Duration) {
			return true, s.Delay("react:proposal:"+nn.Name, 0, reactMax)
		}
	}
	t.A, t.H, t.B = w.Nodes["A"], w.Nodes["H"], w.Nodes["B"]
	return t
}

func (t *trio) openLedger(step int, from *world.Node, nAssets int, r *kernel.Rand) [2]*client.Channel {
	alloc := channel.Allocation{}
	for a := 0; a < nAssets; a++ {
		alloc.Assets = append(alloc.Assets, gen.Asset(a))
		alloc.Backends = append(alloc.Backends, channel.TestBackendID)
		alloc.Balances = append(alloc.Balances, []channel.Bal{big.NewInt(int64(r.Range(300, 2000))), big.NewInt(int64(r.Range(300, 2000)))})
	}
	prop, err := client.NewLedgerChannelProposal(10, from.Acc.Addr, &alloc, []map[wallet.BackendID]wire.Address{from.Wire, t.H.Wire},
		client.WithNonceFrom(kernel.NewRand(kernel.Derive(t.s.Sc.Seed, "nonce", step, from.Name))))
	if err != nil {
		return [2]*client.Channel{}
	}
	ctx, cancel := from.Ctx()
	defer cancel()
	ch, err := from.Client.ProposeChannel(ctx, prop)
	t.s.Event(from.Name, "driver:open", fmt.Sprintf("err=%v", err))
	if err != nil || ch == nil {
		return [2]*client.Channel{}
	}
	var other *client.Channel
	for i := 0; i < 5000 && other == nil; i++ {
		if other = t.H.Chan(ch.ID()); other == nil {
			time.Sleep(100 * time.Microsecond)
		}
	}
	return [2]*client.Channel{ch, other}
}

// setup opens both ledger channels. ok=false if something failed.
func (t *trio) setup(r *kernel.Rand, nAssets int) bool {
	t.chAH = t.openLedger(0, t.A, nAssets, r)
	t.chBH = t.openLedger(1, t.B, nAssets, r)
	return t.chAH[0] != nil && t.chAH[1] != nil && t.chBH[0] != nil && t.chBH[1] != nil
}

// openVirtual lets A propose a virtual channel to B with balances (a, b) per asset.
func (t *trio) openVirtual(step int, a, b int64) (vi *virtInfo, err error) {
	return t.openVirtualBy(step, a, b, false)
}

// openVirtualBy: with byB the virtual channel is proposed by B, so that A is
// its participant 1 (the participant whose signature the hub's copy of the
// channel expects on incoming updates).
func (t *trio) openVirtualBy(step int, a, b int64, byB bool) (vi *virtInfo, err error) {
	if byB {
		ps := t.chBH[0].State()
		alloc := channel.Allocation{Assets: ps.Assets, Backends: ps.Backends}
		for range ps.Assets {
			alloc.Balances = append(alloc.Balances, []channel.Bal{big.NewInt(b), big.NewInt(a)})
		}
		prop, err := client.NewVirtualChannelProposal(10, t.B.Acc.Addr, &alloc, []map[wallet.BackendID]wire.Address{t.B.Wire, t.A.Wire},
			[]channel.ID{t.chBH[0].ID(), t.chAH[0].ID()}, [][]channel.Index{indexMapAlice, indexMapBob},
			client.WithNonceFrom(kernel.NewRand(kernel.Derive(t.s.Sc.Seed, "vnonce", step))))
		if err != nil {
			return nil, err
		}
		ctx, cancel := t.B.Ctx()
		defer cancel()
		ch, err := t.B.Client.ProposeChannel(ctx, prop)
		t.s.Event("B", "driver:virtual-open", fmt.Sprintf("err=%v", err))
		if err != nil || ch == nil {
			return nil, err
		}
		var other *client.Channel
		for i := 0; i < 5000 && other == nil; i++ {
			if other = t.A.Chan(ch.ID()); other == nil {
				time.Sleep(100 * time.Microsecond)
			}
		}
		if other == nil {
			return nil, fmt.Errorf("A never obtained the virtual channel")
		}
		t.virt = append(t.virt, virtInfo{id: ch.ID(), a: other, b: ch})
		return &t.virt[len(t.virt)-1], nil
	}
	ps := t.chAH[0].State()
	alloc := channel.Allocation{Assets: ps.Assets, Backends: ps.Backends}
	for range ps.Assets {
		alloc.Balances = append(alloc.Balances, []channel.Bal{big.NewInt(a), big.NewInt(b)})
	}
	prop, err := client.NewVirtualChannelProposal(10, t.A.Acc.Addr, &alloc, []map[wallet.BackendID]wire.Address{t.A.Wire, t.B.Wire},
		[]channel.ID{t.chAH[0].ID(), t.chBH[0].ID()}, [][]channel.Index{indexMapAlice, indexMapBob},
		client.WithNonceFrom(kernel.NewRand(kernel.Derive(t.s.Sc.Seed, "vnonce", step))))
	if err != nil {
		return nil, err
	}
	ctx, cancel := t.A.Ctx()
	defer cancel()
	ch, err := t.A.Client.ProposeChannel(ctx, prop)
	t.s.Event("A", "driver:virtual-open", fmt.Sprintf("err=%v", err))
	if err != nil || ch == nil {
		return nil, err
	}
	var other *client.Channel
	for i := 0; i < 5000 && other == nil; i++ {
		if other = t.B.Chan(ch.ID()); other == nil {
			time.Sleep(100 * time.Microsecond)
		}
	}
	if other == nil {
		return nil, fmt.Errorf("B never obtained the virtual channel")
	}
	t.virt = append(t.virt, virtInfo{id: ch.ID(), a: ch, b: other})
	return &t.virt[len(t.virt)-1], nil
}

// payOn issues an update by n on its controller ch moving amt of asset 0 to the peer.
func (t *trio) payOn(n *world.Node, ch *client.Channel, amt int64, final bool, timeout time.Duration) error {
	ctx, cancel := context.WithTimeout(context.Background(), timeout+t.s.Delay("ctx:trio-pay:"+n.Name, 0, time.Millisecond))
	defer cancel()
	idx := int(ch.Idx())
	err := ch.Update(ctx, func(s *channel.State) {
		a := big.NewInt(amt)
		if s.Balances[0][idx].Cmp(a) < 0 {
			a = new(big.Int).Set(s.Balances[0][idx])
		}
		s.Balances[0][idx].Sub(s.Balances[0][idx], a)
		s.Balances[0][1-idx].Add(s.Balances[0][1-idx], a)
		s.IsFinal = final
	})
	t.s.Event(n.Name, "driver:update", fmt.Sprintf("%s amt=%d final=%v -> %v", t.s.ChanName(ch.ID()), amt, final, err))
	return err
}

// settleVirtual finalises virtual channel k (A proposes the final state) and lets both settle it into their parents.
func (t *trio) settleVirtual(step, k int, amt int64) (errA, errB error) {
	v := &t.virt[k]
	if err := t.payOn(t.A, v.a, amt, true, 5*time.Second); err != nil {
		return err, err
	}
	res := make(chan [2]any, 2)
	for i, pr := range []struct {
		n  *world.Node
		ch *client.Channel
	}{{t.A, v.a}, {t.B, v.b}} {
		pr, i := pr, i
		go func() {
			ctx, cancel := pr.n.Ctx()
			defer cancel()
			res <- [2]any{i, pr.ch.Settle(ctx, i == 1)}
		}()
		time.Sleep(t.s.Delay(fmt.Sprintf("driver:vsettle-gap:%d", step), 0, 300*time.Microsecond))
		if ms := t.s.Sc.Cfg("vsettle_gap_ms", 0); ms > 0 && i == 0 {
			// the second party settles only after the hub has given up waiting
			// for a proposal matching the first one
			time.Sleep(time.Duration(ms) * time.Millisecond)
		}
	}
	for n := 0; n < 2; n++ {
		r := <-res
		e, _ := r[1].(error)
		if r[0].(int) == 0 {
			errA = e
		} else {
			errB = e
		}
	}
	t.s.Event("A", "driver:virtual-settle", fmt.Sprintf("errA=%v errB=%v", errA, errB))
	if errA == nil && errB == nil {
		v.closed = true
	}
	return
}
