// Package worldeng holds the world-kernel engines: two or three real clients
// with real local watchers on the simulated bus and the strict ledger
// (properties C03, C04, C06, C08, C07, C12).
package worldeng

import (
	"context"
	"errors"
	"fmt"
	"math/big"
	"strings"
	"sync"
	"time"

	"perun.network/go-perun/channel"
	"perun.network/go-perun/client"
	"perun.network/go-perun/wallet"
	"perun.network/go-perun/wire"

	"polycry.pt/poly-go/sortedkv/memorydb"

	"verif/sim/gen"
	"verif/sim/kernel"
	"verif/sim/world"
)

// pair is a two-client world with a number of ledger channels between them.
type pair struct {
	restarting     [2]bool                       // C06 restart mode: the side's client is being replaced by a restored instance
	sharedOpts     client.ProposalOpts           // C08: one options value re-used for several proposals (pn=2)
	born           [2]time.Duration              // when the current instance of each side was created (0: at the start)
	slowNext       map[string]time.Duration      // node name -> extra reaction time for its next decision
	cancelOnEnable bool                          // the next pay cancels its context when its state is enabled
	coe            map[string]context.CancelFunc // armed cancellations by side:channel
	midClose       func()                        // C03: runs between a sub-channel's final update and its settlement
	craftedFunds   map[client.ProposalID]bool    // C08: crafted proposals that are invalid only because of the funds they ask for
	eager          bool                          // C06: updates may start before the responder's Accept has returned
	s              *world.Sim
	w              *world.World
	n              [2]*world.Node
	chans          [][2]*client.Channel // [k][side]
	ids            []channel.ID
	subs           []subInfo
	// agree[k] is the funding agreement the scenario intended for channel k
	agree []channel.Balances
	// watchSide says which sides run Channel.Watch on their channels
	watchSide [2]bool
	// C08: scenario-controlled nonce shares and the last proposed allocation
	nextAccKey, nextPropNonce string
	accKeyMap                 map[string]string
	lastAlloc                 channel.Allocation
	lastData                  channel.Data
	lastOpenErr               error

	mu      sync.Mutex
	ops     []*opRec
	tokens  map[string]chan struct{} // per-channel token for the token configuration
	timeout bool                     // some request timed out (relaxed oracle applies)
	wg      sync.WaitGroup
}

type subInfo struct {
	parent int
	chans  [2]*client.Channel
	id     channel.ID
	closed bool
}

// opRec records one driver action and its result.
type opRec struct {
	step     int
	op       string
	side     int
	ch       channel.ID
	proposed []byte // encoding of the proposed state
	version  uint64
	start    time.Duration
	end      time.Duration
	err      error
	class    string // ok, rejected, timeout, error
	enBefore int    // length of the proposer's Enabled stream of ch at start
}

const initialFunds = 1_000_000

func newPair(s *world.Sim) *pair {
	sc := s.Sc
	w := world.NewWorld(s, int(sc.Cfg("ser", 0)))
	w.Bus.Fifo = sc.Cfg("fifo", 0) == 1
	w.Bus.Async = sc.Cfg("async_bus", 0) == 1
	if v := sc.Cfg("bus_ack_max_us", 0); v > 0 {
		w.Bus.AckMax = time.Duration(v) * time.Microsecond
	}
	if v := sc.Cfg("bus_max_us", 0); v > 0 {
		w.Bus.MaxDelay = time.Duration(v) * time.Microsecond
		if v <= 100 {
			// a fast network: a message can overtake a goroutine parked at a yield point
			w.Bus.MinDelay = time.Microsecond
		}
	}
	w.Bus.DropP = float64(sc.Cfg("drop_pm", 0)) / 1000
	w.Bus.DupP = float64(sc.Cfg("dup_pm", 0)) / 1000
	if sc.Cfg("real_localbus", 0) == 1 {
		// the library's own in-process bus carries the deliveries (real code)
		w.Bus.Inner = wire.NewLocalBus()
		s.Count("probe.real_local_bus", 1)
	}
	p := &pair{s: s, w: w, tokens: map[string]chan struct{}{}}
	if sc.Cfg("watch", 0) == 1 {
		p.watchSide = [2]bool{true, true}
		if adv := sc.Cfg("adv", -1); adv >= 0 {
			p.watchSide[adv] = false // an adversary does not refute its own registration
		}
	}
	for i, name := range []string{"A", "B"} {
		if sc.Cfg("persist", 0) == 1 {
			p.n[i] = w.AddPersistentNode(name, i, memorydb.NewDatabase())
		} else {
			p.n[i] = w.AddNode(name, i, nil)
		}
		for a := 0; a < 3; a++ {
			w.Ledger.Credit(name, gen.Asset(a), big.NewInt(initialFunds))
		}
		p.n[i].CtxTimeout = time.Duration(sc.Cfg("ctx_ms", 20000)) * time.Millisecond
	}
	for i := range p.n {
		p.installPolicies(p.n[i])
	}
	return p
}

// installPolicies sets the keyed accept/reject and reaction-time policies.
func (p *pair) installPolicies(n *world.Node) {
	if us := p.s.Sc.Cfg("answer_ctx_max_us", 0); us > 0 {
		n.UpdateCtxMax = time.Duration(us) * time.Microsecond
	}
	s, sc := p.s, p.s.Sc
	acceptPct := sc.Cfg("accept_pct", 100)
	reactMax := time.Duration(sc.Cfg("react_max_us", 200)) * time.Microsecond
	{
		n.OnUpdate = func(cur *channel.State, u client.ChannelUpdate) (bool, time.Duration) {
			key := fmt.Sprintf("decide:%s:%s:v%d", n.Name, s.ChanName(u.State.ID), u.State.Version)
			react := s.Delay("react:"+key, 0, reactMax)
			p.mu.Lock()
			if d, ok := p.slowNext[n.Name]; ok {
				delete(p.slowNext, n.Name)
				react += d // this one decision takes long
			}
			p.mu.Unlock()
			if isProbe(cur, u.State) {
				return true, react
			}
			return s.Chance(key, float64(acceptPct)/100), react
		}
		n.OnProposal = func(client.ChannelProposal) (bool, time.Duration) {
			return true, s.Delay("react:proposal:"+n.Name, 0, reactMax)
		}
	}
}

// isProbe: an update that moves nothing is the harness's probe and is always accepted.
func isProbe(cur, next *channel.State) bool {
	if len(cur.Balances) != len(next.Balances) {
		return false
	}
	for i := range cur.Balances {
		if len(cur.Balances[i]) != len(next.Balances[i]) {
			return false
		}
		for j := range cur.Balances[i] {
			if cur.Balances[i][j].Cmp(next.Balances[i][j]) != 0 {
				return false
			}
		}
	}
	return len(cur.Locked) == len(next.Locked) && !next.IsFinal
}

func (p *pair) record(o *opRec) {
	p.mu.Lock()
	p.ops = append(p.ops, o)
	p.mu.Unlock()
}

func classify(err error) string {
	if err == nil {
		return "ok"
	}
	var rej client.PeerRejectedError
	if errors.As(err, &rej) {
		return "rejected"
	}
	var to client.RequestTimedOutError
	if errors.As(err, &to) || errors.Is(err, context.DeadlineExceeded) || errors.Is(err, context.Canceled) ||
		strings.Contains(err.Error(), "locking machine mutex in time") || strings.Contains(err.Error(), "context deadline exceeded") {
		return "timeout"
	}
	return "error"
}

// open runs the ledger channel opening protocol, side proposes. Returns index or -1.
func (p *pair) open(step int, side int, st *kernel.Step) int {
	r := kernel.NewRand(kernel.Derive(uint64(st.Int("r")), "open"))
	nAssets := int(st.Int("assets"))
	if nAssets < 1 {
		nAssets = 1
	}
	alloc := channel.Allocation{}
	for a := 0; a < nAssets; a++ {
		alloc.Assets = append(alloc.Assets, gen.Asset(a))
		alloc.Backends = append(alloc.Backends, channel.TestBackendID)
		alloc.Balances = append(alloc.Balances, []channel.Bal{big.NewInt(int64(r.Range(200, 2000))), big.NewInt(int64(r.Range(200, 2000)))})
		if st.Int("zero") == 1 && a == 0 {
			alloc.Balances[0][r.Intn(2)] = big.NewInt(0)
		}
	}
	nonceSeed := kernel.Derive(p.s.Sc.Seed, "nonce", step)
	if p.nextPropNonce != "" {
		nonceSeed = kernel.Derive(p.s.Sc.Seed, "nonce", p.nextPropNonce)
		p.nextPropNonce = ""
	}
	if p.nextAccKey != "" {
		p.n[1-side].SetNextAccNonce(p.nextAccKey)
		p.nextAccKey = ""
	}
	opts := []client.ProposalOpts{client.WithNonceFrom(kernel.NewRand(nonceSeed))}
	if st.Int("aux") == 1 {
		var aux channel.Aux
		copy(aux[:], kernel.NewRand(17).Bytes(channel.AuxMaxLen))
		opts = append(opts, client.WithAux(aux))
	}
	p.lastAlloc, p.lastData = gen.CloneAlloc(alloc), channel.NoData()
	appKind := int(st.Int("app"))
	if appKind == gen.AppPayment {
		opts = append(opts, client.WithApp(gen.PaymentApp(0), channel.NoData()))
	}
	var agreement channel.Balances
	if st.Int("agree") == 1 {
		// a funding agreement different from the initial balances, same totals
		agreement = make(channel.Balances, nAssets)
		for a := 0; a < nAssets; a++ {
			tot := new(big.Int).Add(alloc.Balances[a][0], alloc.Balances[a][1])
			x := big.NewInt(int64(r.Range(0, int(tot.Int64()))))
			agreement[a] = []channel.Bal{x, new(big.Int).Sub(tot, x)}
		}
		opts = append(opts, client.WithFundingAgreement(agreement))
	}
	if st.Int("pn") == 2 {
		// the application keeps one options value that configures no nonce and
		// passes it - and nothing else - to every proposal it builds (as the
		// library's own test roles do with their app option): the library draws
		// the proposer's nonce share itself, afresh for every proposal
		if p.sharedOpts == nil {
			p.sharedOpts = client.WithoutApp()
		}
		opts = []client.ProposalOpts{p.sharedOpts}
		p.lastData = channel.NoData()
		p.s.Count("probe.proposal_from_reused_options_value", 1)
	}
	cd := uint64(st.Int("challenge"))
	if cd == 0 {
		cd = 10
	}
	me, peer := p.n[side], p.n[1-side]
	prop, err := client.NewLedgerChannelProposal(cd, me.Acc.Addr, &alloc, []map[wallet.BackendID]wire.Address{me.Wire, peer.Wire}, opts...)
	if err != nil {
		p.s.Note("open: building proposal failed: %v", err)
		return -1
	}
	ctx, cancel := me.Ctx()
	defer cancel()
	o := &opRec{step: step, op: "open", side: side, start: p.s.Now()}
	ch, err := me.Client.ProposeChannel(ctx, prop)
	o.end, o.err, o.class = p.s.Now(), err, classify(err)
	p.record(o)
	p.s.Event(me.Name, "driver:open", fmt.Sprintf("err=%v", err))
	p.lastOpenErr = err
	if err != nil || ch == nil {
		if o.class == "timeout" {
			p.setTimeout()
		}
		return -1
	}
	o.ch = ch.ID()
	if p.eager {
		// the proposer's controller is usable at once; the responder's is filled
		// in when its Accept has returned
		pairCh := [2]*client.Channel{}
		pairCh[side] = ch
		p.mu.Lock()
		p.chans = append(p.chans, pairCh)
		p.ids = append(p.ids, ch.ID())
		if agreement == nil {
			agreement = alloc.Balances.Clone()
		}
		p.agree = append(p.agree, agreement)
		k := len(p.chans) - 1
		p.mu.Unlock()
		for i := 0; i < 20000; i++ {
			if other := peer.Chan(ch.ID()); other != nil {
				p.mu.Lock()
				p.chans[k][1-side] = other
				p.mu.Unlock()
				return k
			}
			time.Sleep(100 * time.Microsecond)
		}
		p.s.Count("probe.peer_never_obtained_channel", 1)
		return k
	}
	// wait for the peer's controller (Accept returns after funding)
	var other *client.Channel
	for i := 0; i < 2000 && other == nil; i++ {
		other = peer.Chan(ch.ID())
		if other == nil {
			time.Sleep(100 * time.Microsecond)
		}
	}
	if other == nil {
		p.s.Note("open: peer never obtained the channel")
		p.s.Count("probe.peer_never_obtained_channel", 1)
		if p.s.Sc.Property == "C08" {
			p.s.Fail("C08.responder-without-channel", "ProposeChannel returned a funded channel but the responder's Accept never produced one")
		}
		return -1
	}
	pairCh := [2]*client.Channel{}
	pairCh[side], pairCh[1-side] = ch, other
	p.mu.Lock()
	p.chans = append(p.chans, pairCh)
	p.ids = append(p.ids, ch.ID())
	if agreement == nil {
		agreement = alloc.Balances.Clone()
	}
	p.agree = append(p.agree, agreement)
	k := len(p.chans) - 1
	p.mu.Unlock()
	for sd := 0; sd < 2; sd++ {
		if p.watchSide[sd] {
			p.n[sd].Watch(pairCh[sd])
		}
	}
	return k
}

// enabledHook is called from a node's persister when a state was enabled.
func (p *pair) enabledHook(side int, id channel.ID) {
	k := fmt.Sprintf("%d:%x", side, id)
	p.mu.Lock()
	c := p.coe[k]
	delete(p.coe, k)
	p.mu.Unlock()
	if c != nil {
		c()
		p.s.Count("fault.cancel_on_enable", 1)
	}
}

func (p *pair) setTimeout() {
	p.mu.Lock()
	p.timeout = true
	p.mu.Unlock()
}

// pay issues Channel.Update on channel k by side moving amt of asset 0 to the peer.
func (p *pair) pay(step int, ch *client.Channel, side int, amt int64, timeout time.Duration, final bool) *opRec {
	me := p.n[side]
	o := &opRec{step: step, op: "pay", side: side, ch: ch.ID(), start: p.s.Now(), enBefore: len(me.Rec.EnabledOf(ch.ID()))}
	ctx, cancel := context.WithTimeout(context.Background(), timeout+p.s.Delay(fmt.Sprintf("ctx:pay:%d", step), 0, time.Millisecond))
	defer cancel()
	if p.cancelOnEnable {
		// the caller cancels its context the moment it learns (through its
		// persister) that the new state has been enabled - Update is still
		// running then and has yet to hand the state to the watcher
		p.cancelOnEnable = false
		p.mu.Lock()
		if p.coe == nil {
			p.coe = map[string]context.CancelFunc{}
		}
		p.coe[fmt.Sprintf("%d:%x", side, ch.ID())] = cancel
		p.mu.Unlock()
		p.s.Count("fault.cancel_on_enable_armed", 1)
	}
	idx := int(ch.Idx())
	err := ch.Update(ctx, func(s *channel.State) {
		a := big.NewInt(amt)
		if s.Balances[0][idx].Cmp(a) < 0 {
			a = new(big.Int).Set(s.Balances[0][idx])
		}
		s.Balances[0][idx].Sub(s.Balances[0][idx], a)
		s.Balances[0][1-idx].Add(s.Balances[0][1-idx], a)
		if final {
			s.IsFinal = true
		}
		c := *s
		c.Version++
		o.proposed = gen.EncodeState(&c)
		o.version = c.Version
	})
	o.end, o.err, o.class = p.s.Now(), err, classify(err)
	if o.class == "timeout" {
		p.setTimeout()
	}
	p.record(o)
	p.s.Event(me.Name, "driver:update", fmt.Sprintf("%s v%d amt=%d -> %s (%v)", p.s.ChanName(ch.ID()), o.version, amt, o.class, err))
	return o
}

// token returns the per-channel token (created full).
func (p *pair) token(key string) chan struct{} {
	p.mu.Lock()
	defer p.mu.Unlock()
	t := p.tokens[key]
	if t == nil {
		t = make(chan struct{}, 1)
		t <- struct{}{}
		p.tokens[key] = t
	}
	return t
}
