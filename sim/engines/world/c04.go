package worldeng

import (
	"context"
	"fmt"
	"math/big"
	"strings"
	"sync"
	"time"

	"perun.network/go-perun/channel"
	"perun.network/go-perun/client"

	"verif/sim/gen"
	"verif/sim/kernel"
	"verif/sim/world"
)

// c04state drives the semi-honest side of C04: a real client for the
// off-chain protocol plus an adversary that registers outdated signed states.
type c04state struct {
	slowStarted bool // the slow sub-channel decision was started
	p           *pair
	adv, honest int

	mu          sync.Mutex
	updSent     map[string]time.Duration // channel:version -> when the peer put that update proposal on the wire
	started     bool                     // some adversarial registration succeeded
	advRegs     []advReg
	settling    bool
	settleDone  chan struct{}
	settleErr   error
	settleBegan time.Duration
}

type advReg struct {
	at      time.Duration
	version uint64
	err     error
}

func (c *c04state) disputed() bool {
	return false // the driver is not omniscient: it keeps issuing updates until the clients refuse them
}

// advRegister registers an earlier fully signed state of the ledger channel.
func (c *c04state) advRegister(step int, st *kernel.Step) {
	p := c.p
	if len(p.chans) == 0 {
		return
	}
	if d := st.Int("delay_us"); d > 0 {
		time.Sleep(time.Duration(d)*time.Microsecond + p.s.Delay(fmt.Sprintf("adv:delay:%d", step), 0, time.Microsecond))
	}
	id := p.ids[0]
	hist := p.n[c.adv].Rec.EnabledOf(id)
	if len(hist) < 2 {
		return // nothing outdated to register yet
	}
	latest := hist[len(hist)-1].Version
	back := uint64(st.Int("back"))
	if back < 1 {
		back = 1
	}
	if back > latest {
		back = latest
	}
	want := latest - back
	var old *world.EnabledRec
	for i := range hist {
		if hist[i].Version == want {
			old = &hist[i]
		}
	}
	if old == nil {
		return
	}
	if ms := p.s.Sc.Cfg("slow_sub_update_ms", 0); ms > 0 && !c.slowStarted {
		// an update of an open sub-channel is pending at the honest side, whose
		// user takes seconds to decide: the sub-channel's machine lock is held
		// while the dispute starts
		for k := range p.subs {
			if si := &p.subs[k]; !si.closed {
				c.slowStarted = true
				p.mu.Lock()
				if p.slowNext == nil {
					p.slowNext = map[string]time.Duration{}
				}
				p.slowNext[p.n[c.honest].Name] = time.Duration(ms) * time.Millisecond
				p.mu.Unlock()
				p.wg.Add(1)
				go func() {
					defer p.wg.Done()
					p.pay(step, si.chans[c.adv], c.adv, 1, 30*time.Second, false)
				}()
				time.Sleep(2*time.Millisecond + p.s.Delay("adv:slow-sub-gap", 0, time.Millisecond))
				p.s.Count("fault.slow_decision_on_sub_update", 1)
				break
			}
		}
	}
	if ms := p.s.Sc.Cfg("slow_ledger_update_ms", 0); ms > 0 && !c.slowStarted {
		// an update of the ledger channel itself is pending at the honest side,
		// whose user takes seconds to decide: the ledger channel's machine lock
		// is held while the outdated state is registered and refuted
		c.slowStarted = true
		p.mu.Lock()
		if p.slowNext == nil {
			p.slowNext = map[string]time.Duration{}
		}
		p.slowNext[p.n[c.honest].Name] = time.Duration(ms) * time.Millisecond
		p.mu.Unlock()
		p.wg.Add(1)
		go func() {
			defer p.wg.Done()
			p.pay(step, p.chans[0][c.adv], c.adv, 600+int64(step), 30*time.Second, false)
		}()
		time.Sleep(2*time.Millisecond + p.s.Delay("adv:slow-ledger-gap", 0, time.Millisecond))
		p.s.Count("fault.slow_decision_on_ledger_update", 1)
	}
	ch := p.chans[0][c.adv]
	req := channel.AdjudicatorReq{Params: ch.Params(), Acc: p.n[c.adv].Acc.AccMap, Idx: ch.Idx(),
		Tx: channel.Transaction{State: old.State.Clone(), Sigs: old.Sigs}}
	// sub-states for the channels locked in the old parent state: any signed state the adversary holds
	var subs []channel.SignedState
	for _, la := range old.State.Locked {
		sh := p.n[c.adv].Rec.EnabledOf(la.ID)
		if len(sh) == 0 {
			return
		}
		pick := sh[int(kernel.Derive(p.s.Sc.Seed, "advsub", step)%uint64(len(sh)))]
		var params *channel.Params
		for _, si := range p.subs {
			if si.id == la.ID {
				params = si.chans[c.adv].Params()
			}
		}
		if params == nil {
			return
		}
		subs = append(subs, channel.SignedState{Params: params, State: pick.State.Clone(), Sigs: pick.Sigs})
	}
	ctx, cancel := context.WithTimeout(context.Background(), 10*time.Second)
	defer cancel()
	err := p.w.Ledger.Party(p.n[c.adv].Name).Register(ctx, req, subs)
	if err == nil && st.Int("honest_fail") == 1 {
		// the honest side's next ledger transaction fails with a transient error
		// (its refutation does not go through at the first attempt). The property
		// does not quantify over ledger faults, so the fault comes with what makes
		// it survivable: the chain node delivers the latest registered event
		// again, twice, and the fault is disarmed before the second time
		hn := p.n[c.honest].Name
		p.w.Ledger.ArmRegisterFailure(hn, true)
		p.s.Count("fault.honest_register_fails_once", 1)
		p.wg.Add(1)
		go func() {
			defer p.wg.Done()
			time.Sleep(100*time.Millisecond + p.s.Delay(fmt.Sprintf("adv:redeliver:%d", step), 0, 100*time.Millisecond))
			p.w.Ledger.Redeliver(id)
			time.Sleep(150*time.Millisecond + p.s.Delay(fmt.Sprintf("adv:redeliver2:%d", step), 0, 50*time.Millisecond))
			p.w.Ledger.ArmRegisterFailure(hn, false)
			p.w.Ledger.Redeliver(id)
		}()
	}
	p.s.Count("fault.outdated_registration", 1)
	p.s.Event("ADV", "adv:register", fmt.Sprintf("%s v%d (latest v%d) err=%v", p.s.ChanName(id), want, latest, err))
	c.mu.Lock()
	c.advRegs = append(c.advRegs, advReg{at: p.s.Now(), version: want, err: err})
	if err == nil {
		c.started = true
	}
	c.mu.Unlock()
}

// honestSettle is called from the honest side's adjudicator event handler.
func (c *c04state) honestSettle(ch *client.Channel) {
	c.mu.Lock()
	if c.settleDone == nil {
		c.settleDone = make(chan struct{})
	}
	already := c.settling
	c.settling = true
	c.mu.Unlock()
	if already {
		return // never block a second caller on a std mutex inside the bubble (R3)
	}
	func() {
		p := c.p
		cd := time.Duration(ch.Params().ChallengeDuration) * time.Second
		if p.s.Sc.Cfg("lazy_settle", 0) == 1 {
			// a user who relies on the watcher during the challenge period and
			// settles only once it is over
			time.Sleep(cd + time.Second + p.s.Delay("driver:lazy-settle", 0, time.Millisecond))
			p.s.Count("fault.settle_only_after_challenge_period", 1)
		}
		c.settleBegan = p.s.Now()
		ctx, cancel := context.WithTimeout(context.Background(), cd+180*time.Second)
		defer cancel()
		// a Settle call that races with the arrival of the registered events of
		// the channel tree may fail; the user repeats it (see C03)
		var err error
		for attempt := 0; attempt < 8; attempt++ {
			actx, acancel := ctx, context.CancelFunc(func() {})
			if p.s.Sc.Cfg("short_settle_ctx", 0) == 1 && attempt < 3 {
				// an impatient user: the first attempts get 300 ms each
				actx, acancel = context.WithTimeout(ctx, 300*time.Millisecond+p.s.Delay("ctx:short-settle", 0, time.Millisecond))
			}
			err = ch.Settle(actx, false)
			acancel()
			p.s.Event(p.n[c.honest].Name, "driver:settle", fmt.Sprintf("honest attempt %d err=%v", attempt, err))
			if err == nil || ctx.Err() != nil {
				break
			}
			p.s.Count("probe.settle_retry", 1)
			time.Sleep(300*time.Millisecond + p.s.Delay("driver:honest-settle-retry", 0, time.Millisecond))
		}
		c.mu.Lock()
		c.settleErr = err
		c.mu.Unlock()
		close(c.settleDone)
	}()
}

// finish makes sure a dispute happened, waits for the honest settlement and
// lets the adversary's client collect its share.
func (c *c04state) finish(step int, st *kernel.Step) {
	p := c.p
	c.mu.Lock()
	started := c.started
	c.mu.Unlock()
	if !started {
		c.advRegister(step, &kernel.Step{Op: "adv-register", A: map[string]int64{"back": 1 + st.Int("gap_us")%3}})
	}
	c.mu.Lock()
	started = c.started
	if c.settleDone == nil {
		c.settleDone = make(chan struct{})
	}
	done := c.settleDone
	c.mu.Unlock()
	if !started {
		return // there never was an outdated state to register (no update was agreed)
	}
	cd := time.Duration(p.chans[0][0].Params().ChallengeDuration) * time.Second
	t := time.NewTimer(cd + 400*time.Second)
	select {
	case <-done:
		t.Stop()
	case <-t.C:
		p.s.Fail("C04.honest-never-settled"+c.shape(), "the honest client did not settle within the challenge period plus 400 simulated seconds after the outdated registration")
		return
	}
	// the adversary's client withdraws too (errors are its own problem)
	ctx, cancel := context.WithTimeout(context.Background(), cd+120*time.Second)
	defer cancel()
	err := p.chans[0][c.adv].Settle(ctx, true)
	p.s.Event(p.n[c.adv].Name, "driver:settle", fmt.Sprintf("adversary's client err=%v", err))
}

func (c *c04state) check(before map[string][]*big.Int) {
	p, s := c.p, c.p.s
	c.mu.Lock()
	started, serr := c.started, c.settleErr
	c.mu.Unlock()
	if !started || s.Failed() {
		return
	}
	id := p.ids[0]
	h := p.n[c.honest]
	if serr != nil {
		s.Fail("C04.honest-settle-failed"+c.shape(), "the watching honest client could not settle after an outdated registration: %v", serr)
		return
	}
	// n: newest version the honest client had enabled when its machine entered Registered
	tReg, ok := h.Rec.FirstPhase(id, channel.Registered)
	if !ok {
		s.Fail("C04.never-registered-phase", "the honest client's machine never entered Registered")
		return
	}
	newest := func(ch channel.ID) *world.EnabledRec {
		var best *world.EnabledRec
		l := h.Rec.EnabledOf(ch)
		for i := range l {
			if l[i].At <= tReg {
				best = &l[i]
			}
		}
		return best
	}
	N := newest(id)
	if N == nil {
		return
	}
	rv, _, concluded, rok := p.w.Ledger.Registered(id)
	if !rok || !concluded {
		s.Fail("C04.not-concluded", "channel not registered/concluded after settlement")
		return
	}
	if rv < N.Version {
		s.Fail("C04.old-version-concluded"+c.shape(), "%s was concluded with v%d although the honest client had agreed to v%d", s.ChanName(id), rv, N.Version)
		return
	}
	hidx := int(p.chans[0][c.honest].Idx())
	// The concluded tree consists of states the honest client agreed to, each
	// at least as new as what it had agreed to when it learnt of the dispute;
	// its payout must be at least its balances in those states.
	agreed := func(ch channel.ID, st *channel.State) bool {
		enc := gen.EncodeState(st)
		for _, e := range h.Rec.EnabledOf(ch) {
			if string(e.Enc) == string(enc) {
				return true
			}
		}
		return false
	}
	regParent := p.w.Ledger.RegisteredState(id)
	if regParent == nil || !agreed(id, regParent) {
		s.Fail("C04.concluded-unagreed-state"+c.shape(), "%s was concluded with a state the honest client never enabled", s.ChanName(id))
		return
	}
	want := make([]*big.Int, len(regParent.Balances))
	for a := range want {
		want[a] = new(big.Int).Set(regParent.Balances[a][hidx])
	}
	for _, la := range regParent.Locked {
		ns := newest(la.ID)
		srv, _, _, sok := p.w.Ledger.Registered(la.ID)
		if ns != nil && (!sok || srv < ns.Version) {
			s.Fail("C04.old-subversion-concluded"+c.shape(), "sub-channel %s concluded with v%d, the honest client had agreed to v%d", s.ChanName(la.ID), srv, ns.Version)
			return
		}
		regSub := p.w.Ledger.RegisteredState(la.ID)
		if regSub == nil || !agreed(la.ID, regSub) {
			s.Fail("C04.concluded-unagreed-substate"+c.shape(), "sub-channel %s was concluded with a state the honest client never enabled", s.ChanName(la.ID))
			return
		}
		for a := range want {
			want[a].Add(want[a], regSub.Balances[a][hidx])
		}
		s.Count("probe.dispute_with_open_subchannel", 1)
	}
	var debit []*big.Int
	for _, f := range p.w.Ledger.CallsOf("Fund", id) {
		if f.Who == h.Name {
			debit = f.Paid
		}
	}
	for a := range want {
		got := new(big.Int).Sub(p.w.Ledger.Balance(h.Name, gen.Asset(a)), new(big.Int).Sub(before[h.Name][a], debit[a]))
		if got.Cmp(want[a]) < 0 {
			s.Fail("C04.payout-too-low"+c.shape(), "honest %s received %v of asset %d, its balance in the concluded states it agreed to (parent v%d) is %v", h.Name, got, a, regParent.Version, want[a])
			return
		}
	}
	s.Count("probe.dispute_resolved", 1)
	refuted := false
	for _, r := range p.w.Ledger.CallsOf("Register", id) {
		if r.Who == h.Name && r.Err == "" {
			refuted = true
		}
	}
	if refuted {
		s.Count("probe.refutation_by_watcher_or_client", 1)
	}
	s.Res.NonTrivial = refuted
}

// beganAtHonest returns the instant at which the honest client began to
// handle the update to version v of channel id: its own Update call, or (a
// lower bound) the sending of the peer's proposal.
func (c *c04state) beganAtHonest(id channel.ID, v uint64) (time.Duration, bool) {
	p := c.p
	h := p.n[c.honest]
	p.mu.Lock()
	defer p.mu.Unlock()
	for _, o := range p.ops {
		if o.op == "pay" && o.side == c.honest && o.ch == id && o.version == v && o.class == "ok" {
			return o.start, true
		}
	}
	// (the peer's proposal waits for the machine lock behind whatever holds it;
	// what counts is when it joined the queue, and the instant it was sent is a
	// lower bound of that)
	_ = h
	c.mu.Lock()
	defer c.mu.Unlock()
	t, ok := c.updSent[fmt.Sprintf("%x:%d", id, v)]
	return t, ok
}

// shape classifies a violation by history shape (DESIGN C04/L): was the
// honest client's newest state enabled after the last registered event its
// watcher processed (i.e. after the last Register call of the honest side)?
func (c *c04state) shape() string {
	p := c.p
	id := p.ids[0]
	h := p.n[c.honest]
	// a refutation attempt of the honest side failed because the newest parent
	// state locks a sub-channel that was still being opened (not yet watched)
	for _, r := range p.w.Ledger.CallsOf("Register", id) {
		if r.Who != h.Name || !strings.Contains(r.Err, "sub-state") || !strings.Contains(r.Err, "missing") {
			continue
		}
		// newest parent state the honest client had enabled at the time of the call
		var st *world.EnabledRec
		l := h.Rec.EnabledOf(id)
		for i := range l {
			if l[i].At <= r.Issued {
				st = &l[i]
			}
		}
		if st == nil {
			continue
		}
		for _, la := range st.State.Locked {
			// the watcher looked the sub-channel up just before it issued the call
			if !p.w.Ledger.SubscribedBefore(h.Name, la.ID, r.Issued-100*time.Microsecond) {
				return "@unwatched-locked-subchannel"
			}
		}
	}
	// Known window: for some channel X of the tree the honest client's newest
	// enabled state S is not what is registered, and after S was handed to the watcher no
	// registered event for X with a lower version reached the honest watcher's
	// subscription for X - the unmodified watcher compares versions only when
	// such an event arrives, so it never had the occasion to register S.
	// (If such an event did arrive after S was enabled, an unmodified watcher
	// refutes with S; a missing refutation then is a different defect.)
	// the tree: the ledger channel and the sub-channels that are still open (a
	// sub-channel that was settled into the parent is no longer locked in the
	// parent's newest state; an old state of it that the adversary registered
	// together with an old parent state is superseded with the parent's)
	ids := []channel.ID{id}
	for _, si := range p.subs {
		if !si.closed {
			ids = append(ids, si.id)
		}
	}
	unregistered, explained := 0, 0
	for _, cid := range ids {
		l := h.Rec.EnabledOf(cid)
		if len(l) == 0 {
			continue
		}
		newest := l[len(l)-1]
		rv, _, _, rok := p.w.Ledger.Registered(cid)
		if !rok || rv >= newest.Version {
			continue
		}
		unregistered++
		// the watcher knows S from the instant the client's Publish returned
		// (the client publishes right after enabling, in the same goroutine; a
		// descheduled goroutine can stretch that gap). A state that was never
		// handed over is the client's omission and is not the known defect.
		handed, ok := h.Rec.PublishedAt(cid, newest.Version)
		occasion := !ok
		// The known window closes when the client's event loop for X takes the
		// first registered event from the watcher: it then waits for the machine
		// lock (first come, first served) and moves the machine to Registered,
		// after which no update is accepted. An update whose handling began well
		// after that instant is not the known defect: the client was told of the
		// dispute and carried on.
		if told, tok := h.Rec.FirstToldRegistered(cid); tok {
			if began, bok := c.beganAtHonest(cid, newest.Version); bok && began > told+100*time.Millisecond {
				occasion = true
			}
		}
		// (an event that arrives when the challenge period is over, or so late in
		// it that a registration issued at once could not be mined in time, is no
		// occasion to refute)
		_, deadline, _, _ := p.w.Ledger.Registered(cid)
		for _, d := range p.w.Ledger.Deliveries(p.w.Ledger.FirstSubName(h.Name, cid)) {
			if d.Registered && d.Version < newest.Version && d.At > handed && d.At+p.w.Ledger.MaxLat+5*time.Millisecond < deadline {
				occasion = true
			}
		}
		if !occasion {
			explained++
		}
	}
	if unregistered > 0 && explained == unregistered {
		return "@newest-state-enabled-after-last-registration"
	}
	return "@newest-state-enabled-before-last-registration"
}
