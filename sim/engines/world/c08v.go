package worldeng

import (
	"bytes"
	"testing"
	"time"

	"perun.network/go-perun/channel"

	"verif/sim/gen"
	"verif/sim/kernel"
	"verif/sim/world"
)

// ---- C08, three-party part: honest virtual channel openings -------------------------

func genC08V(r *kernel.Rand) *kernel.Scenario {
	sc := &kernel.Scenario{Config: map[string]int64{"trio": 1}}
	c := sc.Config
	c["ser"] = int64(r.Intn(2))
	c["fifo"] = int64(r.Intn(2))
	c["bus_max_us"] = int64([]int{100, 400, 2000}[r.Intn(3)])
	c["react_max_us"] = int64([]int{50, 500, 3000}[r.Intn(3)])
	c["yield_pct"] = int64([]int{0, 30, 100}[r.Intn(3)])
	c["long_yields"] = int64(r.Intn(2))
	c["ctx_ms"] = 30000
	c["assets"] = int64(1 + r.Weighted([]int{3, 1}))
	c["r"] = int64(r.Uint64() >> 2)
	n := r.Range(1, 3)
	for i := 0; i < n; i++ {
		sc.Steps = append(sc.Steps, kernel.St("vopen", "a", r.Range(0, 90), "b", r.Range(0, 90)))
		if r.Bool(0.4) {
			sc.Steps = append(sc.Steps, kernel.St("lpay", "ch", r.Intn(2), "from", r.Intn(2), "amt", 1+i))
		}
	}
	return sc
}

func execC08V(tt *testing.T, sc *kernel.Scenario, trace bool) *kernel.Result {
	return world.RunBubble(tt, sc, trace, func(s *world.Sim) {
		t := newTrio(s)
		installYields(s)
		defer removeYields()
		if !t.setup(kernel.NewRand(kernel.Derive(uint64(sc.Cfg("r", 1)), "setup")), int(sc.Cfg("assets", 1))) {
			t.w.Shutdown()
			return
		}
		opened := 0
		ids := map[channel.ID]bool{}
		for i := range sc.Steps {
			st := &sc.Steps[i]
			switch st.Op {
			case "lpay":
				chs := [][2]any{{t.A, t.chAH[0]}, {t.B, t.chBH[0]}}[int(st.Int("ch"))&1]
				_ = chs
				if st.Int("ch")&1 == 0 {
					_ = t.payOn(t.A, t.chAH[0], st.Int("amt"), false, 10*time.Second)
				} else {
					_ = t.payOn(t.B, t.chBH[0], st.Int("amt"), false, 10*time.Second)
				}
			case "vopen":
				v, err := t.openVirtual(i, st.Int("a"), st.Int("b"))
				if err != nil || v == nil {
					s.Note("virtual opening failed: %v", err)
					s.Count("probe.virtual_open_failed", 1)
					continue
				}
				opened++
				// both endpoints derive the same channel
				var pa, pb bytes.Buffer
				_ = v.a.Params().Encode(&pa)
				_ = v.b.Params().Encode(&pb)
				switch {
				case v.a.ID() != v.b.ID():
					s.Fail("C08.different-ids@virtual", "the two endpoints derived different IDs for the virtual channel")
				case !bytes.Equal(pa.Bytes(), pb.Bytes()):
					s.Fail("C08.different-params@virtual", "the two endpoints hold different parameters of the virtual channel")
				case v.a.Idx() != 0 || v.b.Idx() != 1:
					s.Fail("C08.participant-order@virtual", "proposer has index %d, responder %d", v.a.Idx(), v.b.Idx())
				case !v.a.Params().VirtualChannel || v.a.Params().LedgerChannel:
					s.Fail("C08.flags@virtual", "virtual channel parameters carry the wrong flags")
				case ids[v.id]:
					s.Fail("C08.nonce-share-ignored@virtual", "two virtual channels opened with different nonce shares share an ID")
				}
				ids[v.id] = true
				ea, eb := t.A.Rec.EnabledOf(v.id), t.B.Rec.EnabledOf(v.id)
				if len(ea) == 0 || len(eb) == 0 || ea[0].Version != 0 || !bytes.Equal(ea[0].Enc, eb[0].Enc) {
					s.Fail("C08.different-initial-state@virtual", "the two endpoints enabled different version-0 states")
				} else if !ea[0].SigsOK || !eb[0].SigsOK {
					s.Fail("C08.initial-state-not-fully-signed@virtual", "an endpoint enabled the version-0 state without both signatures")
				} else {
					want := ea[0].State
					for a := range want.Balances {
						if want.Balances[a][0].Int64() != st.Int("a") || want.Balances[a][1].Int64() != st.Int("b") {
							s.Fail("C08.initial-state-differs-from-proposal@virtual", "the version-0 state is not the proposed allocation")
						}
					}
					_ = gen.EncodeState
				}
			}
			if s.Failed() {
				break
			}
		}
		s.Count("probe.virtual_opened", int64(opened))
		s.Res.NonTrivial = opened > 0
		time.Sleep(10 * time.Millisecond)
		t.w.Shutdown()
	})
}
