package worldeng

import (
	"bytes"
	"fmt"
	"math/big"
	"strings"
	"testing"
	"time"

	simwire "perun.network/go-perun/backend/sim/wire"
	"perun.network/go-perun/channel"
	"perun.network/go-perun/client"
	"perun.network/go-perun/wallet"
	"perun.network/go-perun/wire"

	"verif/sim/gen"
	"verif/sim/kernel"
	"verif/sim/world"
)

// ---- C08: channel opening --------------------------------------------------------

var c08Mutations = []string{
	"L:one-participant", "L:zero-challenge", "L:prelocked", "L:sender-mismatch", "L:receiver-mismatch", "L:three-peers", "L:three-parts", "L:stranger-ok-shape",
	"S:unknown-parent", "S:other-assets", "S:too-many-funds", "S:from-stranger", "S:zero-challenge", "S:prelocked", "S:more-assets",
	"S:funds-spent-by-inflight-update", "S:assets-permuted",
	"V:funding-agreement-mismatch", "V:short-parents", "V:long-parents", "V:unknown-parent", "V:indexmaps-count", "V:indexmap-entry", "V:too-many-funds",
	"V:other-assets", "V:zero-challenge", "V:no-parents",
}

func genC08(r *kernel.Rand) *kernel.Scenario {
	sc := &kernel.Scenario{Config: map[string]int64{}}
	c := sc.Config
	c["ser"] = int64(r.Intn(2))
	c["fifo"] = int64(r.Intn(2))
	c["async_bus"] = int64(r.Intn(2))
	c["bus_max_us"] = int64([]int{100, 400, 2000}[r.Intn(3)])
	c["bus_ack_max_us"] = int64([]int{0, 0, 100, 3000}[r.Intn(4)])
	c["react_max_us"] = int64([]int{50, 500, 3000}[r.Intn(3)])
	c["ledger_max_us"] = int64([]int{200, 2000}[r.Intn(2)])
	c["yield_pct"] = int64([]int{0, 30, 100}[r.Intn(3)])
	c["long_yields"] = int64(r.Intn(2))
	c["ctx_ms"] = 60000
	// honest openings with nonce-share variations
	n := r.Range(1, 4)
	// everything the channel ID depends on, except the nonce shares, is the
	// same for all openings of a run, so equal IDs can only come from the nonce
	app, cd, aux := r.Intn(2), []int{1, 7, 3600, 1 << 40}[r.Intn(4)], r.Intn(2)
	for i := 0; i < n; i++ {
		st := kernel.St("open", "from", r.Intn(2), "r", int64(r.Uint64()>>2), "app", app, "assets", 1+r.Weighted([]int{5, 3, 2}),
			"agree", r.Weighted([]int{2, 1}), "challenge", cd, "pn", r.Intn(2), "an", r.Intn(2), "aux", aux, "zero", r.Intn(2))
		if kernel.NewRand(kernel.Derive(uint64(st.Int("r")), "reused-opts")).Bool(0.25) {
			st.A["pn"] = 2 // the library draws the proposer's share (one re-used options value, see pair.open)
		}
		sc.Steps = append(sc.Steps, st)
		if r.Bool(0.3) {
			if r.Bool(0.35) {
				// first an attempt that the proposer's own client refuses (it asks for
				// more than the parent holds); the honest opening after it must work
				sc.Steps = append(sc.Steps, kernel.St("sub-open", "a", r.Range(0, 60), "b", r.Range(0, 60), "app", r.Intn(2), "over", 1))
			}
			sc.Steps = append(sc.Steps, kernel.St("sub-open", "a", r.Range(0, 60), "b", r.Range(0, 60), "app", r.Intn(2)))
		}
	}
	if r.Bool(0.25) {
		sc.Steps = append(sc.Steps, kernel.St("open-pair", "from", r.Intn(2), "r", int64(r.Uint64()>>2), "app", app, "assets", 1+r.Intn(2), "challenge", cd, "aux", aux, "gap_us", []int{0, 20, 200, 1500}[r.Intn(4)]))
	}
	if r.Bool(0.25) {
		// an opening during which one message cannot be sent
		sc.Steps = append(sc.Steps, kernel.St("open-fault", "from", r.Intn(2), "r", int64(r.Uint64()>>2), "app", app, "assets", 1, "challenge", cd, "aux", aux, "nth", r.Range(1, 7)))
	}
	// mutants, interleaved
	m := r.Range(0, 6)
	for i := 0; i < m; i++ {
		pos := r.Intn(len(sc.Steps) + 1)
		st := kernel.St("mut", "m", c08Mutations[r.Intn(len(c08Mutations))], "r", int64(r.Uint64()>>2), "delay_us", []int{0, 10, 300}[r.Intn(3)])
		sc.Steps = append(sc.Steps[:pos], append([]kernel.Step{st}, sc.Steps[pos:]...)...)
	}
	return sc
}

// staleMarker is the challenge duration that marks the harness's crafted
// "affordable only before the update in flight" sub-channel proposals.
const staleMarker = 6

type openRec struct {
	id           channel.ID
	pn, an       int64
	same         bool
	sideProposer int
	alloc        channel.Allocation
	sub          bool
}

func execC08(t *testing.T, sc *kernel.Scenario, trace bool) *kernel.Result {
	return world.RunBubble(t, sc, trace, func(s *world.Sim) {
		p := newPair(s)
		p.w.Ledger.MaxLat = time.Duration(sc.Cfg("ledger_max_us", 2000)) * time.Microsecond
		installYields(s)
		defer removeYields()
		H := p.n[1]
		accKey := map[string]string{}
		zWire := map[wallet.BackendID]wire.Address{channel.TestBackendID: func() *simwire.Address { a := simwire.NewAddress(); copy(a[:], "stranger-Z"); return a }()}
		p.w.Bus.Name(zWire, "Z")
		honestToH := 0
		// The receiver's situation includes updates in flight: whenever the
		// handler runs for a sub-channel proposal, the parent is locked by the
		// proposal handling, so the proposal must be affordable in the parent's
		// current state (the newest one H has enabled).
		staleLegit := 0
		origOnProposal := H.OnProposal
		H.OnProposal = func(cp client.ChannelProposal) (bool, time.Duration) {
			sp, ok := cp.(*client.SubChannelProposalMsg)
			if !ok {
				return origOnProposal(cp)
			}
			if l := H.Rec.EnabledOf(sp.Parent); len(l) > 0 {
				cur := l[len(l)-1].State
				for a := range cur.Balances {
					for k := range cur.Balances[a] {
						if a < len(sp.InitBals.Balances) && k < len(sp.InitBals.Balances[a]) && sp.InitBals.Balances[a][k].Cmp(cur.Balances[a][k]) > 0 {
							s.Fail("C08.handler-invoked-for-bad-proposal@parent-funds", "the proposal handler of H ran for a sub-channel proposal that takes %v of asset %d from participant %d, whose balance in the parent's current state v%d is %v",
								sp.InitBals.Balances[a][k], a, k, cur.Version, cur.Balances[a][k])
						}
					}
				}
			}
			p.mu.Lock()
			crafted := p.craftedFunds[sp.ProposalID]
			p.mu.Unlock()
			if crafted && !s.Failed() {
				// a crafted "one coin more than the parent holds" proposal that had to
				// wait for an update in flight and is affordable in the state after it:
				// legitimately shown to the user, who declines
				staleLegit++
				s.Count("probe.crafted_proposal_became_affordable", 1)
				return false, s.Delay("react:stale-proposal", 0, 100*time.Microsecond)
			}
			if sp.ChallengeDuration == staleMarker {
				// crafted by the harness (nobody completes the opening): affordable at
				// this moment, hence legitimately shown to the user, who declines
				staleLegit++
				return false, s.Delay("react:stale-proposal", 0, 100*time.Microsecond)
			}
			return origOnProposal(cp)
		}
		var opens []openRec
		mutants, faulted := 0, 0
		for i := range sc.Steps {
			st := &sc.Steps[i]
			switch st.Op {
			case "open":
				side := int(st.Int("from")) & 1
				if side == 0 {
					honestToH++
				}
				before := len(p.chans)
				// the acceptor's nonce share for this proposal
				p.nextAccKey = fmt.Sprintf("an:%d", st.Int("an"))
				p.nextPropNonce = fmt.Sprintf("pn:%d", st.Int("pn"))
				k := p.openWith(i, side, st, accKey)
				if k >= 0 && len(p.chans) > before {
					opens = append(opens, openRec{id: p.ids[k], pn: st.Int("pn"), an: st.Int("an"), sideProposer: side, alloc: p.lastAlloc})
					checkOpened(p, k, side, p.lastAlloc, p.lastData, st)
				} else if e := p.lastOpenErr; e != nil && !strings.Contains(e.Error(), "channel already exists") {
					// both sides are honest, delivery is reliable and every context is far
					// longer than all delays: an accepted proposal must open the channel
					s.Fail("C08.honest-opening-failed", "an honest ledger channel opening failed under a fault-free schedule: %v", e)
				} else if e != nil {
					// the derived ID collided with an existing channel: only legitimate
					// if an earlier opening used the same proposer and the same two nonce shares
					same := false
					for _, o := range opens {
						// (pn=2: the library draws a fresh share for every proposal, so no
						// collision is legitimate)
						same = same || (o.sideProposer == side && o.pn == st.Int("pn") && o.an == st.Int("an") && st.Int("pn") != 2)
					}
					if !same {
						s.Fail("C08.nonce-share-ignored", "an opening with nonce shares (%d,%d) collided with a channel opened with different shares", st.Int("pn"), st.Int("an"))
					} else {
						s.Count("probe.identical_shares_collide", 1)
					}
				}
			case "open-pair":
				// two honest openings by the same proposer towards the same peer are
				// under way at once (other nonce shares, hence other channels): both
				// proposals are accepted, so both must yield their channel on both sides
				side := int(st.Int("from")) & 1
				if side == 0 {
					honestToH += 2
				}
				p.nextAccKey, p.nextPropNonce = "", ""
				p.mu.Lock()
				wasEager := p.eager
				p.eager = true
				p.mu.Unlock()
				res := make(chan int, 2)
				st2 := *st
				st2.A = map[string]int64{}
				for k, v := range st.A {
					st2.A[k] = v
				}
				st2.A["r"] = st.Int("r") + 1
				go func() { res <- p.open(i, side, st) }()
				time.Sleep(s.Delay(fmt.Sprintf("driver:open-pair-gap:%d", i), 0, time.Duration(st.Int("gap_us"))*time.Microsecond))
				go func() { res <- p.open(i+1000, side, &st2) }()
				k1, k2 := <-res, <-res
				p.mu.Lock()
				p.eager = wasEager
				p.mu.Unlock()
				s.Count("fault.two_openings_at_once", 1)
				for _, k := range []int{k1, k2} {
					if k < 0 || p.chans[k][0] == nil || p.chans[k][1] == nil {
						s.Fail("C08.honest-opening-failed@two-at-once", "of two honest ledger channel openings by the same proposer that were under way at once, one did not yield its channel on both sides (last error: %v)", p.lastOpenErr)
						break
					}
					opens = append(opens, openRec{id: p.ids[k], pn: -int64(i) - int64(k), an: -int64(i) - int64(k), sideProposer: side, alloc: p.lastAlloc})
					checkOpenedPair(p, p.chans[k][0], p.chans[k][1], "ledger")
				}
			case "open-fault":
				// an honest opening during which one message cannot be sent (a
				// transient connection fault). Whether it succeeds is not judged: what
				// is judged is that every call returns and that the honest opening at
				// the end of the run still works.
				side := int(st.Int("from")) & 1
				if side == 0 {
					honestToH++
				}
				nth, cnt := st.Int("nth"), int64(0)
				p.w.Bus.FailSend = func(from, to string, e *wire.Envelope) bool {
					cnt++
					return cnt == nth
				}
				p.nextAccKey, p.nextPropNonce = fmt.Sprintf("an:f%d", i), fmt.Sprintf("pn:f%d", i)
				before := len(p.chans)
				known := func() int { return len(p.n[0].ChansSnapshot()) + len(p.n[1].ChansSnapshot()) }
				knownBefore := known()
				k := p.openWith(i, side, st, accKey)
				p.w.Bus.FailSend = nil
				faulted++
				if cnt >= nth {
					s.Count("fault.send_error_during_opening", 1)
				}
				if k >= 0 && len(p.chans) > before {
					opens = append(opens, openRec{id: p.ids[k], pn: -int64(i), an: -int64(i), sideProposer: side, alloc: p.lastAlloc})
				} else if kernel.Derive(uint64(st.Int("r")), "retry-same-proposal")%2 == 0 {
					// the opening failed. Once both sides have given up for good
					// (every context of the attempt has ended) and neither holds a
					// channel, the user tries again with the very same proposal and
					// the very same nonce shares - the same channel ID. Nothing of
					// the failed attempt may stand in its way.
					time.Sleep(p.n[0].CtxTimeout + p.n[1].CtxTimeout + 10*time.Second)
					if known() == knownBefore {
						p.nextAccKey, p.nextPropNonce = fmt.Sprintf("an:f%d", i), fmt.Sprintf("pn:f%d", i)
						s.Count("fault.same_proposal_again_after_failed_opening", 1)
						if side == 0 {
							honestToH++
						}
						if k2 := p.openWith(i, side, st, accKey); k2 >= 0 && len(p.chans) > before {
							opens = append(opens, openRec{id: p.ids[k2], pn: -int64(i), an: -int64(i), sideProposer: side, alloc: p.lastAlloc})
							checkOpened(p, k2, side, p.lastAlloc, p.lastData, st)
						} else if e := p.lastOpenErr; e != nil {
							s.Fail("C08.honest-opening-failed@same-proposal-again", "an opening failed on a connection fault and left no channel on either side; the same proposal with the same nonce shares, made again after every context of the first attempt had ended, failed: %v", e)
						}
					}
				}
			case "sub-open":
				if len(p.chans) > 0 && st.Int("over") == 1 {
					before := len(p.subs)
					p.subOpen(i, st)
					if len(p.subs) > before {
						s.Fail("C08.channel-created-from-bad-proposal@own", "a sub-channel asking for more funds than the parent holds was opened")
					}
					s.Count("fault.own-proposal-refused", 1)
					continue
				}
				if len(p.chans) > 0 {
					if p.chans[0][0].Idx() == 0 {
						honestToH++ // the parent's index 0 (node A here) proposes to H
					}
					before := len(p.subs)
					p.subOpen(i, st)
					if len(p.subs) > before {
						si := p.subs[len(p.subs)-1]
						checkOpenedPair(p, si.chans[0], si.chans[1], "sub")
					} else {
						p.mu.Lock()
						var last *opRec
						if n := len(p.ops); n > 0 && p.ops[n-1].op == "sub-open" && p.ops[n-1].step == i {
							last = p.ops[n-1]
						}
						p.mu.Unlock()
						if last != nil && last.err != nil && !strings.Contains(last.err.Error(), "channel already exists") {
							s.Fail("C08.honest-opening-failed@sub", "an honest sub-channel opening failed under a fault-free schedule: %v", last.err)
						}
					}
				}
			case "mut":
				mutants++
				p.injectMutant(i, st, zWire)
				time.Sleep(time.Duration(st.Int("delay_us")) * time.Microsecond)
				p.wg.Wait() // an update started by the mutant step has returned
			}
			if s.Failed() {
				break
			}
		}
		time.Sleep(50 * time.Millisecond)
		if !s.Failed() && (mutants > 0 || faulted > 0) {
			// a subsequent honest proposal still succeeds
			st := kernel.St("open", "from", 0, "r", 4242, "app", 0, "assets", 1, "challenge", 5)
			p.nextAccKey, p.nextPropNonce = "an:final", "pn:final"
			honestToH++
			if k := p.openWith(len(sc.Steps), 0, &st, accKey); k < 0 {
				s.Fail("C08.honest-proposal-after-mutants-failed", "an honest proposal after %d malformed ones and %d openings with a send error did not open a channel", mutants, faulted)
			}
		}
		time.Sleep(20 * time.Millisecond)
		if !s.Failed() {
			// (b) the handler ran only for honest proposals; channels exist only for them
			in, _ := H.Counts()
			subsFromA := 0
			for range p.subs {
				subsFromA++
			}
			if in > honestToH+staleLegit {
				s.Fail("C08.handler-invoked-for-bad-proposal", "the proposal handler of H ran %d times, only %d well-formed proposals were sent to it", in, honestToH+staleLegit)
			}
			wantCreated := len(p.chans) + len(p.subs)
			if got := len(H.Rec.Created); got > wantCreated+0 && mutants > 0 && got > wantCreatedUpper(p) {
				s.Fail("C08.channel-created-from-bad-proposal", "H created %d channels, %d were honestly opened", got, wantCreated)
			}
			// nonce contribution: distinct share pairs => distinct IDs
			for i := range opens {
				for j := i + 1; j < len(opens); j++ {
					if (opens[i].pn != opens[j].pn || opens[i].an != opens[j].an) && opens[i].id == opens[j].id {
						s.Fail("C08.nonce-share-ignored", "two channels opened with different nonce shares got the same ID")
					}
				}
			}
			s.Res.NonTrivial = len(opens) > 0 && (mutants > 0 || len(opens) > 1)
		}
		s.Count("probe.opened", int64(len(opens)))
		s.Count("probe.mutants", int64(mutants))
		p.w.Shutdown()
	})
}

func wantCreatedUpper(p *pair) int {
	// failed honest openings (e.g. identical nonce shares -> "channel already
	// exists") may have created and dropped a controller; count them generously
	n := 0
	p.mu.Lock()
	for _, o := range p.ops {
		if o.op == "open" || o.op == "sub-open" {
			n++
		}
	}
	p.mu.Unlock()
	return n
}

// openWith is pair.open with scenario-controlled nonce shares and richer parameters.
func (p *pair) openWith(step, side int, st *kernel.Step, accKey map[string]string) int {
	p.accKeyMap = accKey
	return p.open(step, side, st)
}

func checkOpened(p *pair, k, side int, alloc channel.Allocation, data channel.Data, st *kernel.Step) {
	a, b := p.chans[k][0], p.chans[k][1]
	checkOpenedPair(p, a, b, "ledger")
	if p.s.Failed() {
		return
	}
	prop, resp := p.chans[k][side], p.chans[k][1-side]
	if prop.Idx() != 0 || resp.Idx() != 1 {
		p.s.Fail("C08.participant-order", "proposer has index %d, responder %d", prop.Idx(), resp.Idx())
		return
	}
	// version-0 state equals the proposed balances and data
	v0 := p.n[side].Rec.EnabledOf(prop.ID())
	if len(v0) == 0 {
		p.s.Fail("C08.no-initial-state", "no version-0 state enabled")
		return
	}
	s0 := v0[0].State
	want := &channel.State{ID: prop.ID(), Version: 0, App: prop.Params().App, Allocation: alloc, Data: data}
	if !bytes.Equal(gen.EncodeState(want), gen.EncodeState(s0)) {
		p.s.Fail("C08.initial-state-differs-from-proposal", "the version-0 state is not the proposed allocation and data")
	}
}

func checkOpenedPair(p *pair, a, b *client.Channel, kind string) {
	s := p.s
	var pa, pb bytes.Buffer
	_ = a.Params().Encode(&pa)
	_ = b.Params().Encode(&pb)
	if a.ID() != b.ID() || a.Params().ID() != b.Params().ID() {
		s.Fail("C08.different-ids@"+kind, "the two sides derived different channel IDs")
		return
	}
	if !bytes.Equal(pa.Bytes(), pb.Bytes()) {
		s.Fail("C08.different-params@"+kind, "the two sides hold different channel parameters")
		return
	}
	ea, eb := p.n[0].Rec.EnabledOf(a.ID()), p.n[1].Rec.EnabledOf(b.ID())
	if len(ea) == 0 || len(eb) == 0 {
		s.Fail("C08.no-initial-state@"+kind, "a side has no enabled version-0 state")
		return
	}
	if ea[0].Version != 0 || eb[0].Version != 0 || !bytes.Equal(ea[0].Enc, eb[0].Enc) {
		s.Fail("C08.different-initial-state@"+kind, "the two sides enabled different version-0 states")
		return
	}
	if !ea[0].SigsOK || !eb[0].SigsOK {
		s.Fail("C08.initial-state-not-fully-signed@"+kind, "a side enabled the version-0 state without both valid signatures")
	}
}

// injectMutant crafts a proposal that breaks one validity condition and
// delivers it to H as coming from A (channel counterparty) or Z (stranger).
func (p *pair) injectMutant(step int, st *kernel.Step, zWire map[wallet.BackendID]wire.Address) {
	s := p.s
	r := kernel.NewRand(kernel.Derive(uint64(st.Int("r")), "mut"))
	A, H := p.n[0], p.n[1]
	m := st.Str("m")
	fromWire, fromAcc := A.Wire, A.Acc.Addr
	if (r.Bool(0.4) && m != "S:funds-spent-by-inflight-update") || m == "S:from-stranger" || m == "L:stranger-ok-shape" {
		fromWire, fromAcc = zWire, gen.Pool(6)[5].Addr
	}
	mkAlloc := func(parts int, vals ...int64) *channel.Allocation {
		a := &channel.Allocation{Assets: []channel.Asset{gen.Asset(0)}, Backends: []wallet.BackendID{channel.TestBackendID}}
		row := make([]channel.Bal, parts)
		for i := range row {
			v := int64(10)
			if i < len(vals) {
				v = vals[i]
			}
			row[i] = big.NewInt(v)
		}
		a.Balances = channel.Balances{row}
		return a
	}
	nonce := client.WithNonceFrom(kernel.NewRand(kernel.Derive(s.Sc.Seed, "mutnonce", step)))
	var parent *client.Channel
	if len(p.chans) > 0 {
		parent = p.chans[0][1] // H's controller
	}
	var msg wire.Msg
	var err error
	switch m {
	case "L:one-participant":
		msg, err = client.NewLedgerChannelProposal(5, fromAcc, mkAlloc(1), []map[wallet.BackendID]wire.Address{fromWire, H.Wire}, nonce)
	case "L:zero-challenge":
		msg, err = client.NewLedgerChannelProposal(0, fromAcc, mkAlloc(2), []map[wallet.BackendID]wire.Address{fromWire, H.Wire}, nonce)
	case "L:prelocked":
		a := mkAlloc(2)
		a.Locked = []channel.SubAlloc{*channel.NewSubAlloc(gen.SubID(9), []channel.Bal{big.NewInt(1)}, nil)}
		msg, err = client.NewLedgerChannelProposal(5, fromAcc, a, []map[wallet.BackendID]wire.Address{fromWire, H.Wire}, nonce)
	case "L:sender-mismatch":
		other := zWire
		if p.w.Bus.NameOf(fromWire) == "Z" {
			other = A.Wire
		}
		msg, err = client.NewLedgerChannelProposal(5, fromAcc, mkAlloc(2), []map[wallet.BackendID]wire.Address{other, H.Wire}, nonce)
	case "L:receiver-mismatch":
		msg, err = client.NewLedgerChannelProposal(5, fromAcc, mkAlloc(2), []map[wallet.BackendID]wire.Address{fromWire, zWire}, nonce)
		if p.w.Bus.NameOf(fromWire) == "Z" {
			msg, err = client.NewLedgerChannelProposal(5, fromAcc, mkAlloc(2), []map[wallet.BackendID]wire.Address{fromWire, A.Wire}, nonce)
		}
	case "L:three-peers":
		msg, err = client.NewLedgerChannelProposal(5, fromAcc, mkAlloc(2), []map[wallet.BackendID]wire.Address{fromWire, H.Wire, zWire}, nonce)
	case "L:three-parts":
		msg, err = client.NewLedgerChannelProposal(5, fromAcc, mkAlloc(3), []map[wallet.BackendID]wire.Address{fromWire, H.Wire}, nonce)
	case "L:stranger-ok-shape":
		// control: a well-formed proposal from a stranger is NOT a mutant; it must reach the handler.
		// Not sent (the stranger has no client to complete the protocol); counted only.
		s.Count("probe.control_skipped", 1)
		return
	case "S:funds-spent-by-inflight-update":
		// H pays most of its parent balance to A; while that update is in flight
		// A's address sends a sub-channel proposal that H can afford before the
		// update and cannot afford after it.
		if parent == nil {
			s.Count("probe.control_skipped", 1)
			return
		}
		l := H.Rec.EnabledOf(parent.ID())
		if len(l) == 0 {
			return
		}
		ps := l[len(l)-1].State
		hidx := int(parent.Idx())
		bH := ps.Balances[0][hidx].Int64()
		if bH < 8 || len(ps.Locked) > 0 && !channel.IsNoApp(ps.App) {
			s.Count("probe.control_skipped", 1)
			return
		}
		spend := bH - 1 - int64(r.Intn(3))
		x := bH - spend + 1 + int64(r.Intn(int(spend)))
		a := &channel.Allocation{Assets: append([]channel.Asset{}, ps.Assets...), Backends: append([]wallet.BackendID{}, ps.Backends...)}
		for range ps.Assets {
			a.Balances = append(a.Balances, []channel.Bal{big.NewInt(0), big.NewInt(0)})
		}
		a.Balances[0][hidx] = big.NewInt(x)
		msg, err = client.NewSubChannelProposal(parent.ID(), staleMarker, a, nonce)
		if err != nil {
			break
		}
		if kernel.Derive(uint64(st.Int("r")), "slow-decision")%3 == 0 {
			// A's user takes longer over that update than any lock wait inside
			// the client could be meant to last: the proposal has to wait for
			// the parent all the same, however long the update stays in flight
			p.mu.Lock()
			if p.slowNext == nil {
				p.slowNext = map[string]time.Duration{}
			}
			p.slowNext[A.Name] = 10500*time.Millisecond + s.Delay(fmt.Sprintf("stale-slow:%d", step), 0, 4*time.Second)
			p.mu.Unlock()
			s.Count("fault.slow_decision_on_inflight_update", 1)
		}
		p.wg.Add(1)
		go func() {
			defer p.wg.Done()
			p.pay(step, parent, 1, spend, 30*time.Second, false)
		}()
		time.Sleep(s.Delay(fmt.Sprintf("stale-gap:%d", step), 0, []time.Duration{20 * time.Microsecond, 200 * time.Microsecond, 2 * time.Millisecond}[r.Intn(3)]))
	case "S:unknown-parent":
		msg, err = client.NewSubChannelProposal(gen.SubID(r.Uint64()), 5, mkAlloc(2, 1, 1), nonce)
	case "S:from-stranger", "S:other-assets", "S:too-many-funds", "S:zero-challenge", "S:prelocked", "S:more-assets", "S:assets-permuted":
		pid := gen.SubID(77)
		a := mkAlloc(2, 1, 1)
		if parent != nil {
			pid = parent.ID()
			ps := parent.State()
			a = &channel.Allocation{Assets: append([]channel.Asset{}, ps.Assets...), Backends: append([]wallet.BackendID{}, ps.Backends...)}
			for range ps.Assets {
				a.Balances = append(a.Balances, []channel.Bal{big.NewInt(1), big.NewInt(1)})
			}
			switch m {
			case "S:other-assets":
				a.Assets[0] = gen.Asset(55)
			case "S:assets-permuted":
				// the parent's assets in another order (every one of them occurs in the
				// parent, none at its position); needs a parent with two assets or more
				if len(a.Assets) < 2 {
					return
				}
				a.Assets = append(a.Assets[1:len(a.Assets):len(a.Assets)], a.Assets[0])
			case "S:too-many-funds":
				k := r.Intn(2)
				a.Balances[0][k] = new(big.Int).Add(ps.Balances[0][k], big.NewInt(1))
			case "S:more-assets":
				a.Assets = append(a.Assets, gen.Asset(56))
				a.Backends = append(a.Backends, channel.TestBackendID)
				a.Balances = append(a.Balances, []channel.Bal{big.NewInt(0), big.NewInt(0)})
			case "S:prelocked":
				bals := make([]channel.Bal, len(a.Assets))
				for i := range bals {
					bals[i] = big.NewInt(0)
				}
				a.Locked = []channel.SubAlloc{*channel.NewSubAlloc(gen.SubID(10), bals, nil)}
			}
		}
		cd := uint64(5)
		if m == "S:zero-challenge" {
			cd = 0
		}
		if parent == nil && m != "S:zero-challenge" && m != "S:prelocked" {
			m = "S:unknown-parent" // without a parent these all are unknown-parent proposals
		}
		msg, err = client.NewSubChannelProposal(pid, cd, a, nonce)
		if sp, ok := msg.(*client.SubChannelProposalMsg); ok && err == nil && m == "S:too-many-funds" {
			p.mu.Lock()
			if p.craftedFunds == nil {
				p.craftedFunds = map[client.ProposalID]bool{}
			}
			p.craftedFunds[sp.ProposalID] = true
			p.mu.Unlock()
		}
	default: // virtual channel proposals; H's parent is its channel with A
		pid := gen.SubID(78)
		a := mkAlloc(2, 1, 1)
		if parent != nil {
			pid = parent.ID()
			ps := parent.State()
			a = &channel.Allocation{Assets: append([]channel.Asset{}, ps.Assets...), Backends: append([]wallet.BackendID{}, ps.Backends...)}
			for range ps.Assets {
				a.Balances = append(a.Balances, []channel.Bal{big.NewInt(1), big.NewInt(1)})
			}
		}
		parents := []channel.ID{gen.SubID(79), pid}
		imaps := [][]channel.Index{{0, 1}, {0, 1}}
		cd := uint64(5)
		var opts = []client.ProposalOpts{nonce}
		switch m {
		case "V:funding-agreement-mismatch":
			// same totals, different distribution (the constructor refuses other totals)
			fa := a.Balances.Clone()
			fa[0][0] = new(big.Int).Add(fa[0][0], big.NewInt(1))
			fa[0][1] = new(big.Int).Sub(fa[0][1], big.NewInt(1))
			opts = append(opts, client.WithFundingAgreement(fa))
		case "V:short-parents":
			parents = parents[:1]
		case "V:no-parents":
			parents = nil
		case "V:long-parents":
			parents = append(parents, gen.SubID(80))
		case "V:unknown-parent":
			parents[1] = gen.SubID(81)
		case "V:indexmaps-count":
			imaps = imaps[:1]
		case "V:indexmap-entry":
			imaps[1] = []channel.Index{0, 2}
		case "V:too-many-funds":
			if parent != nil {
				a.Balances[0][1] = new(big.Int).Add(parent.State().Balances[0][1], big.NewInt(1))
				a.Balances[0][0] = new(big.Int).Add(parent.State().Balances[0][0], big.NewInt(1))
			}
		case "V:other-assets":
			a.Assets[0] = gen.Asset(57)
		case "V:zero-challenge":
			cd = 0
		}
		if parent == nil {
			// every virtual proposal is an unknown-parent proposal then
			_ = m
		}
		msg, err = client.NewVirtualChannelProposal(cd, fromAcc, a, []map[wallet.BackendID]wire.Address{fromWire, H.Wire}, parents, imaps, opts...)
	}
	if err != nil || msg == nil {
		s.Note("mutant %s could not be built: %v", m, err)
		s.Count("probe.mutant_unbuildable", 1)
		return
	}
	env := &wire.Envelope{Sender: fromWire, Recipient: H.Wire, Msg: msg}
	if err := p.w.Bus.Inject(env, s.Delay(fmt.Sprintf("inject:%d", step), 0, 200*time.Microsecond)); err != nil {
		// not decodable (or not even encodable): outside the property's quantifier
		s.Count("probe.mutant_undecodable", 1)
		s.Note("mutant %s is not decodable: %v", m, err)
		return
	}
	s.Count("fault.mutant."+m, 1)
}
