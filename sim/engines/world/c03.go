package worldeng

import (
	"context"
	"fmt"
	"math/big"
	"testing"
	"time"

	"perun.network/go-perun/channel"
	"perun.network/go-perun/client"
	"perun.network/go-perun/wire"

	"verif/sim/gen"
	"verif/sim/kernel"
	"verif/sim/world"
)

// ---- C03: honest settlement pays the last agreed balances ----------------------
// ---- C04: registering an outdated state never costs the honest party money -----

func genSettleScenario(r *kernel.Rand, prop string) *kernel.Scenario {
	sc := &kernel.Scenario{Config: map[string]int64{}}
	c := sc.Config
	c["ser"] = int64(r.Intn(2))
	c["fifo"] = int64(r.Intn(2))
	c["async_bus"] = int64(r.Intn(2))
	c["bus_max_us"] = int64([]int{100, 400, 2000}[r.Intn(3)])
	c["bus_ack_max_us"] = int64([]int{0, 0, 100, 3000}[r.Intn(4)])
	c["react_max_us"] = int64([]int{50, 500, 3000}[r.Intn(3)])
	c["accept_pct"] = int64([]int{100, 80, 60}[r.Intn(3)])
	c["ledger_max_us"] = int64([]int{200, 2000, 50000}[r.Intn(3)])
	c["event_max_us"] = int64([]int{200, 3000, 100000}[r.Intn(3)])
	c["yield_pct"] = int64([]int{0, 30, 100}[r.Intn(3)])
	c["long_yields"] = int64(r.Intn(2))
	c["ctx_ms"] = 120000
	c["watch"] = int64(r.Intn(2))
	if prop == "C04" {
		c["watch"] = 1
	}
	opener := r.Intn(2)
	sc.Steps = append(sc.Steps, kernel.St("open", "from", opener, "r", int64(r.Uint64()>>2), "app", r.Weighted([]int{2, 1}), "assets", 1+r.Weighted([]int{6, 3, 1}),
		"agree", r.Weighted([]int{3, 1}), "challenge", []int{1, 5, 30}[r.Intn(3)]))
	nsub := 0
	openSubs := []int{}
	n := r.Range(0, 12)
	amt := 1
	for i := 0; i < n; i++ {
		amt++
		switch k := r.Weighted([]int{8, 2, 3, 2}); {
		case k == 1 && nsub < 2:
			// all: one side (1: index 0, 2: index 1) moves its whole parent balance into the sub-channel
			sc.Steps = append(sc.Steps, kernel.St("sub-open", "a", r.Range(0, 60), "b", r.Range(0, 60), "app", r.Intn(2), "all", r.Weighted([]int{5, 1, 1})))
			openSubs = append(openSubs, nsub)
			nsub++
		case k == 2 && len(openSubs) > 0:
			sc.Steps = append(sc.Steps, kernel.St("sub-pay", "sub", openSubs[r.Intn(len(openSubs))], "from", r.Intn(2), "amt", amt))
		case k == 3 && len(openSubs) > 0:
			j := r.Intn(len(openSubs))
			// mid: between the sub-channel's final update and its settlement the parent
			// moves on (1: a payment in the parent, from side mid_from)
			sc.Steps = append(sc.Steps, kernel.St("sub-close", "sub", openSubs[j], "amt", amt, "mid", r.Weighted([]int{2, 1}), "mid_from", r.Intn(2),
				"late_ms", []int{0, 0, 0, 0, 600, 1500}[r.Intn(6)]))
			openSubs = append(openSubs[:j], openSubs[j+1:]...)
		default:
			sc.Steps = append(sc.Steps, kernel.St("pay", "from", r.Intn(2), "amt", amt, "coe", r.Weighted([]int{6, 1})))
		}
	}
	if (prop == "C04" && nsub > 0 && r.Bool(0.3)) || (prop == "C03" && len(openSubs) > 0 && r.Bool(0.3)) {
		// (C03: the settlement starts while an update of an open sub-channel waits
		// for a slow decision, and the first Settle attempts are impatient)
		c["slow_sub_update_ms"] = int64([]int{2000, 7000}[r.Intn(2)])
		c["short_settle_ctx"] = 1
	}
	if prop == "C04" && c["slow_sub_update_ms"] == 0 && r.Bool(0.3) {
		// the honest user takes seconds to decide on an update of the ledger
		// channel while the dispute starts, and (mostly) settles only when the
		// challenge period is over
		c["slow_ledger_update_ms"] = int64([]int{1500, 4000}[r.Intn(2)])
		c["lazy_settle"] = int64(r.Weighted([]int{1, 3}))
	} else if prop == "C04" && r.Bool(0.15) {
		c["lazy_settle"] = 1
	}
	if prop == "C04" && nsub == 0 && r.Bool(0.15) {
		c["late_watch_after"] = int64(r.Range(1, 3))
	}
	if prop == "C04" {
		// adversarial registrations of outdated states by side "adv" at drawn instants
		adv := r.Intn(2)
		c["adv"] = int64(adv)
		nreg := r.Range(1, 3)
		for i := 0; i < nreg; i++ {
			pos := r.Intn(len(sc.Steps)) + 1
			st := kernel.St("adv-register", "back", r.Range(1, 4), "delay_us", []int{0, 5, 50, 400, 3000}[r.Intn(5)], "async", r.Intn(2))
			if kernel.NewRand(kernel.Derive(uint64(i), "honest-fail", int64(pos), int64(adv))).Bool(0.2) {
				st.A["honest_fail"] = 1
			}
			sc.Steps = append(sc.Steps[:pos], append([]kernel.Step{st}, sc.Steps[pos:]...)...)
		}
	}
	final := r.Intn(2)
	if prop == "C04" {
		final = 0
	}
	sc.Steps = append(sc.Steps, kernel.St("settle", "first", r.Intn(2), "final", final, "gap_us", []int{0, 10, 500, 20000, 2000000}[r.Intn(5)],
		"secondary", r.Intn(2), "amt", amt+1))
	if r.Bool(0.4) {
		// the ledger's Register gives up when its caller's context is done
		c["ledger_ctx"] = 1
	}
	return sc
}

// settleWorld runs one C03/C04 scenario.
func execSettle(t *testing.T, sc *kernel.Scenario, trace bool) *kernel.Result {
	return world.RunBubble(t, sc, trace, func(s *world.Sim) {
		p := newPair(s)
		p.w.Ledger.MaxLat = time.Duration(sc.Cfg("ledger_max_us", 2000)) * time.Microsecond
		p.w.Ledger.EvMax = time.Duration(sc.Cfg("event_max_us", 3000)) * time.Microsecond
		p.w.Ledger.HonourCtx = sc.Cfg("ledger_ctx", 0) == 1
		installYields(s)
		defer removeYields()
		prop := sc.Property
		for i := range p.n {
			side := i
			p.n[i].Rec.OnEnable = func(r world.EnabledRec) {
				p.enabledHook(side, r.Ch)
				if !r.SigsOK {
					s.Fail(prop+".enabled-not-fully-signed", "%s enabled %s v%d without a complete set of valid signatures", p.n[side].Name, s.ChanName(r.Ch), r.Version)
				}
			}
		}
		adv := int(sc.Cfg("adv", -1))
		honest := 1 - adv
		st0 := &c04state{p: p, adv: adv, honest: honest, updSent: map[string]time.Duration{}}
		if prop == "C04" {
			// when was each update proposal for the honest client put on the wire?
			p.w.Bus.Tap = func(from, to string, e *wire.Envelope, fate string) {
				if u, ok := e.Msg.(client.ChannelUpdateProposal); ok && to == p.n[honest].Name {
					k := fmt.Sprintf("%x:%d", u.Base().State.ID, u.Base().State.Version)
					st0.mu.Lock()
					if _, seen := st0.updSent[k]; !seen {
						st0.updSent[k] = s.Now()
					}
					st0.mu.Unlock()
				}
			}
		}
		if prop == "C04" {
			// the honest side settles when it sees the channel registered (as client/test.Carol does)
			p.n[honest].OnAdjEvent = func(ch *client.Channel, e channel.AdjudicatorEvent) {
				if _, ok := e.(*channel.RegisteredEvent); ok && ch.Parent() == nil {
					st0.honestSettle(ch)
				}
			}
		}
		before := map[string][]*big.Int{}
		for _, n := range p.n {
			for a := 0; a < 3; a++ {
				before[n.Name] = append(before[n.Name], p.w.Ledger.Balance(n.Name, gen.Asset(a)))
			}
		}
		var advWG = &p.wg
		payTO := 60 * time.Second
		lateWatch := 0
		startLateWatch := func() {
			// the honest side starts watching its ledger channel only now, several
			// versions into the channel's life (at the latest before anything is
			// registered: the property is about a client that is watching)
			lateWatch = 0
			p.n[honest].Watch(p.chans[0][honest])
			s.Count("fault.watch_started_late", 1)
			time.Sleep(time.Millisecond)
		}
		if prop == "C04" && honest >= 0 && honest < 2 {
			if lateWatch = int(sc.Cfg("late_watch_after", 0)); lateWatch > 0 {
				p.watchSide[honest] = false // (started by the driver after that many payments)
			}
		}
		settled := false
		for i := range sc.Steps {
			st := &sc.Steps[i]
			if len(p.chans) == 0 && st.Op != "open" {
				continue
			}
			if st0.disputed() && st.Op != "settle" && st.Op != "adv-register" {
				// once a dispute has started the honest flow stops issuing updates
				continue
			}
			switch st.Op {
			case "open":
				if len(p.chans) == 0 {
					p.open(i, int(st.Int("from"))&1, st)
				}
			case "pay":
				side := int(st.Int("from")) & 1
				p.cancelOnEnable = st.Int("coe") == 1
				p.pay(i, p.chans[0][side], side, st.Int("amt"), payTO, false)
				p.cancelOnEnable = false
				if lateWatch > 0 {
					if lateWatch--; lateWatch == 0 {
						startLateWatch()
					}
				}
			case "sub-open":
				p.subOpen(i, st)
			case "sub-pay":
				if k := int(st.Int("sub")); k < len(p.subs) && !p.subs[k].closed {
					side := int(st.Int("from")) & 1
					p.pay(i, p.subs[k].chans[side], side, st.Int("amt"), payTO, false)
				}
			case "sub-close":
				if k := int(st.Int("sub")); k < len(p.subs) && !p.subs[k].closed {
					p.midClose = nil
					if st.Int("mid") == 1 && !st0.disputed() {
						side := int(st.Int("mid_from")) & 1
						p.midClose = func() { p.pay(i, p.chans[0][side], side, 1+st.Int("amt")%7, payTO, false) }
					}
					p.subCloseLate(i, k, st.Int("amt"), st.Int("late_ms"))
					p.midClose = nil
				}
			case "adv-register":
				if lateWatch > 0 {
					startLateWatch()
				}
				if adv >= 0 {
					f := func() { st0.advRegister(i, st) }
					if st.Int("async") == 1 {
						advWG.Add(1)
						go func() { defer advWG.Done(); f() }()
					} else {
						f()
					}
				}
			case "settle":
				if settled {
					continue
				}
				settled = true
				if lateWatch > 0 {
					startLateWatch()
				}
				p.wg.Wait()
				if prop == "C04" {
					st0.finish(i, st)
				} else {
					p.settle(i, st)
				}
			}
		}
		p.wg.Wait()
		time.Sleep(100 * time.Millisecond)
		if settled && len(p.chans) > 0 {
			if prop == "C04" {
				st0.check(before)
			} else {
				checkC03(p, before)
			}
		}
		p.w.Shutdown()
	})
}

// subOpen: the parent's proposer (index 0 of the parent) proposes a sub-channel.
func (p *pair) subOpen(step int, st *kernel.Step) {
	parent := p.chans[0]
	var proposerSide int
	if parent[0].Idx() == 0 {
		proposerSide = 0
	} else {
		proposerSide = 1
	}
	me, peer := p.n[proposerSide], p.n[1-proposerSide]
	pst := parent[proposerSide].State()
	alloc := channel.Allocation{Assets: pst.Assets, Backends: pst.Backends}
	for a := range pst.Assets {
		row := make([]channel.Bal, 2)
		for j := 0; j < 2; j++ {
			want := big.NewInt(st.Int([]string{"a", "b"}[j]) / int64(1+a))
			if pst.Balances[a][j].Cmp(want) < 0 || int(st.Int("all")) == j+1 {
				want = new(big.Int).Set(pst.Balances[a][j])
			}
			if st.Int("over") == 1 && a == 0 && j == 0 {
				// more than the parent holds: the proposer's own client must refuse it
				want = new(big.Int).Add(pst.Balances[a][j], big.NewInt(1))
			}
			row[j] = want
		}
		alloc.Balances = append(alloc.Balances, row)
	}
	if !channel.IsNoApp(pst.App) {
		// funding or settling a sub-channel changes both parties' parent
		// balances, which the payment app forbids: sub-channels need a no-app parent
		p.s.Note("sub-open skipped: parent runs an app")
		return
	}
	opts := []client.ProposalOpts{client.WithNonceFrom(kernel.NewRand(kernel.Derive(p.s.Sc.Seed, "nonce", step)))}
	if st.Int("app") == gen.AppPayment {
		opts = append(opts, client.WithApp(gen.PaymentApp(0), channel.NoData()))
	}
	prop, err := client.NewSubChannelProposal(parent[proposerSide].ID(), parent[proposerSide].Params().ChallengeDuration, &alloc, opts...)
	if err != nil {
		p.s.Note("sub-open: %v", err)
		return
	}
	ctx, cancel := me.Ctx()
	defer cancel()
	o := &opRec{step: step, op: "sub-open", side: proposerSide, start: p.s.Now()}
	ch, err := me.Client.ProposeChannel(ctx, prop)
	o.end, o.err, o.class = p.s.Now(), err, classify(err)
	p.record(o)
	p.s.Event(me.Name, "driver:sub-open", fmt.Sprintf("err=%v", err))
	if err != nil || ch == nil {
		if o.class == "timeout" {
			p.setTimeout()
		}
		return
	}
	var other *client.Channel
	for i := 0; i < 5000 && other == nil; i++ {
		other = peer.Chan(ch.ID())
		if other == nil {
			time.Sleep(100 * time.Microsecond)
		}
	}
	if other == nil {
		p.s.Note("sub-open: peer never obtained the sub-channel")
		return
	}
	si := subInfo{parent: 0, id: ch.ID()}
	si.chans[proposerSide], si.chans[1-proposerSide] = ch, other
	p.subs = append(p.subs, si)
	for sd := 0; sd < 2; sd++ {
		if p.watchSide[sd] {
			p.n[sd].Watch(si.chans[sd])
		}
	}
}

// subClose: index 0 of the sub-channel proposes the final state, then both
// settle the sub-channel into the parent (as client/test's Susie and Tim do).
func (p *pair) subClose(step, k int, amt int64) {
	p.subCloseLate(step, k, amt, 0)
}

// subCloseLate: with lateMs>0 the two users do not settle the final
// sub-channel at the same time: the side that waits for the parent update
// gives up after 300 ms, the side that sends it starts lateMs later (and
// gives up after a second, since nobody answers). The sub-channel then stays
// open and final; the ledger channel's settlement has to pay it out.
func (p *pair) subCloseLate(step, k int, amt int64, lateMs int64) {
	si := &p.subs[k]
	side0 := 0
	if si.chans[1].Idx() == 0 {
		side0 = 1
	}
	o := p.pay(step, si.chans[side0], side0, amt, 60*time.Second, true)
	if o.class != "ok" {
		return // the peer's policy rejected the final update: the sub-channel stays open
	}
	if p.midClose != nil {
		p.midClose() // the parent moves on before the sub-channel is settled into it
	}
	errs := make(chan error, 2)
	if lateMs > 0 {
		p.s.Count("fault.sub_settle_out_of_step", 1)
		for n, side := range []int{1 - side0, side0} {
			side, to := side, []time.Duration{300 * time.Millisecond, time.Second}[n]
			go func() {
				ctx, cancel := context.WithTimeout(context.Background(), to+p.s.Delay(fmt.Sprintf("ctx:late-sub-settle:%d:%d", step, side), 0, time.Millisecond))
				defer cancel()
				err := si.chans[side].Settle(ctx, side != side0)
				p.s.Event(p.n[side].Name, "driver:sub-settle", fmt.Sprintf("%s (out of step) err=%v", p.s.ChanName(si.id), err))
				errs <- err
			}()
			if n == 0 {
				time.Sleep(time.Duration(lateMs)*time.Millisecond + p.s.Delay(fmt.Sprintf("driver:late-subsettle-gap:%d", step), 0, time.Millisecond))
			}
		}
		if e1, e2 := <-errs, <-errs; e1 == nil && e2 == nil {
			si.closed = true
		}
		return
	}
	for _, side := range []int{side0, 1 - side0} {
		side := side
		go func() {
			ctx, cancel := p.n[side].Ctx()
			defer cancel()
			err := si.chans[side].Settle(ctx, side != side0)
			p.s.Event(p.n[side].Name, "driver:sub-settle", fmt.Sprintf("%s err=%v", p.s.ChanName(si.id), err))
			errs <- err
		}()
		time.Sleep(p.s.Delay(fmt.Sprintf("driver:subsettle-gap:%d", step), 0, 300*time.Microsecond))
	}
	e1, e2 := <-errs, <-errs
	if e1 == nil && e2 == nil {
		si.closed = true
	} else if p.s.Sc.Property == "C03" {
		p.s.Fail(p.s.Sc.Property+".sub-settle-failed", "settling the final sub-channel %s into its parent failed: %v / %v", p.s.ChanName(si.id), e1, e2)
	}
}

// settle: optional final update, then both sides call Settle.
func (p *pair) settle(step int, st *kernel.Step) {
	first := int(st.Int("first")) & 1
	chans := p.chans[0]
	openSubs := 0
	for _, si := range p.subs {
		if !si.closed {
			openSubs++
		}
	}
	if st.Int("final") == 1 && openSubs == 0 {
		// cooperative: make the last state final (the receiver may reject by policy; then the dispute path is taken)
		p.pay(step, chans[first], first, st.Int("amt"), 60*time.Second, true)
	}
	if ms := p.s.Sc.Cfg("slow_sub_update_ms", 0); ms > 0 && p.s.Sc.Property == "C03" {
		// an update of an open sub-channel is pending, whose receiver takes
		// seconds to decide: the sub-channel's machine locks are held on both
		// sides while the settlement of the ledger channel starts
		for k := range p.subs {
			if si := &p.subs[k]; !si.closed {
				from := int(st.Int("secondary")) & 1
				p.mu.Lock()
				if p.slowNext == nil {
					p.slowNext = map[string]time.Duration{}
				}
				p.slowNext[p.n[1-from].Name] = time.Duration(ms) * time.Millisecond
				p.mu.Unlock()
				p.wg.Add(1)
				go func() {
					defer p.wg.Done()
					p.pay(step, si.chans[from], from, 1, 30*time.Second, false)
				}()
				time.Sleep(2*time.Millisecond + p.s.Delay("driver:slow-sub-gap", 0, time.Millisecond))
				p.s.Count("fault.slow_decision_on_sub_update", 1)
				break
			}
		}
	}
	cd := time.Duration(chans[0].Params().ChallengeDuration) * time.Second
	errs := make([]error, 2)
	done := make(chan int, 2)
	for n, side := range []int{first, 1 - first} {
		side := side
		go func() {
			ctx, cancel := context.WithTimeout(context.Background(), cd+60*time.Second+p.s.Delay(fmt.Sprintf("ctx:settle:%d", side), 0, time.Millisecond))
			defer cancel()
			o := &opRec{step: step, op: "settle", side: side, ch: chans[side].ID(), start: p.s.Now()}
			// The property does not promise that a single Settle call succeeds:
			// a call that races with the arrival of the registered events of
			// the channel tree may fail and is repeated, as a user would.
			var err error
			for attempt := 0; attempt < 6; attempt++ {
				actx, acancel := ctx, context.CancelFunc(func() {})
				if p.s.Sc.Cfg("short_settle_ctx", 0) == 1 && attempt < 3 {
					// an impatient user: the first attempts get 300 ms each
					actx, acancel = context.WithTimeout(ctx, 300*time.Millisecond+p.s.Delay(fmt.Sprintf("ctx:short-settle:%d", side), 0, time.Millisecond))
				}
				err = chans[side].Settle(actx, st.Int("secondary") == 1 && side != first)
				acancel()
				p.s.Event(p.n[side].Name, "driver:settle", fmt.Sprintf("attempt %d err=%v", attempt, err))
				if err == nil || ctx.Err() != nil {
					break
				}
				p.s.Count("probe.settle_retry", 1)
				time.Sleep(300*time.Millisecond + p.s.Delay(fmt.Sprintf("driver:settle-retry:%d", side), 0, time.Millisecond))
			}
			o.end, o.err, o.class = p.s.Now(), err, classify(err)
			p.record(o)
			errs[side] = err
			done <- side
		}()
		if n == 0 {
			time.Sleep(time.Duration(st.Int("gap_us"))*time.Microsecond + p.s.Delay("driver:settle-gap", 0, 5*time.Microsecond))
		}
	}
	<-done
	<-done
}

// lastCommon returns the newest transaction enabled by both clients.
func lastCommon(p *pair, id channel.ID) *world.EnabledRec {
	a, b := p.n[0].Rec.EnabledOf(id), p.n[1].Rec.EnabledOf(id)
	var best *world.EnabledRec
	for i := range a {
		for j := range b {
			if a[i].Version == b[j].Version && string(a[i].Enc) == string(b[j].Enc) {
				if best == nil || a[i].Version >= best.Version {
					best = &a[i]
				}
			}
		}
	}
	return best
}

func checkC03(p *pair, before map[string][]*big.Int) {
	s := p.s
	id := p.ids[0]
	var settleErr [2]error
	nset := 0
	p.mu.Lock()
	for _, o := range p.ops {
		if o.op == "settle" {
			settleErr[o.side] = o.err
			nset++
		}
	}
	timedOut := p.timeout
	p.mu.Unlock()
	if nset < 2 {
		return
	}
	if timedOut {
		s.Count("probe.relaxed_run", 1)
		return
	}
	for side, err := range settleErr {
		if err != nil {
			s.Fail("C03.settle-failed", "Settle of %s by %s failed: %v", s.ChanName(id), p.n[side].Name, err)
			return
		}
	}
	T := lastCommon(p, id)
	if T == nil {
		s.Fail("C03.no-common-state", "no state enabled on both sides")
		return
	}
	// expected payout: parent balance plus balances in sub-channels still locked in T
	pay := make([][]*big.Int, len(T.State.Balances))
	for a, row := range T.State.Balances {
		pay[a] = []*big.Int{new(big.Int).Set(row[0]), new(big.Int).Set(row[1])}
	}
	for _, la := range T.State.Locked {
		ts := lastCommon(p, la.ID)
		if ts == nil {
			s.Fail("C03.no-common-substate", "locked sub-channel without a common state")
			return
		}
		for a, row := range ts.State.Balances {
			for j, b := range row {
				pay[a][j].Add(pay[a][j], b)
			}
		}
		s.Count("probe.settled_with_open_subchannel", 1)
	}
	// funding debits: exactly the agreement (ledger log)
	funds := p.w.Ledger.CallsOf("Fund", id)
	if len(funds) != 2 {
		s.Fail("C03.fund-calls", "expected 2 Fund calls, saw %d", len(funds))
		return
	}
	for _, n := range p.n {
		idx := -1
		for side := range p.n {
			if p.n[side] == n {
				idx = int(p.chans[0][side].Idx())
			}
		}
		var debit []*big.Int
		for _, f := range funds {
			if f.Who == n.Name {
				debit = f.Paid
			}
		}
		for a := range T.State.Assets {
			if a >= len(debit) || debit[a].Cmp(p.agree[0][a][idx]) != 0 {
				s.Fail("C03.funding-amount", "%s funded asset %d with %v, the agreed funding amount is %v", n.Name, a, debit, p.agree[0][a][idx])
				return
			}
		}
		for a := range T.State.Assets {
			want := new(big.Int).Sub(before[n.Name][a], debit[a])
			want.Add(want, pay[a][idx])
			got := p.w.Ledger.Balance(n.Name, gen.Asset(a))
			if got.Cmp(want) != 0 {
				s.Fail("C03.payout", "%s asset %d: account is %v after settlement, expected %v (before %v, funded %v, balance in last agreed state v%d incl. sub-channels %v)",
					n.Name, a, got, want, before[n.Name][a], debit[a], T.Version, pay[a][idx])
				return
			}
		}
	}
	for a, h := range p.w.Ledger.Holdings(id) {
		if h.Sign() != 0 {
			s.Fail("C03.holdings-left", "asset %d: %v still held for %s after both settled", a, h, s.ChanName(id))
			return
		}
	}
	// funding took exactly the agreed amounts: compare with the proposal's agreement = what Fund was asked for;
	// the independent part: agreement totals equal the initial state's totals and each debit equals holdings gained
	s.Res.NonTrivial = T.Version >= 2
	if len(p.subs) > 0 {
		s.Count("probe.run_with_subchannels", 1)
	}
}
