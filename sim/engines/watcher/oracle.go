package watchereng

import (
	"bytes"
	"fmt"
	"math"

	"perun.network/go-perun/channel"
	"perun.network/go-perun/watcher/local"
)

// The oracle is a reference model of the statement of C05, evaluated over the
// recorded history at quiescence. Every harness-observable point carries a
// global number ("tick"): action invocation and return, Register start and
// end, an event entering a subscription (tInj), the watcher taking it out of
// the subscription (tDeq: "the adjudicator reports"), the watcher asking for
// the next event (tDone: the handler of the previous one has returned), an
// event arriving at the client. From the history the model knows at every
// tick the newest published transaction of every channel, the watched set and
// the archive.
//
// newestRet(X,t): newest version whose Publish returned before t (the watcher
// must know it). newestInv(X,t): newest version whose Publish was invoked
// before t (the watcher may know it). Between the two lies the may-zone of a
// publish racing with an event.

const inf = int64(math.MaxInt64)

func (c *chState) newestRet(t int64) (uint64, bool) {
	var v uint64
	ok := false
	for _, p := range c.pubs {
		if p.ret > 0 && p.ret < t {
			v, ok = p.ver, true // versions are strictly increasing in c.pubs
		}
	}
	return v, ok
}

func (c *chState) newestInv(t int64) (uint64, bool) {
	var v uint64
	ok := false
	for _, p := range c.pubs {
		if p.inv < t {
			v, ok = p.ver, true
		}
	}
	return v, ok
}

func (c *chState) pubOf(ver uint64) *pubRec {
	for _, p := range c.pubs {
		if p.ver == ver {
			return p
		}
	}
	return nil
}

// okStop returns the successful StopWatching of the channel, if any.
func (c *chState) okStop() *opRec {
	for _, r := range c.stops {
		if r.ret > 0 && r.err == nil && r.panicked == "" {
			return r
		}
	}
	return nil
}

// failedStopBefore reports whether a StopWatching of the channel that did not
// succeed (refused, or panicked) was invoked before tick t.
func (c *chState) failedStopBefore(t int64) bool {
	for _, r := range c.stops {
		if r.inv < t && (r.err != nil || r.panicked != "") {
			return true
		}
	}
	return false
}

func doneOrInf(e *evRec) int64 {
	if e.tDone > 0 {
		return e.tDone
	}
	return inf
}

// reported is the tick at which the adjudicator reported e to the watcher.
func reported(e *evRec) int64 {
	if e.tDeq > 0 {
		return e.tDeq
	}
	return e.tInj
}

// stopRaces: a successful StopWatching(X) was invoked before the handler of e
// returned: may-zone (the event may be dropped with the closing subscription,
// or its handler may be cancelled while waiting for the lock).
func (h *harness) stopRaces(e *evRec) bool {
	if st := h.ch[e.k].okStop(); st != nil && st.inv < doneOrInf(e) {
		return true
	}
	return false
}

// alreadyNewer: a successful Register covering X with a version above e's had
// returned before e was reported ("the watcher has already registered
// something newer").
func (h *harness) alreadyNewer(e *evRec) bool {
	for _, c := range h.calls {
		if c.ok && c.end > 0 && c.end < reported(e) {
			if v, ok := c.versionOf(e.k); ok && v > e.ver {
				return true
			}
		}
	}
	return false
}

// inHandling lists the registered events whose handler is running at tick t.
func (h *harness) inHandling(t int64) []*evRec {
	var l []*evRec
	for _, e := range h.evs {
		if e.kind == kindRegistered && e.tDeq > 0 && e.tDeq < t && doneOrInf(e) > t {
			l = append(l, e)
		}
	}
	return l
}

func (h *harness) fail(check, format string, a ...any) { h.s.Fail(check, format, a...) }

// check evaluates all oracles. It runs at quiescence, on the driver goroutine.
func (h *harness) check() {
	h.mu.Lock()
	defer h.mu.Unlock()
	h.frozen = true
	s := h.s
	mayZones := int64(0)
	defer func() {
		// s.Count takes the simulator's lock only
		s.Count("probe.may_zone_skipped", mayZones)
	}()

	// ---- StopWatching results: refused stop, repeat, final success -------------
	p := h.ch[0]
	refusedSeen := false
	for _, r := range p.stops {
		h.evals++
		if r.panicked != "" {
			h.fail("C05.panic@StopWatching", "StopWatching(P) panicked: %s", r.panicked)
			continue
		}
		if r.ret == 0 {
			h.fail("C05.stop-hangs", "StopWatching(P) had not returned at quiescence")
			continue
		}
		// sub-channels watched during the whole call / possibly watched during the call
		definite, possible := 0, 0
		for j := 1; j <= maxSubs; j++ {
			sj := h.ch[j]
			if len(sj.starts) == 0 || sj.starts[0].err != nil {
				continue
			}
			st := sj.starts[0]
			if st.ret == 0 || st.ret > r.inv {
				possible++ // cannot happen: the driver does not overlap the two
				continue
			}
			var firstStop *opRec
			if len(sj.stops) > 0 {
				firstStop = sj.stops[0]
			}
			switch {
			case firstStop == nil || firstStop.inv > r.ret:
				definite++
				possible++
			case sj.okStop() != nil && sj.okStop().ret < r.inv:
				// gone before the call
			default:
				possible++ // its StopWatching overlaps this call: may-zone
			}
		}
		switch {
		case definite > 0:
			s.Count("probe.refused_stop", 1)
			if r.err == nil {
				h.fail("C05.refused-stop@not-refused", "StopWatching(P) returned nil although %d sub-channel(s) were watched during the whole call", definite)
			} else if !local.IsErrSubChannelsPresent(r.err) {
				what := "first request"
				if refusedSeen {
					what = "repeated request"
				}
				h.fail("C05.refused-stop@wrong-error", "StopWatching(P) with %d watched sub-channel(s), %s: error is not ErrSubChannelsPresent: %v", definite, what, r.err)
			}
			refusedSeen = true
		case possible == 0:
			if r.err != nil {
				if refusedSeen {
					h.fail("C05.refused-stop@cannot-stop-later", "StopWatching(P) after all sub-channels were de-registered (and after an earlier refused request) failed: %v", r.err)
				} else {
					h.fail("C05.stop-failed@P", "StopWatching(P) without watched sub-channels failed: %v", r.err)
				}
			}
		default:
			mayZones++
			if r.err != nil && !local.IsErrSubChannelsPresent(r.err) {
				h.fail("C05.refused-stop@wrong-error", "StopWatching(P) racing with a sub-channel's StopWatching failed with something else than ErrSubChannelsPresent: %v", r.err)
			}
			if r.err != nil {
				refusedSeen = true
			}
		}
	}
	for j := 1; j <= maxSubs; j++ {
		for _, r := range h.ch[j].stops {
			h.evals++
			switch {
			case r.panicked != "":
				h.fail("C05.panic@StopWatching", "StopWatching(%s) panicked: %s", chName(j), r.panicked)
			case r.ret == 0:
				h.fail("C05.stop-hangs", "StopWatching(%s) had not returned at quiescence", chName(j))
			case r.err != nil:
				h.fail("C05.stop-failed@sub", "StopWatching(%s) of a watched sub-channel failed: %v", chName(j), r.err)
			}
		}
	}
	// a watched channel's event stream stays open
	for k, c := range h.ch {
		if c.streamClosed == 0 {
			continue
		}
		if st := c.okStop(); st == nil || c.streamClosed < st.inv {
			if c.failedStopBefore(c.streamClosed) {
				h.fail("C05.refused-stop@stream-closed", "the client's event stream of %s was closed by a StopWatching that did not succeed", chName(k))
			} else {
				h.fail("C05.stream-closed", "the client's event stream of %s was closed without a StopWatching", chName(k))
			}
		}
	}

	// ---- every Register call: cause and shape -----------------------------------
	refutations := 0
	for _, c := range h.calls {
		h.evals++
		s.Count("probe.refutation", 1)
		// causes: registered events in handling when the call started that the
		// statement names as triggers
		var valid []*evRec
		cands := h.inHandling(c.start)
		for _, e := range cands {
			nv, ok := h.ch[e.k].newestInv(c.start)
			if ok && e.ver < nv && !h.alreadyNewer(e) {
				valid = append(valid, e)
			}
		}
		if len(valid) == 0 {
			why := "no registered event was being handled"
			if len(cands) > 0 {
				why = ""
				for _, e := range cands {
					nv, _ := h.ch[e.k].newestInv(c.start)
					if e.ver >= nv {
						why += fmt.Sprintf("[%s registered v%d, newest published v%d: nothing newer is known] ", chName(e.k), e.ver, nv)
					} else {
						why += fmt.Sprintf("[%s registered v%d, but the watcher had already registered something newer for it] ", chName(e.k), e.ver)
					}
				}
			}
			h.fail("C05.spurious-register", "Register call %s without cause: %s", describeCall(h, c), why)
			continue
		}
		refutations++
		d := inf
		for _, e := range valid {
			if e.tDeq < d {
				d = e.tDeq
			}
		}
		h.checkShape(c, d, &mayZones)
	}

	// ---- must refute ---------------------------------------------------------------
	for _, e := range h.evs {
		if e.kind != kindRegistered {
			continue
		}
		x := h.ch[e.k]
		d := reported(e)
		nv, ok := x.newestRet(d)
		if !ok || e.ver >= nv {
			continue
		}
		h.evals++
		if h.stopRaces(e) {
			mayZones++
			continue
		}
		s.Count("probe.must_refute_checked", 1)
		done := doneOrInf(e)
		npar, _ := p.newestRet(d)
		satisfied := false
		for _, c := range h.calls {
			if c.start > done {
				continue
			}
			v, covers := c.versionOf(e.k)
			if c.ok && covers && v > e.ver {
				satisfied = true // registered something newer (before, or as the refutation)
				break
			}
			if c.start > d {
				pv, pok := c.versionOf(0)
				if !pok || pv < npar {
					continue
				}
				if e.k == 0 || (covers && v >= nv) || (!covers && !c.locks(e.k)) {
					satisfied = true // the refutation (possibly failed by script)
					break
				}
			}
		}
		if satisfied {
			continue
		}
		src := "injected"
		if e.self {
			src = "self-caused"
		}
		detail := fmt.Sprintf("%s registered event for %s with v%d while v%d had been published before: no Register call covers %s with a version >= v%d afterwards (event %s at #%d, handler returned at #%d)",
			src, chName(e.k), e.ver, nv, chName(e.k), nv, map[bool]string{true: "delivered", false: "never taken by the watcher, queued"}[e.tDeq > 0], d, e.tDone)
		if p.failedStopBefore(done) {
			h.fail("C05.refused-stop@stops-refuting", "after a StopWatching(P) that did not succeed: %s", detail)
		} else {
			h.fail("C05.no-refutation", "%s", detail)
		}
	}

	// ---- relay ---------------------------------------------------------------------
	relayed := 0
	for k, c := range h.ch {
		var lastReg int64 = -1
		for _, r := range c.relays {
			h.evals++
			relayed++
			e := h.evByObj[r.obj]
			if e == nil || e.k != k {
				h.fail("C05.relay-unknown", "the client of %s received an event the adjudicator never emitted for that channel: %T v%d", chName(k), r.obj, r.obj.Version())
				continue
			}
			e.nRel++
			if e.nRel > 1 {
				h.fail("C05.relay-duplicate", "%s event v%d of %s reached the client %d times", kindNames[e.kind], e.ver, chName(k), e.nRel)
			}
			if e.kind == kindRegistered {
				if int64(e.ver) <= lastReg {
					h.fail("C05.relay-order", "registered event v%d of %s reached the client after registered event v%d", e.ver, chName(k), lastReg)
				}
				lastReg = int64(e.ver)
			}
		}
	}
	for _, e := range h.evs {
		if e.kind == kindRegistered {
			continue
		}
		h.evals++
		if e.nRel == 1 {
			continue
		}
		if h.stopRaces(e) {
			mayZones++
			continue
		}
		if e.nRel == 0 {
			detail := fmt.Sprintf("%s event v%d of watched channel %s never reached the client (injected at #%d, taken by the watcher at #%d)", kindNames[e.kind], e.ver, chName(e.k), e.tInj, e.tDeq)
			if e.k == 0 && p.failedStopBefore(doneOrInf(e)) {
				h.fail("C05.refused-stop@stops-relaying", "after a StopWatching(P) that did not succeed: %s", detail)
			} else {
				h.fail("C05.relay-lost", "%s", detail)
			}
		}
	}

	if refutations > 0 && relayed > 0 {
		s.Res.NonTrivial = true
	}
}

// checkShape verifies the arguments of one Register call. d is the tick at
// which the oldest event that can have caused the call was reported.
func (h *harness) checkShape(c *callRec, d int64, mayZones *int64) {
	p := h.ch[0]
	what := describeCall(h, c)
	if c.tx.State == nil || c.tx.State.ID != staticIDs[0] {
		h.fail("C05.register-shape@parent-not-ledger-channel", "Register call %s: the request's transaction is not one of the ledger channel", what)
		return
	}
	if c.params == nil || c.params.ID() != staticIDs[0] {
		h.fail("C05.register-shape@parent-params", "Register call %s: the request's parameters are not the ledger channel's", what)
		return
	}
	pv := c.tx.State.Version
	pr := p.pubOf(pv)
	if pr == nil || !bytes.Equal(pr.enc, encodeOf(c.tx.State)) {
		h.fail("C05.register-shape@parent-not-published", "Register call %s: the parent state is not a transaction published for P", what)
		return
	}
	if !sigsEqual(pr.tx.Sigs, c.tx.Sigs) {
		h.fail("C05.register-shape@parent-sigs", "Register call %s: the parent's signatures are not the published ones", what)
		return
	}
	lo, _ := p.newestRet(d)
	hi, _ := p.newestInv(c.start)
	if pv < lo {
		h.fail("C05.register-shape@parent-stale", "Register call %s: parent v%d although v%d had been published before the causing event was reported", what, pv, lo)
		return
	}
	if pv > hi {
		h.fail("C05.register-shape@parent-from-future", "Register call %s: parent v%d was not yet published (newest v%d)", what, pv, hi)
		return
	}
	locked := c.tx.State.Locked
	if len(c.subs) != len(locked) {
		h.fail("C05.register-shape@substate-count", "Register call %s: %d sub-states for %d locked sub-allocations", what, len(c.subs), len(locked))
		return
	}
	for i := range locked {
		k := h.indexOf(locked[i].ID)
		if k < 1 {
			continue // cannot happen: the driver only locks its own sub-channels
		}
		x := h.ch[k]
		ss := c.subs[i]
		if ss.State == nil {
			h.fail("C05.register-shape@substate-missing", "Register call %s: sub-state %d (for locked %s) is empty", what, i, chName(k))
			return
		}
		if ss.State.ID != locked[i].ID {
			h.fail("C05.register-shape@substate-order", "Register call %s: sub-state %d is a state of %s, but sub-allocation %d locks %s", what, i, chName(h.indexOf(ss.State.ID)), i, chName(k))
			return
		}
		if ss.Params == nil || ss.Params.ID() != locked[i].ID {
			h.fail("C05.register-shape@substate-params", "Register call %s: sub-state %d does not carry the parameters of %s", what, i, chName(k))
			return
		}
		sr := x.pubOf(ss.State.Version)
		if sr == nil || !bytes.Equal(sr.enc, encodeOf(ss.State)) {
			h.fail("C05.register-shape@substate-not-published", "Register call %s: sub-state %d is not a transaction published for %s", what, i, chName(k))
			return
		}
		if !sigsEqual(sr.tx.Sigs, ss.Sigs) {
			h.fail("C05.register-shape@substate-sigs", "Register call %s: the signatures of sub-state %d are not the published ones", what, i)
			return
		}
		v := ss.State.Version
		var firstStop *opRec
		if len(x.stops) > 0 {
			firstStop = x.stops[0]
		}
		st := x.okStop()
		switch {
		case firstStop == nil || firstStop.inv > c.start:
			// watched: newest published, with the may-zone of racing publishes
			slo, _ := x.newestRet(d)
			shi, _ := x.newestInv(c.start)
			if v < slo || v > shi {
				h.fail("C05.register-shape@substate-stale", "Register call %s: watched sub-channel %s with v%d, but its newest published transaction lay between v%d and v%d", what, chName(k), v, slo, shi)
				return
			}
		case st != nil && st == firstStop && st.ret < d:
			// de-registered while locked: exactly the archived last transaction
			alo, _ := x.newestRet(st.inv)
			ahi, _ := x.newestInv(st.ret)
			if alo != ahi {
				*mayZones++ // a Publish raced with the StopWatching
			}
			if v < alo || v > ahi {
				h.fail("C05.register-shape@archived-substate", "Register call %s: de-registered sub-channel %s with v%d, but its archived last transaction is v%d", what, chName(k), v, alo)
				return
			}
			h.s.Count("probe.archived_state_used", 1)
		default:
			// its StopWatching overlaps the handling: archived or live state
			*mayZones++
			slo, _ := x.newestRet(d)
			if a, ok := x.newestRet(firstStop.inv); ok && a < slo {
				slo = a
			}
			shi, _ := x.newestInv(c.start)
			if v < slo || v > shi {
				h.fail("C05.register-shape@substate-stale", "Register call %s: sub-channel %s (being de-registered) with v%d, expected between v%d and v%d", what, chName(k), v, slo, shi)
				return
			}
		}
	}
}

func encodeOf(st *channel.State) []byte {
	var b bytes.Buffer
	if err := st.Encode(&b); err != nil {
		return []byte("unencodable: " + err.Error())
	}
	return b.Bytes()
}
