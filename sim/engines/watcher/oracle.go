package watchereng

import (
	"bytes"
	"fmt"
	"math"

	"perun.network/go-perun/channel"
	"perun.network/go-perun/watcher/local"
)

// The oracle is a reference model of the statement of C05, evaluated over the
// recorded history at quiescence. Every harness-observable point carries a
// global number ("tick"): action invocation and return, Register start and
// end, an event entering a subscription (tInj), the watcher taking it out of
// the subscription (tDeq: "the adjudicator reports"), the watcher asking for
// the next event (tDone: the handler of the previous one has returned), an
// event arriving at the client. From the history the model knows at every
// tick the newest published transaction of every channel, the watched set and
// the archive.
//
// newestRet(X,t): newest version whose Publish returned before t (the watcher
// must know it). newestInv(X,t): newest version whose Publish was invoked
// before t (the watcher may know it). Between the two lies the may-zone of a
// publish racing with an event.

const inf = int64(math.MaxInt64)

func (c *chState) newestRet(t int64) (uint64, bool) {
	var v uint64
	ok := false
	for _, p := range c.pubs {
		if p.ret > 0 && p.ret < t {
			v, ok = p.ver, true // versions are strictly increasing in c.pubs
		}
	}
	return v, ok
}

func (c *chState) newestInv(t int64) (uint64, bool) {
	var v uint64
	ok := false
	for _, p := range c.pubs {
		if p.inv < t {
			v, ok = p.ver, true
		}
	}
	return v, ok
}

func (c *chState) pubOf(ver uint64) *pubRec {
	for _, p := range c.pubs {
		if p.ver == ver {
			return p
		}
	}
	return nil
}

// failedStopBefore reports whether a StopWatching of the channel that did not
// succeed (refused, or panicked) was invoked before tick t.
func (c *chState) failedStopBefore(t int64) bool {
	for _, r := range c.allStops() {
		if r.inv < t && (r.err != nil || r.panicked != "") {
			return true
		}
	}
	return false
}

func doneOrInf(e *evRec) int64 {
	if e.tDone > 0 {
		return e.tDone
	}
	return inf
}

// reported is the tick at which the adjudicator reported e to the watcher.
func reported(e *evRec) int64 {
	if e.tDeq > 0 {
		return e.tDeq
	}
	return e.tInj
}

// stopRaces: the successful StopWatching(X) that ended the watching session
// of e was invoked before the handler of e returned: may-zone (the event may
// be dropped with the closing subscription, or its handler may be cancelled
// while waiting for the lock).
func (h *harness) stopRaces(e *evRec) bool {
	if e.ep == nil {
		return false
	}
	if st := e.ep.okStop(); st != nil && st.inv < doneOrInf(e) {
		return true
	}
	return false
}

// sessionStart is the tick from which Register calls belong to the watching
// session of e: calls started after its StartWatching returned.
func sessionStart(e *evRec) int64 {
	if e.ep == nil || e.ep.start.ret == 0 {
		return inf
	}
	return e.ep.start.ret
}

// alreadyNewer: during the watching session of e, a successful Register
// covering X with a version above e's had returned before e was reported
// ("the watcher has already registered something newer"). Registrations of an
// earlier session of a re-watched sub-channel are a may-zone: they excuse a
// missing refutation (see must-refute) but do not make a refutation spurious.
func (h *harness) alreadyNewer(e *evRec) bool {
	from := sessionStart(e)
	for _, c := range h.calls {
		if c.ok && c.end > 0 && c.end < reported(e) && c.start > from {
			if v, ok := c.versionOf(e.k); ok && v > e.ver {
				return true
			}
		}
	}
	return false
}

// inHandling lists the registered events whose handler is running at tick t.
func (h *harness) inHandling(t int64) []*evRec {
	var l []*evRec
	for _, e := range h.evs {
		if e.kind == kindRegistered && e.tDeq > 0 && e.tDeq < t && doneOrInf(e) > t {
			l = append(l, e)
		}
	}
	return l
}

func (h *harness) fail(check, format string, a ...any) { h.s.Fail(check, format, a...) }

// check evaluates all oracles. It runs at quiescence, on the driver goroutine.
func (h *harness) check() {
	h.mu.Lock()
	defer h.mu.Unlock()
	h.frozen = true
	s := h.s
	mayZones := int64(0)
	defer func() {
		// s.Count takes the simulator's lock only
		s.Count("probe.may_zone_skipped", mayZones)
	}()

	// ---- StopWatching results: refused stop, repeat, final success -------------
	p := h.ch[0]
	refusedSeen := false
	for _, r := range p.allStops() {
		h.evals++
		if r.panicked != "" {
			h.fail("C05.panic@StopWatching", "StopWatching(P) panicked: %s", r.panicked)
			continue
		}
		if r.ret == 0 {
			h.fail("C05.stop-hangs", "StopWatching(P) had not returned at quiescence")
			continue
		}
		// sub-channels watched during the whole call / possibly watched during the call
		definite, possible := 0, 0
		for j := 1; j <= maxSubs; j++ {
			sj := h.ch[j]
			def, pos := false, false
			for _, ep := range sj.eps {
				if ep.start.err != nil || ep.start.panicked != "" || ep.start.inv > r.ret {
					continue // failed start, or session began after the call
				}
				if st := ep.okStop(); st != nil && st.ret < r.inv {
					continue // session over before the call
				}
				pos = true // the session overlaps the call
				if ep.startedOK() && ep.start.ret < r.inv && (len(ep.stops) == 0 || ep.stops[0].inv > r.ret) {
					def = true // watched during the whole call
				}
			}
			if def {
				definite++
			}
			if pos {
				possible++
			}
		}
		switch {
		case definite > 0:
			s.Count("probe.refused_stop", 1)
			if r.err == nil {
				h.fail("C05.refused-stop@not-refused", "StopWatching(P) returned nil although %d sub-channel(s) were watched during the whole call", definite)
			} else if !local.IsErrSubChannelsPresent(r.err) {
				what := "first request"
				if refusedSeen {
					what = "repeated request"
				}
				h.fail("C05.refused-stop@wrong-error", "StopWatching(P) with %d watched sub-channel(s), %s: error is not ErrSubChannelsPresent: %v", definite, what, r.err)
			}
			refusedSeen = true
		case possible == 0:
			if r.err != nil {
				if refusedSeen {
					h.fail("C05.refused-stop@cannot-stop-later", "StopWatching(P) after all sub-channels were de-registered (and after an earlier refused request) failed: %v", r.err)
				} else {
					h.fail("C05.stop-failed@P", "StopWatching(P) without watched sub-channels failed: %v", r.err)
				}
			}
		default:
			mayZones++
			if r.err != nil && !local.IsErrSubChannelsPresent(r.err) {
				h.fail("C05.refused-stop@wrong-error", "StopWatching(P) racing with a sub-channel's StopWatching failed with something else than ErrSubChannelsPresent: %v", r.err)
			}
			if r.err != nil {
				refusedSeen = true
			}
		}
	}
	for j := 1; j <= maxSubs; j++ {
		for _, r := range h.ch[j].allStops() {
			h.evals++
			switch {
			case r.panicked != "":
				h.fail("C05.panic@StopWatching", "StopWatching(%s) panicked: %s", chName(j), r.panicked)
			case r.ret == 0:
				h.fail("C05.stop-hangs", "StopWatching(%s) had not returned at quiescence", chName(j))
			case r.err != nil:
				h.fail("C05.stop-failed@sub", "StopWatching(%s) of a watched sub-channel failed: %v", chName(j), r.err)
			}
		}
	}
	// a watched channel's event stream stays open
	for k, c := range h.ch {
		for _, ep := range c.eps {
			if ep.streamClosed == 0 {
				continue
			}
			if st := ep.okStop(); st == nil || ep.streamClosed < st.inv {
				if c.failedStopBefore(ep.streamClosed) {
					h.fail("C05.refused-stop@stream-closed", "the client's event stream of %s was closed by a StopWatching that did not succeed", chName(k))
				} else {
					h.fail("C05.stream-closed", "the client's event stream of %s was closed without a StopWatching", chName(k))
				}
			}
		}
	}

	// ---- every Register call: cause and shape -----------------------------------
	refutations := 0
	for _, c := range h.calls {
		h.evals++
		s.Count("probe.refutation", 1)
		// causes: registered events in handling when the call started that the
		// statement names as triggers
		var valid []*evRec
		cands := h.inHandling(c.start)
		for _, e := range cands {
			nv, ok := h.ch[e.k].newestInv(c.start)
			if ok && e.ver < nv && !h.alreadyNewer(e) {
				valid = append(valid, e)
			}
		}
		if len(valid) == 0 {
			why := "no registered event was being handled"
			if len(cands) > 0 {
				why = ""
				for _, e := range cands {
					nv, _ := h.ch[e.k].newestInv(c.start)
					if e.ver >= nv {
						why += fmt.Sprintf("[%s registered v%d, newest published v%d: nothing newer is known] ", chName(e.k), e.ver, nv)
					} else {
						why += fmt.Sprintf("[%s registered v%d, but the watcher had already registered something newer for it] ", chName(e.k), e.ver)
					}
				}
			}
			h.fail("C05.spurious-register", "Register call %s without cause: %s", describeCall(h, c), why)
			continue
		}
		refutations++
		d := inf
		for _, e := range valid {
			if e.tDeq < d {
				d = e.tDeq
			}
		}
		h.checkShape(c, d, &mayZones)
	}

	// ---- must refute ---------------------------------------------------------------
	for _, e := range h.evs {
		if e.kind != kindRegistered {
			continue
		}
		x := h.ch[e.k]
		d := reported(e)
		nv, ok := x.newestRet(d)
		if !ok || e.ver >= nv {
			continue
		}
		h.evals++
		if h.stopRaces(e) {
			mayZones++
			continue
		}
		s.Count("probe.must_refute_checked", 1)
		done := doneOrInf(e)
		npar, _ := p.newestRet(d)
		satisfied, earlierSession := false, false
		from := sessionStart(e)
		for _, c := range h.calls {
			if c.start > done {
				continue
			}
			v, covers := c.versionOf(e.k)
			if c.ok && covers && v > e.ver {
				if c.start < from {
					// registered in an earlier watching session of a re-watched
					// sub-channel (or while it was de-registered): may-zone
					earlierSession = true
					continue
				}
				satisfied = true // registered something newer (before, or as the refutation)
				break
			}
			if c.start > d {
				pv, pok := c.versionOf(0)
				if !pok || pv < npar {
					continue
				}
				if e.k == 0 || (covers && v >= nv) || (!covers && !c.locks(e.k)) {
					satisfied = true // the refutation (possibly failed by script)
					break
				}
			}
		}
		if satisfied {
			continue
		}
		if earlierSession {
			mayZones++
			continue
		}
		src := "injected"
		if e.self {
			src = "self-caused"
		}
		detail := fmt.Sprintf("%s registered event for %s with v%d while v%d had been published before: no Register call covers %s with a version >= v%d afterwards (event %s at #%d, handler returned at #%d)",
			src, chName(e.k), e.ver, nv, chName(e.k), nv, map[bool]string{true: "delivered", false: "never taken by the watcher, queued"}[e.tDeq > 0], d, e.tDone)
		if p.failedStopBefore(done) {
			h.fail("C05.refused-stop@stops-refuting", "after a StopWatching(P) that did not succeed: %s", detail)
		} else {
			h.fail("C05.no-refutation", "%s", detail)
		}
	}

	// ---- relay ---------------------------------------------------------------------
	relayed := 0
	for k, c := range h.ch {
		for _, ep := range c.eps {
			// one event stream per watching session: order is checked per stream
			var lastReg int64 = -1
			for _, r := range ep.relays {
				h.evals++
				relayed++
				e := h.evByObj[r.obj]
				if e == nil || e.k != k || e.ep != ep {
					h.fail("C05.relay-unknown", "the client of %s received an event the adjudicator never emitted for that channel in this watching session: %T v%d", chName(k), r.obj, r.obj.Version())
					continue
				}
				e.nRel++
				if e.nRel > 1 {
					h.fail("C05.relay-duplicate", "%s event v%d of %s reached the client %d times", kindNames[e.kind], e.ver, chName(k), e.nRel)
				}
				if e.kind == kindRegistered {
					if int64(e.ver) <= lastReg {
						h.fail("C05.relay-order", "registered event v%d of %s reached the client after registered event v%d", e.ver, chName(k), lastReg)
					}
					lastReg = int64(e.ver)
				}
			}
		}
	}
	for _, e := range h.evs {
		if e.kind == kindRegistered {
			continue
		}
		h.evals++
		if e.nRel == 1 {
			continue
		}
		if h.stopRaces(e) {
			mayZones++
			continue
		}
		if e.nRel == 0 {
			detail := fmt.Sprintf("%s event v%d of watched channel %s never reached the client (injected at #%d, taken by the watcher at #%d)", kindNames[e.kind], e.ver, chName(e.k), e.tInj, e.tDeq)
			if e.k == 0 && p.failedStopBefore(doneOrInf(e)) {
				h.fail("C05.refused-stop@stops-relaying", "after a StopWatching(P) that did not succeed: %s", detail)
			} else {
				h.fail("C05.relay-lost", "%s", detail)
			}
		}
	}

	if refutations > 0 && relayed > 0 {
		s.Res.NonTrivial = true
	}
}

// checkShape verifies the arguments of one Register call. d is the tick at
// which the oldest event that can have caused the call was reported.
func (h *harness) checkShape(c *callRec, d int64, mayZones *int64) {
	p := h.ch[0]
	what := describeCall(h, c)
	if c.tx.State == nil || c.tx.State.ID != staticIDs[0] {
		h.fail("C05.register-shape@parent-not-ledger-channel", "Register call %s: the request's transaction is not one of the ledger channel", what)
		return
	}
	if c.params == nil || c.params.ID() != staticIDs[0] {
		h.fail("C05.register-shape@parent-params", "Register call %s: the request's parameters are not the ledger channel's", what)
		return
	}
	pv := c.tx.State.Version
	pr := p.pubOf(pv)
	if pr == nil || !bytes.Equal(pr.enc, encodeOf(c.tx.State)) {
		h.fail("C05.register-shape@parent-not-published", "Register call %s: the parent state is not a transaction published for P", what)
		return
	}
	if !sigsEqual(pr.tx.Sigs, c.tx.Sigs) {
		h.fail("C05.register-shape@parent-sigs", "Register call %s: the parent's signatures are not the published ones", what)
		return
	}
	lo, _ := p.newestRet(d)
	hi, _ := p.newestInv(c.start)
	if pv < lo {
		h.fail("C05.register-shape@parent-stale", "Register call %s: parent v%d although v%d had been published before the causing event was reported", what, pv, lo)
		return
	}
	if pv > hi {
		h.fail("C05.register-shape@parent-from-future", "Register call %s: parent v%d was not yet published (newest v%d)", what, pv, hi)
		return
	}
	locked := c.tx.State.Locked
	if len(c.subs) != len(locked) {
		h.fail("C05.register-shape@substate-count", "Register call %s: %d sub-states for %d locked sub-allocations", what, len(c.subs), len(locked))
		return
	}
	for i := range locked {
		k := h.indexOf(locked[i].ID)
		if k < 1 {
			continue // cannot happen: the driver only locks its own sub-channels
		}
		x := h.ch[k]
		ss := c.subs[i]
		if ss.State == nil {
			h.fail("C05.register-shape@substate-missing", "Register call %s: sub-state %d (for locked %s) is empty", what, i, chName(k))
			return
		}
		if ss.State.ID != locked[i].ID {
			h.fail("C05.register-shape@substate-order", "Register call %s: sub-state %d is a state of %s, but sub-allocation %d locks %s", what, i, chName(h.indexOf(ss.State.ID)), i, chName(k))
			return
		}
		if ss.Params == nil || ss.Params.ID() != locked[i].ID {
			h.fail("C05.register-shape@substate-params", "Register call %s: sub-state %d does not carry the parameters of %s", what, i, chName(k))
			return
		}
		sr := x.pubOf(ss.State.Version)
		if sr == nil || !bytes.Equal(sr.enc, encodeOf(ss.State)) {
			h.fail("C05.register-shape@substate-not-published", "Register call %s: sub-state %d is not a transaction published for %s", what, i, chName(k))
			return
		}
		if !sigsEqual(sr.tx.Sigs, ss.Sigs) {
			h.fail("C05.register-shape@substate-sigs", "Register call %s: the signatures of sub-state %d are not the published ones", what, i)
			return
		}
		v := ss.State.Version
		// Which transaction of S_k the statement prescribes depends on whether S_k
		// was watched while the tree was collected, i.e. somewhere in the window
		// [d, call start]. Every status S_k can have had in that window
		// contributes one acceptable interval of versions.
		type alt struct {
			lo, hi   uint64
			archived bool
		}
		var alts []alt
		live := false
		for n, ep := range x.eps {
			if ep.start.err != nil || ep.start.panicked != "" {
				continue
			}
			// possibly watched: from the invocation of StartWatching to the return
			// of the StopWatching that succeeded
			pwEnd := inf
			st := ep.okStop()
			if st != nil {
				pwEnd = st.ret
			}
			if ep.start.inv <= c.start && pwEnd >= d {
				live = true
			}
			// possibly de-registered after this session: from the invocation of a
			// StopWatching that succeeded (or has not returned) to the return of the
			// next StartWatching. The archive holds something for S_k only if it was
			// locked in P's newest transaction at that invocation.
			for _, sr := range ep.stops {
				if !(sr == st || sr.ret == 0) || !sr.archived {
					continue
				}
				pdEnd := inf
				if n+1 < len(x.eps) && x.eps[n+1].start.ret > 0 {
					pdEnd = x.eps[n+1].start.ret
				}
				if sr.inv <= c.start && pdEnd >= d {
					alo, _ := x.newestRet(sr.inv)
					end := sr.ret
					if end == 0 {
						end = inf
					}
					ahi, _ := x.newestInv(end)
					alts = append(alts, alt{alo, ahi, true})
				}
			}
		}
		if live {
			// watched: newest published, with the may-zone of racing publishes
			slo, _ := x.newestRet(d)
			shi, _ := x.newestInv(c.start)
			alts = append(alts, alt{slo, shi, false})
		}
		if len(alts) == 0 {
			h.s.Count("probe.out_of_scope_lock", 1)
			continue // cannot happen: the driver locks only watched or archived sub-channels
		}
		if len(alts) > 1 {
			*mayZones++ // a StopWatching / re-start of S_k overlaps the collection
		}
		okV := false
		desc := ""
		for _, a := range alts {
			if a.archived && a.lo != a.hi {
				*mayZones++ // a Publish raced with the StopWatching
			}
			if v >= a.lo && v <= a.hi {
				okV = true
				if a.archived && len(alts) == 1 {
					h.s.Count("probe.archived_state_used", 1)
				}
			}
			kind := "newest published (watched)"
			if a.archived {
				kind = "archived at de-registration"
			}
			if a.lo == a.hi {
				desc += fmt.Sprintf("[%s: v%d] ", kind, a.lo)
			} else {
				desc += fmt.Sprintf("[%s: v%d..v%d] ", kind, a.lo, a.hi)
			}
		}
		if !okV {
			check := "C05.register-shape@substate-stale"
			if !live {
				check = "C05.register-shape@archived-substate"
			}
			h.fail(check, "Register call %s: sub-channel %s with v%d, acceptable: %s", what, chName(k), v, desc)
			return
		}
	}
}

func encodeOf(st *channel.State) []byte {
	var b bytes.Buffer
	if err := st.Encode(&b); err != nil {
		return []byte("unencodable: " + err.Error())
	}
	return b.Bytes()
}
