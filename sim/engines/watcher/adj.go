package watchereng

import (
	"context"
	"errors"
	"fmt"
	"sync"
	"time"

	"perun.network/go-perun/channel"
)

// adjudicator is the ScriptedAdjudicator of DESIGN 3.2 for C05: a
// channel.RegisterSubscriber that records every Register call with global
// event numbers, lets it succeed or fail per script and, when configured,
// emits the RegisteredEvents a chain would emit for the registered tree.
//
// Subscribe never blocks or sleeps: the watcher calls it with its registry
// mutex (a std sync.Mutex) held (DESIGN R3).
type adjudicator struct {
	h *harness

	mu    sync.Mutex // never held across a sleep or a blocking operation
	subs  [nChans]*subscription
	calls int
	fail  map[int]bool // Register call numbers (0-based) that fail by script

	subCalls  int          // Subscribe calls so far
	failSub   map[int]bool // Subscribe call numbers (0-based) that fail by script
	subFailed [nChans]bool // the last Subscribe for the channel failed by script
}

var errScriptedSub = errors.New("scripted adjudicator: Subscribe fails (fault plan)")

var errScripted = errors.New("scripted adjudicator: Register fails (fault plan)")

// subscription implements channel.AdjudicatorSubscription with a large
// buffered queue. Next blocks on channels only (durably, in synctest terms)
// and returns nil after Close.
type subscription struct {
	a      *adjudicator
	k      int    // channel index
	ep     *epoch // watching session it belongs to
	events chan channel.AdjudicatorEvent
	closed chan struct{}
	once   sync.Once
	cur    *evRec // event handed out by the last Next (guarded by h.mu)
}

func (a *adjudicator) Subscribe(_ context.Context, id channel.ID) (channel.AdjudicatorSubscription, error) {
	k := a.h.indexOf(id)
	if k < 0 {
		return nil, fmt.Errorf("scripted adjudicator: unknown channel %x", id[:4])
	}
	a.mu.Lock()
	n := a.subCalls
	a.subCalls++
	failNow := a.failSub[n]
	a.subFailed[k] = failNow
	a.mu.Unlock()
	if failNow {
		return nil, errScriptedSub
	}
	sub := &subscription{a: a, k: k, ep: a.h.curEpoch(k), events: make(chan channel.AdjudicatorEvent, 4096), closed: make(chan struct{})}
	a.mu.Lock()
	a.subs[k] = sub
	a.mu.Unlock()
	return sub, nil
}

// sub returns the subscription of channel k (nil before StartWatching).
func (a *adjudicator) sub(k int) *subscription {
	a.mu.Lock()
	defer a.mu.Unlock()
	return a.subs[k]
}

func (s *subscription) isClosed() bool {
	select {
	case <-s.closed:
		return true
	default:
		return false
	}
}

func (s *subscription) Next() channel.AdjudicatorEvent {
	h := s.a.h
	// calling Next again means: the handler is done with the previous event
	h.handlerDone(s)
	// closed wins over pending events, so that what happens after Close does
	// not depend on the runtime's choice among ready select cases
	if s.isClosed() {
		return nil
	}
	select {
	case e := <-s.events:
		h.dequeued(s, e)
		return e
	case <-s.closed:
		return nil
	}
}

func (s *subscription) Err() error { return nil }

func (s *subscription) Close() error {
	s.a.h.note(s.k, "adj.sub-closed", "")
	s.once.Do(func() { close(s.closed) })
	return nil
}

// Register records the call, sleeps the keyed chain latency (the caller holds
// only poly-go's channel-based mutex, which blocks durably), then fails or
// succeeds per script. On success with self-caused events enabled the
// registered events of the tree are delivered to the open subscriptions after
// keyed delays, so they may arrive before or after Register returns.
func (a *adjudicator) Register(_ context.Context, req channel.AdjudicatorReq, subs []channel.SignedState) error {
	h := a.h
	a.mu.Lock()
	n := a.calls
	a.calls++
	fail := a.fail[n]
	a.mu.Unlock()

	c := h.callStart(n, req, subs)
	h.s.Sleep(h.key("adj:register:mined"), 0, h.regMax)
	if fail {
		h.s.Count("fault.register_failure", 1)
		h.callEnd(c, false)
		return errScripted
	}
	if h.selfEvents {
		a.emitTree(n, req, subs)
	}
	h.s.Sleep(h.key("adj:register:confirmed"), 0, h.regMax)
	h.callEnd(c, true)
	return nil
}

// emitTree schedules one RegisteredEvent per channel of the registered tree.
func (a *adjudicator) emitTree(n int, req channel.AdjudicatorReq, subs []channel.SignedState) {
	h := a.h
	type item struct {
		k  int
		st *channel.State
		sg [][]byte
	}
	var items []item
	if req.Tx.State != nil {
		if k := h.indexOf(req.Tx.State.ID); k >= 0 {
			items = append(items, item{k, req.Tx.State, req.Tx.Sigs})
		}
	}
	for _, ss := range subs {
		if ss.State == nil {
			continue
		}
		if k := h.indexOf(ss.State.ID); k >= 0 {
			items = append(items, item{k, ss.State, ss.Sigs})
		}
	}
	for _, it := range items {
		sub := a.sub(it.k)
		if sub == nil || sub.isClosed() {
			continue
		}
		d := h.s.Delay(h.key(fmt.Sprintf("adj:self-event:%s", chName(it.k))), 0, h.evMax)
		ev := channel.NewRegisteredEvent(it.st.ID, &channel.ElapsedTimeout{}, it.st.Version, it.st, it.sg)
		k := it.k
		h.bg.Add(1)
		go func() {
			defer h.bg.Done()
			t := time.NewTimer(d)
			defer t.Stop()
			select {
			case <-t.C:
			case <-sub.closed:
				return
			}
			if h.inject(k, kindRegistered, ev.Version(), ev, true) {
				h.s.Count("probe.self_event", 1)
			}
		}()
	}
}
