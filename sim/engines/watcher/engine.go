// Package watchereng is the simulation engine for property C05: the real
// local.Watcher alone on a scripted adjudicator, driven by generated histories
// of publishes, adjudicator events and start/stop requests inside a synctest
// bubble, checked against a reference model of the property statement.
package watchereng

import (
	"fmt"
	"testing"

	"verif/sim/kernel"
)

// Engine implements kernel.Engine for C05.
type Engine struct{}

func (Engine) Name() string { return "watcher" }

func (Engine) Plan(prop, tier string) kernel.Plan {
	if prop != "C05" {
		return kernel.Plan{}
	}
	depth := enumDepth(tier)
	info := enumPlan(depth)
	random := 2000
	if tier == "thorough" {
		random = 400000
	}
	p := kernel.Plan{Pin: true, CrashProne: true}
	p.Exhaustive = 1 + len(info.chunks)
	p.ExhaustiveNote = fmt.Sprintf("all %d histories of up to %d actions applicable after StartWatchingLedgerChannel(P) with one sub-channel and versions <= %d "+
		"(start S; publish P with S locked or not; publish S; registered event for P or S with version 0..min(newest+1,%d); progressed / concluded event for P or S; "+
		"StopWatching(S); one re-start of S with its next version after it was de-registered; StopWatching(P), refused while S is watched), each under %d schedules (at quiescence; sequential with keyed gaps up to 1.5 ms and all yield sites on; "+
		"concurrent within microseconds with all yield sites on), in %d chunks",
		info.histories, depth, enumMaxVer, enumMaxVer, nSchedules, p.Exhaustive)
	p.Runs = p.Exhaustive + random
	return p
}

func (e Engine) Generate(prop, tier string, run int, seed uint64) *kernel.Scenario {
	if prop != "C05" {
		return nil
	}
	plan := e.Plan(prop, tier)
	if run < plan.Exhaustive {
		return &kernel.Scenario{Config: map[string]int64{"enum": 1, "enum_depth": int64(enumDepth(tier)), "enum_chunk": int64(run)}}
	}
	return genRandom(kernel.NewRand(seed))
}

func (Engine) Execute(t *testing.T, sc *kernel.Scenario, trace bool) *kernel.Result {
	if sc.Cfg("enum", 0) == 1 {
		return runChunk(t, sc, trace)
	}
	return runScenario(t, sc, trace)
}

// ---- seeded random histories ------------------------------------------------------

type gmodel struct {
	pw      int
	re      [nChans]int
	sw      [nChans]int
	v       [nChans]int
	locked  [nChans]bool
	arch    [nChans]bool
	refused bool
}

func genRandom(r *kernel.Rand) *kernel.Scenario {
	sc := &kernel.Scenario{Config: map[string]int64{}}
	c := sc.Config
	nsub := 1 + r.Weighted([]int{3, 4, 3})
	c["self_events"] = int64(r.Intn(2))
	c["yield_pct"] = int64([]int{0, 30, 100}[r.Intn(3)])
	c["reg_max_us"] = int64([]int{5, 200, 1500}[r.Intn(3)])
	c["ev_max_us"] = int64([]int{5, 300, 2500}[r.Intn(3)])
	c["async_max_us"] = int64([]int{2, 30, 1200}[r.Intn(3)])
	c["race_start_stop"] = int64(r.Weighted([]int{2, 1})) // epilogue: StopWatching(parent) races StartWatchingSubChannel
	asyncP := []float64{0, 0.2, 0.6}[r.Intn(3)]
	gaps := [][]int{
		{0, 0, 1, 3, 20},                       // bursts
		{0, 1, 30, 300, 900, 1000, 1100, 2500}, // around the watcher's 1 ms waits
		{0, 5, 500, 3000, 8000, 30000},         // mixed
		{10000, 20000, 30000},                  // at quiescence
	}[r.Weighted([]int{2, 4, 3, 1})]
	// swarm: per run some kinds of action are rare or absent
	w := map[string]int{"startS": 6, "pubP": 8, "pubS": 8, "reg": 12, "prog": 3, "concl": 3, "stopS": 3, "stopP": 3}
	for _, k := range []string{"pubP", "pubS", "reg", "prog", "concl", "stopS", "stopP"} {
		w[k] *= []int{0, 1, 1, 1, 3}[r.Intn(5)]
	}
	if w["reg"] == 0 && r.Bool(0.8) {
		w["reg"] = 12
	}
	// a third of the runs concentrate on the life cycle of sub-channels: watch,
	// lock, de-register, watch again, publish, de-register again, with outdated
	// registered events in between
	lifecycle := r.Bool(0.35)
	if lifecycle {
		w["stopS"], w["reg"], w["pubP"], w["stopP"] = 9, 12, 8, 1
		w["startS"] = 9
	}
	m := &gmodel{pw: 1}
	v0 := 0
	if r.Bool(0.25) {
		v0 = r.Range(1, 3)
	}
	m.v[0] = v0
	sc.Steps = append(sc.Steps, kernel.St("startP", "v", v0))
	length := r.Range(1, 25)
	for len(sc.Steps) < 1+length && m.pw == 1 {
		type cand struct {
			w  int
			st kernel.Step
		}
		var cs []cand
		add := func(weight int, st kernel.Step) {
			if weight > 0 {
				cs = append(cs, cand{weight, st})
			}
		}
		var watched, eligible []int
		for j := 1; j <= nsub; j++ {
			if m.sw[j] == 0 {
				sv := 0
				if r.Bool(0.15) {
					sv = r.Range(1, 2)
				}
				add(w["startS"], kernel.St("startS", "i", j, "v", sv))
			}
			if m.sw[j] == 1 {
				watched = append(watched, j)
				eligible = append(eligible, j)
				add(w["pubS"], kernel.St("pub", "ch", j))
				add(w["stopS"]*(1+2*b2i(m.refused)), kernel.St("stop", "ch", j))
			}
			if m.sw[j] == 2 && m.arch[j] {
				eligible = append(eligible, j)
			}
			if m.sw[j] == 2 && m.re[j] < 2 {
				// re-watch a de-registered sub-channel (still locked in P or not)
				add(w["startS"]*(2+b2i(m.locked[j]))/3, kernel.St("startS", "i", j))
			}
		}
		mask := 0
		unlockedEligible := 0
		for _, j := range eligible {
			keep := 0.55
			if lifecycle {
				keep = 0.8
			}
			if m.locked[j] {
				keep = 0.85
				if lifecycle {
					keep = 0.95
				}
			} else {
				unlockedEligible++
			}
			if r.Bool(keep) {
				mask |= 1 << (j - 1)
			}
		}
		// a freshly watched sub-channel should soon be locked (funded) in P
		add(w["pubP"]*(1+unlockedEligible), kernel.St("pub", "ch", 0, "lock", mask, "ord", r.Intn(8)))
		archivedLocked := 0
		for j := 1; j <= nsub; j++ {
			if m.sw[j] == 2 && m.arch[j] && m.locked[j] {
				archivedLocked++
			}
		}
		for _, k := range append([]int{0}, watched...) {
			// versions 0..newest+1, outdated ones preferred
			ver := r.Range(0, m.v[k]+1)
			if m.v[k] > 0 && r.Bool(0.5) {
				ver = r.Range(0, m.v[k]-1)
			}
			wk := w["reg"] * (1 + archivedLocked)
			if k > 0 {
				wk = wk * 2 / 3
			}
			add(wk, kernel.St("ev", "ch", k, "kind", kindRegistered, "v", ver))
			add(w["prog"], kernel.St("ev", "ch", k, "kind", kindProgressed, "v", r.Range(0, m.v[k]+1)))
			add(w["concl"], kernel.St("ev", "ch", k, "kind", kindConcluded, "v", r.Range(0, m.v[k]+1)))
		}
		for j := 1; j <= nsub; j++ {
			if m.sw[j] == 2 && r.Bool(0.3) {
				// event for an already de-registered channel: dropped with its subscription
				add(1, kernel.St("ev", "ch", j, "kind", r.Intn(3), "v", r.Range(0, m.v[j]+1)))
			}
		}
		add(w["stopP"]*(1+2*b2i(m.refused)), kernel.St("stop", "ch", 0))
		if len(cs) == 0 {
			break
		}
		ws := make([]int, len(cs))
		for i := range cs {
			ws[i] = cs[i].w
		}
		st := cs[r.Weighted(ws)].st
		st.A["gap_us"] = int64(gaps[r.Intn(len(gaps))])
		if r.Bool(asyncP) {
			st.A["async"] = 1
		}
		sc.Steps = append(sc.Steps, st)
		// sequential model of the effect (what the run really does is decided at run time)
		switch st.Op {
		case "startS":
			j := int(st.Int("i"))
			if m.sw[j] == 2 {
				m.re[j]++
				m.v[j]++
			} else {
				m.v[j] = int(st.Int("v"))
			}
			m.sw[j] = 1
		case "pub":
			k := int(st.Int("ch"))
			m.v[k]++
			if k == 0 {
				for j := 1; j <= maxSubs; j++ {
					m.locked[j] = st.Int("lock")>>(j-1)&1 == 1
				}
			}
		case "stop":
			k := int(st.Int("ch"))
			if k > 0 {
				m.sw[k] = 2
				m.arch[k] = m.locked[k]
			} else {
				any := false
				for j := 1; j <= maxSubs; j++ {
					any = any || m.sw[j] == 1
				}
				if any {
					m.refused = true
				} else {
					m.pw = 2
				}
			}
		}
	}
	if r.Bool(0.3) {
		for n := r.Range(1, 3); n > 0; n-- {
			sc.Faults = append(sc.Faults, kernel.St("regfail", "n", r.Intn(6)))
		}
	}
	if r.Bool(0.25) {
		// a StartWatching whose chain subscription cannot be set up (never the
		// first one: that is the ledger channel's)
		sc.Faults = append(sc.Faults, kernel.St("subfail", "n", 1+r.Intn(5)))
	}
	if r.Bool(0.15) {
		c["churn"] = 1 // epilogue: one sub-channel is watched and de-registered 70 times in a row
	}
	if r.Bool(0.3) {
		c["lag_burst"] = 1 // epilogue: the client stops reading while more events arrive than the watcher buffers
	}
	return sc
}

func b2i(b bool) int {
	if b {
		return 1
	}
	return 0
}

func (Engine) Describe(prop string) kernel.Describe {
	return kernel.Describe{
		Rule: "the real local.Watcher alone on a scripted adjudicator, one synctest bubble per history. Histories: StartWatching for a ledger channel P and 1-3 sub-channels, re-watching of de-registered sub-channels with their next version; " +
			"Publish of the next version on P (with a drawn, ordered set of locked sub-channels among those watched or de-registered while locked) and on sub-channels; " +
			"registered / progressed / concluded events with versions 0..newest+1 pushed into the watcher's subscriptions; StopWatching(S_i); StopWatching(P) (refused while sub-channels are watched, repeated). " +
			"Every action is issued after an explicit gap plus a keyed jitter, optionally on its own goroutine; the three yield sites in watcher.go park under a buggify mask; Register takes a keyed latency, fails by script, " +
			"and (per run) emits the registered events of the registered tree. Every observable point gets a global number; at quiescence (50 simulated ms without an observable event) a reference model of the statement is evaluated: " +
			"must-refute (a registered event reported with a version below the newest transaction whose Publish had returned, nothing newer registered: some Register call after the report carries the tree with versions at least that new, unless a de-registration of that channel raced), " +
			"shape of every call (parent = a published transaction of P between newest-known-for-sure and newest-possibly-known; one sub-state per locked sub-allocation, in order: live sub-channel from the same kind of interval, de-registered one exactly its archived last transaction; published signatures and parameters), " +
			"no call without a cause (a registered event in handling whose version is below the newest published one and for which nothing newer had been registered before it was reported), " +
			"relay (registered events at most once and strictly increasing per channel, progressed/concluded exactly once unless a de-registration raced, nothing invented), " +
			"refused stop (ErrSubChannelsPresent, channel stays watched: keeps refuting and relaying, stream stays open, repeatable, succeeds once the sub-channels are gone, no panic). " +
			"Enumerated part: see enumerated_subspace. Non-trivial run: at least one justified Register call and at least one relayed event; distinct = scenario digest x interleaving hash.",
		Assumptions: []string{
			"single-ledger channels only (sim assets); signatures are dummy bytes (the watcher never verifies them)",
			"a sub-channel is locked in a P transaction only while it is watched or after it was de-registered while locked; a sub-channel locked without ever being watched is outside the statement (see known finding C04 unwatched-locked-subchannel)",
			"a sub-channel may be watched again after its StopWatching succeeded (same channel ID; StartWatchingSubChannel gets the sub-channel's next version; up to two re-starts per sub-channel in random histories, one in the enumerated part), " +
				"also while it is still locked in P; the ledger channel P itself is watched once; nothing is published on a channel once a stop request for it was made, until it is watched again (documented contract of StatesPub)",
			"watching sessions: every StartWatching opens a new session with its own chain subscription, StatesPub and client event stream. While S_i is watched (session running) its sub-state must be its newest published transaction (the state handed to the re-start included, from the return of StartWatchingSubChannel on); " +
				"while it is de-registered, exactly the transaction archived at the latest StopWatching (archive bookkeeping per channel and session; an archive exists only if S_i was locked in P's newest transaction at that StopWatching, and only then may P lock it while de-registered). " +
				"'at most once and in strictly increasing version order' is checked per event stream, i.e. per watching session",
			"'the adjudicator reports' is the moment the watcher takes the event from its subscription; 'published' is the moment Publish returned; a publish overlapping the handling of an event may or may not be used (may-zone)",
			"may-zones: an event whose handler has not returned when a (successful) StopWatching of its channel is invoked needs no refutation/relay; a sub-state whose channel is being de-registered while the tree is collected may be the live or the archived one; " +
				"while a StartWatchingSubChannel (re-start) of S_i is in flight during the collection of the tree, the archived or the new/live state of S_i is acceptable; " +
				"StopWatching(P) overlapping a StopWatching(S_i) may be refused or not; a Register that returned while a later event was already reported may or may not count as 'already registered something newer'; " +
				"a registration made in an earlier watching session of a re-watched sub-channel (or while it was de-registered) may or may not count as 'already registered something newer' for events of the new session: it excuses a missing refutation and does not make a refutation spurious",
			"events pushed into the subscription of an already de-registered channel are dropped by the stub (its subscription is closed)",
		},
		Real: []string{"watcher/local.Watcher (registry, states pub-sub, adjudicator pub-sub, all handler goroutines)", "channel.State/Allocation/Params/Transaction/AdjudicatorEvent types",
			"polycry.pt/poly-go sync.Mutex / WaitGroup", "backend/sim channel+wallet (parameters, channel IDs)"},
		Stub: []string{"channel.RegisterSubscriber -> ScriptedAdjudicator (records Register calls, keyed latency, scripted failures, optional self-caused registered events; Subscribe never blocks, unbounded subscription queue)",
			"client -> driver goroutines (Publish, StartWatching*, StopWatching) and one reader goroutine per event stream", "time -> testing/synctest fake clock (the watcher's 1 ms statesFromClientWaitTime is simulated, not removed)"},
		FaultKinds: []string{"register_failure (scripted)", "racing publish / event / stop / start (keyed gaps, asynchronous actions)", "yield hooks (buggify subset)", "self-caused registered events", "late chain events (keyed delivery delay)", "events for de-registered channels"},
	}
}
