package watchereng

import (
	"fmt"
	"runtime"
	"sort"
	"sync"
	"testing"

	"verif/sim/kernel"
)

// Enumerated part: all action histories up to a given length with one ledger
// channel P (watched from the start), one sub-channel S and versions <= 2,
// each under three schedules. "All" means: all sequences of actions that are
// applicable in the sequential reference model below (an action the driver
// would skip adds nothing to a history).

type mstate struct {
	pw, sw int // 0 not started, 1 watched, 2 de-registered
	vP, vS int
	locked bool // S locked in P's newest transaction
	arch   bool // S de-registered while locked (at its latest StopWatching)
	re     int  // re-starts of S so far (at most enumMaxRestarts)
}

const (
	enumMaxVer      = 2
	enumMaxRestarts = 1
)

func (m mstate) actions() []kernel.Step {
	var a []kernel.Step
	if m.pw != 1 {
		return nil
	}
	if m.sw == 0 {
		a = append(a, kernel.St("startS", "i", 1))
	}
	if m.sw == 2 && m.re < enumMaxRestarts && m.vS < enumMaxVer {
		// re-watch S with its next version
		a = append(a, kernel.St("startS", "i", 1))
	}
	if m.vP < enumMaxVer {
		a = append(a, kernel.St("pub", "ch", 0, "lock", 0))
		if m.sw == 1 || (m.sw == 2 && m.arch) {
			a = append(a, kernel.St("pub", "ch", 0, "lock", 1))
		}
	}
	if m.sw == 1 && m.vS < enumMaxVer {
		a = append(a, kernel.St("pub", "ch", 1))
	}
	for k := 0; k < 2; k++ {
		if (k == 0 && m.pw != 1) || (k == 1 && m.sw != 1) {
			continue
		}
		newest := m.vP
		if k == 1 {
			newest = m.vS
		}
		for v := 0; v <= newest+1 && v <= enumMaxVer; v++ {
			a = append(a, kernel.St("ev", "ch", k, "kind", kindRegistered, "v", v))
		}
		a = append(a, kernel.St("ev", "ch", k, "kind", kindProgressed, "v", newest))
		a = append(a, kernel.St("ev", "ch", k, "kind", kindConcluded, "v", newest))
	}
	if m.sw == 1 {
		a = append(a, kernel.St("stop", "ch", 1))
	}
	a = append(a, kernel.St("stop", "ch", 0))
	return a
}

func (m mstate) apply(st *kernel.Step) mstate {
	switch st.Op {
	case "startS":
		if m.sw == 2 {
			m.re++
			m.vS++
		}
		m.sw = 1
	case "pub":
		if st.Int("ch") == 0 {
			m.vP++
			m.locked = st.Int("lock") == 1
		} else {
			m.vS++
		}
	case "stop":
		if st.Int("ch") == 1 {
			m.sw = 2
			m.arch = m.locked
		} else if m.sw != 1 {
			m.pw = 2
		}
	}
	return m
}

// walk calls fn for every history (including the empty one) that extends
// prefix up to maxLen actions.
func walk(m mstate, hist []kernel.Step, maxLen int, fn func([]kernel.Step) bool) bool {
	if !fn(hist) {
		return false
	}
	if len(hist) >= maxLen {
		return true
	}
	for _, a := range m.actions() {
		a := a
		if !walk(m.apply(&a), append(hist[:len(hist):len(hist)], a), maxLen, fn) {
			return false
		}
	}
	return true
}

// prefixesOfLen lists all histories of exactly n actions.
func prefixesOfLen(n int) [][]kernel.Step {
	var out [][]kernel.Step
	walk(mstate{pw: 1}, nil, n, func(h []kernel.Step) bool {
		if len(h) == n {
			out = append(out, append([]kernel.Step{}, h...))
		}
		return true
	})
	return out
}

func replayModel(h []kernel.Step) mstate {
	m := mstate{pw: 1}
	for i := range h {
		m = m.apply(&h[i])
	}
	return m
}

// enumDepth is the history length of the enumerated part per tier.
func enumDepth(tier string) int {
	if tier == "thorough" {
		return 6
	}
	return 5
}

// chunkDepth is the prefix length that names a chunk (= one run index).
func chunkDepth(depth int) int {
	if depth >= 5 {
		return 3
	}
	return 2 // (depth 4 and below: used when a replay file names such a depth)
}

type enumInfo struct {
	chunks    [][]kernel.Step // chunk j>=1 = histories extending chunks[j-1]; chunk 0 = shorter histories
	histories int
}

var (
	enumMu    sync.Mutex
	enumCache = map[int]*enumInfo{}
)

func enumPlan(depth int) *enumInfo {
	enumMu.Lock()
	defer enumMu.Unlock()
	if e, ok := enumCache[depth]; ok {
		return e
	}
	e := &enumInfo{chunks: prefixesOfLen(chunkDepth(depth))}
	walk(mstate{pw: 1}, nil, depth, func([]kernel.Step) bool { e.histories++; return true })
	enumCache[depth] = e
	return e
}

const nSchedules = 3

// schedule turns a bare history into an explicit scenario. Schedule 0 issues
// every action at quiescence (no race; self-caused events on); schedule 1
// issues them sequentially after keyed gaps of up to 1.5 ms (races with the
// watcher's 1 ms waits; all yield sites on); schedule 2 issues them
// concurrently within a few microseconds (all yield sites on, self-caused
// events on).
func schedule(base *kernel.Scenario, hist []kernel.Step, sched int, salt int64) *kernel.Scenario {
	sc := &kernel.Scenario{Engine: base.Engine, Property: base.Property, Seed: base.Seed, Run: base.Run,
		Config: map[string]int64{"salt": salt, "sched": int64(sched)}}
	steps := make([]kernel.Step, 0, len(hist)+1)
	steps = append(steps, kernel.St("startP", "v", 0))
	r := kernel.NewRand(kernel.Derive(base.Seed, "enum-schedule", int(salt)))
	for _, a := range hist {
		st := kernel.Step{Op: a.Op, A: map[string]int64{}}
		for k, v := range a.A {
			st.A[k] = v
		}
		switch sched {
		case 0:
			st.A["gap_us"] = 20000
		case 1:
			st.A["gap_us"] = int64([]int{0, 2, 40, 600, 990, 1010, 1500}[r.Intn(7)])
		case 2:
			st.A["gap_us"] = int64([]int{0, 0, 1, 5, 30}[r.Intn(5)])
			st.A["async"] = 1
		}
		steps = append(steps, st)
	}
	sc.Steps = steps
	switch sched {
	case 0:
		sc.Config["self_events"], sc.Config["yield_pct"] = 1, 0
	case 1:
		sc.Config["self_events"], sc.Config["yield_pct"] = 0, 100
	case 2:
		sc.Config["self_events"], sc.Config["yield_pct"] = 1, 100
	}
	return sc
}

// runChunk executes one chunk of the enumeration.
func runChunk(t *testing.T, sc *kernel.Scenario, trace bool) *kernel.Result {
	depth := int(sc.Cfg("enum_depth", 4))
	chunk := int(sc.Cfg("enum_chunk", 0))
	info := enumPlan(depth)
	res := &kernel.Result{Counters: map[string]int64{}}
	states := map[uint64]struct{}{}
	var hists, cases int64
	ilv := uint64(0)
	run := func(hist []kernel.Step) bool {
		hists++
		for sched := 0; sched < nSchedules; sched++ {
			cases++
			if cases%128 == 0 {
				// the worker collects garbage only between runs (R4); a chunk is many bubbles
				runtime.GC()
			}
			one := schedule(sc, hist, sched, cases)
			r := runScenario(t, one, false)
			res.Evals += r.Evals
			res.SimNs += r.SimNs
			ilv = kernel.Derive(ilv, r.Interleaving)
			for k, v := range r.Counters {
				res.Counters[k] += v
			}
			for _, s := range r.States {
				states[s] = struct{}{}
			}
			if r.NonTrivial {
				res.NonTrivial = true
			}
			if r.Violation != nil {
				r2 := runScenario(t, one, true)
				res.Violation = r.Violation
				res.Trace = r2.Trace
				res.Explicit = one
				return false
			}
		}
		return true
	}
	if chunk == 0 {
		cd := chunkDepth(depth)
		walk(mstate{pw: 1}, nil, cd-1, run)
	} else if chunk-1 < len(info.chunks) {
		pre := info.chunks[chunk-1]
		walk(replayModel(pre), pre, depth, run)
	}
	for s := range states {
		res.States = append(res.States, s)
	}
	sort.Slice(res.States, func(i, j int) bool { return res.States[i] < res.States[j] })
	res.Interleaving = ilv
	res.Count("probe.enumerated_histories", hists)
	res.Count("probe.enumerated_cases", cases)
	if trace && res.Violation == nil {
		res.Trace = []string{fmt.Sprintf("enumeration chunk %d: %d histories x %d schedules", chunk, hists, nSchedules)}
	}
	return res
}
