package watchereng

import (
	"context"
	"fmt"
	"math/big"
	"strings"
	"sync"
	"testing"
	"time"

	"perun.network/go-perun/channel"
	"perun.network/go-perun/wallet"
	"perun.network/go-perun/watcher"
	"perun.network/go-perun/watcher/local"

	"verif/sim/gen"
	"verif/sim/kernel"
	"verif/sim/world"
)

// Channel 0 is the ledger channel P, channels 1..maxSubs its sub-channels.
const (
	maxSubs = 3
	nChans  = 1 + maxSubs
)

const (
	kindRegistered = 0
	kindProgressed = 1
	kindConcluded  = 2
)

var kindNames = []string{"registered", "progressed", "concluded"}

func chName(k int) string {
	if k == 0 {
		return "P"
	}
	return fmt.Sprintf("S%d", k)
}

// static channel parameters: fixed per process (the keys of the account pool
// are process-random, so traces only ever show the logical names).
var (
	staticOnce   sync.Once
	staticParams [nChans]*channel.Params
	staticIDs    [nChans]channel.ID
)

func initStatic() {
	staticOnce.Do(func() {
		accs := gen.Pool(2)
		for k := 0; k < nChans; k++ {
			staticParams[k] = gen.Params(accs, 60, gen.AppNone, uint64(0xc05+k), k == 0, false)
			staticIDs[k] = staticParams[k].ID()
		}
	})
}

// ---- history records ----------------------------------------------------------

// pubRec is one transaction made known to the watcher (the initial one of
// StartWatching included).
type pubRec struct {
	ver      uint64
	tx       channel.Transaction
	enc      []byte
	inv, ret int64 // ret==0: still in flight
	locked   []int // P only: locked sub-channels, in allocation order
}

// evRec is one adjudicator event pushed into a subscription.
type evRec struct {
	k     int
	ep    *epoch // watching session whose subscription received it
	kind  int
	ver   uint64
	obj   channel.AdjudicatorEvent
	self  bool
	tInj  int64
	tDeq  int64 // Next returned it to the watcher (0: never)
	tDone int64 // the watcher asked for the next event (0: never)
	nRel  int
}

// callRec is one Register call.
type callRec struct {
	n          int
	start, end int64
	ok         bool
	params     *channel.Params
	tx         channel.Transaction
	subs       []channel.SignedState
}

type opRec struct {
	inv, ret int64
	err      error
	panicked string
	archived bool // StopWatching(S): S was locked in P's newest transaction at the invocation
}

// epoch is one watching session of a channel: from a StartWatching call to
// the StopWatching that succeeds. A sub-channel can have several (re-watching
// after de-registration); every session has its own chain subscription, its
// own StatesPub and its own client event stream.
type epoch struct {
	n            int
	start        *opRec
	stops        []*opRec // StopWatching calls invoked during the session
	relays       []relayRec
	streamClosed int64
}

// okStop returns the successful StopWatching that ended the session, if any.
func (ep *epoch) okStop() *opRec {
	for _, r := range ep.stops {
		if r.ret > 0 && r.err == nil && r.panicked == "" {
			return r
		}
	}
	return nil
}

// startedOK reports whether the session's StartWatching returned nil.
func (ep *epoch) startedOK() bool {
	return ep.start.ret > 0 && ep.start.err == nil && ep.start.panicked == ""
}

type relayRec struct {
	obj channel.AdjudicatorEvent
	t   int64
}

type chState struct {
	k int
	// run-time status (what the driver may do next)
	started       bool
	startInFlight bool
	watched       bool // StartWatching returned nil, no StopWatching returned nil yet
	stopInFlight  int
	stopped       bool
	pubInFlight   int
	pub           watcher.StatesPub
	next          uint64
	locked        []int // P: sub-channels locked in the newest transaction handed to Publish
	archived      bool  // S: was locked in P's newest transaction when its StopWatching was invoked
	// history
	pubs []*pubRec
	eps  []*epoch
}

// cur is the latest watching session (nil before the first StartWatching).
func (c *chState) cur() *epoch {
	if len(c.eps) == 0 {
		return nil
	}
	return c.eps[len(c.eps)-1]
}

// allStops lists the StopWatching calls of all sessions in order.
func (c *chState) allStops() []*opRec {
	var l []*opRec
	for _, ep := range c.eps {
		l = append(l, ep.stops...)
	}
	return l
}

type harness struct {
	s  *world.Sim
	sc *kernel.Scenario
	w  *local.Watcher
	a  *adjudicator

	salt       string
	selfEvents bool
	regMax     time.Duration
	evMax      time.Duration

	mu        sync.Mutex // std mutex: never held across a sleep or blocking call
	seq       int64
	frozen    bool
	lagGate   chan struct{} // lagBurst: readers wait here before taking the next event
	lagOn     bool          // lagBurst: readers record what they take in lagSeen
	lagSeen   []channel.AdjudicatorEvent
	completed bool
	ch        [nChans]*chState
	evs       []*evRec
	evByObj   map[channel.AdjudicatorEvent]*evRec
	calls     []*callRec
	states    []uint64
	evals     int64
	skipped   int64

	wg sync.WaitGroup // asynchronous driver actions
	bg sync.WaitGroup // self-caused event deliveries
}

func (h *harness) key(k string) string { return h.salt + k }

func (h *harness) indexOf(id channel.ID) int {
	for k := range staticIDs {
		if staticIDs[k] == id {
			return k
		}
	}
	return -1
}

// tick numbers a harness-observable point and writes it into the trace in the
// same critical section, so that trace order and numbering agree. Caller
// holds h.mu (the simulator's own lock nests inside, never the other way).
func (h *harness) tick(actor, typ, detail string) int64 {
	h.seq++
	h.s.Event(actor, typ, detail)
	return h.seq
}

func (h *harness) note(k int, typ, detail string) {
	h.s.Event(chName(k), typ, detail)
}

// ---- transactions -------------------------------------------------------------

func mkSigs(k int, ver uint64) []wallet.Sig {
	return []wallet.Sig{
		[]byte(fmt.Sprintf("sig/%s/v%d/0", chName(k), ver)),
		[]byte(fmt.Sprintf("sig/%s/v%d/1", chName(k), ver)),
	}
}

// mkTx builds transaction ver of channel k. For P, locked lists the
// sub-channels locked in it, in allocation order.
func mkTx(k int, ver uint64, locked []int) channel.Transaction {
	alloc := channel.Allocation{
		Assets:   []channel.Asset{gen.Asset(0)},
		Backends: []wallet.BackendID{channel.TestBackendID},
		Balances: channel.Balances{{big.NewInt(1000 - int64(ver) - 10*int64(len(locked))), big.NewInt(500 + int64(ver))}},
	}
	for _, i := range locked {
		alloc.Locked = append(alloc.Locked, *channel.NewSubAlloc(staticIDs[i], []channel.Bal{big.NewInt(10)}, nil))
	}
	st := &channel.State{ID: staticIDs[k], Version: ver, App: channel.NoApp(), Allocation: alloc, Data: channel.NoData()}
	return channel.Transaction{State: st, Sigs: mkSigs(k, ver)}
}

func sigsEqual(a, b []wallet.Sig) bool {
	if len(a) != len(b) {
		return false
	}
	for i := range a {
		if string(a[i]) != string(b[i]) {
			return false
		}
	}
	return true
}

// ---- observation points called by the adjudicator ------------------------------

func (h *harness) handlerDone(sub *subscription) {
	h.mu.Lock()
	if sub.cur != nil && !h.frozen {
		sub.cur.tDone = h.tick(chName(sub.k), "adj.next", "")
	}
	sub.cur = nil
	h.mu.Unlock()
}

func (h *harness) dequeued(sub *subscription, e channel.AdjudicatorEvent) {
	h.mu.Lock()
	r := h.evByObj[e]
	if r != nil && !h.frozen {
		r.tDeq = h.tick(chName(sub.k), "adj.deliver", fmt.Sprintf("%s v%d", kindNames[r.kind], r.ver))
		sub.cur = r
	}
	h.mu.Unlock()
}

func (h *harness) callStart(n int, req channel.AdjudicatorReq, subs []channel.SignedState) *callRec {
	c := &callRec{n: n, params: req.Params, tx: req.Tx, subs: append([]channel.SignedState(nil), subs...)}
	h.mu.Lock()
	c.start = h.tick("adj", "register", describeCall(h, c))
	if !h.frozen {
		h.calls = append(h.calls, c)
	}
	h.mu.Unlock()
	return c
}

func (h *harness) callEnd(c *callRec, ok bool) {
	h.mu.Lock()
	typ := "register.ok"
	if !ok {
		typ = "register.fail"
	}
	c.end = h.tick("adj", typ, fmt.Sprintf("#%d", c.n))
	c.ok = ok
	h.snapshot()
	h.mu.Unlock()
}

func describeCall(h *harness, c *callRec) string {
	d := fmt.Sprintf("#%d ", c.n)
	if c.tx.State == nil {
		d += "<nil parent>"
	} else {
		d += fmt.Sprintf("%s v%d", chName(h.indexOf(c.tx.State.ID)), c.tx.State.Version)
	}
	d += " ["
	for i, ss := range c.subs {
		if i > 0 {
			d += " "
		}
		if ss.State == nil {
			d += "<empty>"
		} else {
			d += fmt.Sprintf("%s v%d", chName(h.indexOf(ss.State.ID)), ss.State.Version)
		}
	}
	return d + "]"
}

// inject pushes an event into the channel's subscription; false if there is
// no open subscription (the event is dropped, as for a de-registered channel).
func (h *harness) inject(k, kind int, ver uint64, obj channel.AdjudicatorEvent, self bool) bool {
	sub := h.a.sub(k)
	if sub == nil || sub.isClosed() {
		h.s.Count("probe.event_after_stop", 1)
		return false
	}
	r := &evRec{k: k, kind: kind, ver: ver, obj: obj, self: self, ep: sub.ep}
	h.mu.Lock()
	if h.frozen {
		h.mu.Unlock()
		return false
	}
	src := "inject"
	if self {
		src = "self-event"
	}
	r.tInj = h.tick(chName(k), "adj."+src, fmt.Sprintf("%s v%d", kindNames[kind], ver))
	h.evs = append(h.evs, r)
	h.evByObj[obj] = r
	ok := true
	select {
	case sub.events <- obj: // never blocks: the queue is far larger than any history
	default:
		ok = false
	}
	h.mu.Unlock()
	if !ok {
		panic("watcher engine: subscription queue overflow")
	}
	return true
}

// ---- driver actions -------------------------------------------------------------

func (h *harness) skip(i int, st *kernel.Step, why string) {
	h.mu.Lock()
	h.skipped++
	h.mu.Unlock()
	h.s.Count("probe.step_skipped", 1)
	h.s.Note("step %d (%s) skipped: %s", i, st.String(), why)
}

func recoverInto(p *string) {
	if r := recover(); r != nil {
		*p = fmt.Sprint(r)
	}
}

func (h *harness) do(i int, st *kernel.Step) {
	switch st.Op {
	case "startP":
		h.doStart(i, st, 0)
	case "startS":
		k := int(st.Int("i"))
		if k < 1 || k > maxSubs {
			h.skip(i, st, "no such sub-channel")
			return
		}
		h.doStart(i, st, k)
	case "pub":
		k := int(st.Int("ch"))
		if k < 0 || k >= nChans {
			h.skip(i, st, "no such channel")
			return
		}
		h.doPub(i, st, k)
	case "ev":
		k := int(st.Int("ch"))
		if k < 0 || k >= nChans {
			h.skip(i, st, "no such channel")
			return
		}
		h.doEvent(i, st, k)
	case "stop":
		k := int(st.Int("ch"))
		if k < 0 || k >= nChans {
			h.skip(i, st, "no such channel")
			return
		}
		h.doStop(i, st, k)
	default:
		h.skip(i, st, "unknown op")
	}
}

func (h *harness) doStart(i int, st *kernel.Step, k int) {
	h.mu.Lock()
	c, p := h.ch[k], h.ch[0]
	restart := c.started
	why := ""
	switch {
	case c.startInFlight:
		why = "a StartWatching of the channel is in flight"
	case restart && k == 0:
		why = "re-watching the ledger channel is not part of the workload"
	case restart && (c.watched || !c.stopped || c.stopInFlight > 0):
		why = "channel is watched (re-watching needs a successful StopWatching first)"
	case k > 0 && (!p.watched || p.stopInFlight > 0):
		why = "parent is not watched"
	}
	if why != "" {
		h.mu.Unlock()
		h.skip(i, st, why)
		return
	}
	// first start: the step's version; re-start: the sub-channel's next version
	v0 := c.next
	if !restart {
		v0 = uint64(st.Int("v"))
		if v0 > 1000 {
			v0 = 0
		}
	}
	c.started, c.startInFlight = true, true
	what := "start"
	if restart {
		what = "restart"
	}
	rec := &opRec{inv: h.tick(chName(k), what, fmt.Sprintf("v%d", v0))}
	ep := &epoch{n: len(c.eps), start: rec}
	c.eps = append(c.eps, ep)
	tx := mkTx(k, v0, nil)
	// the watcher may know the state from the invocation on and must know it
	// once StartWatching has returned (ret is set below)
	initPub := &pubRec{ver: v0, tx: tx, enc: gen.EncodeState(tx.State), inv: rec.inv}
	c.pubs = append(c.pubs, initPub)
	c.next = v0 + 1
	h.mu.Unlock()
	if restart {
		h.s.Count("probe.rewatch", 1)
	}
	h.s.Count("op.start", 1)

	var pub watcher.StatesPub
	var sub watcher.AdjudicatorSub
	var err error
	func() {
		defer recoverInto(&rec.panicked)
		ss := channel.SignedState{Params: staticParams[k], State: tx.State, Sigs: tx.Sigs}
		if k == 0 {
			pub, sub, err = h.w.StartWatchingLedgerChannel(context.Background(), ss)
		} else {
			pub, sub, err = h.w.StartWatchingSubChannel(context.Background(), staticIDs[0], ss)
		}
	}()
	h.a.mu.Lock()
	scriptedFailure := err != nil && h.a.subFailed[k]
	h.a.mu.Unlock()
	if scriptedFailure {
		// the chain subscription could not be set up: StartWatching fails and
		// the channel is exactly as watched (or not) as before - for a
		// sub-channel that was de-registered this includes its archived state
		h.mu.Lock()
		h.tick(chName(k), "start.ret", "error: scripted Subscribe failure")
		c.eps = c.eps[:len(c.eps)-1]
		c.pubs = c.pubs[:len(c.pubs)-1]
		c.next = v0
		if !restart {
			c.started = false
			c.next = 0
		}
		c.startInFlight = false
		h.snapshot()
		h.mu.Unlock()
		h.s.Count("fault.subscribe_failure", 1)
		return
	}
	h.mu.Lock()
	rec.ret = h.tick(chName(k), "start.ret", errText(err))
	rec.err = err
	initPub.ret = rec.ret
	c.startInFlight = false
	okStart := err == nil && rec.panicked == "" && pub != nil && sub != nil
	if okStart {
		c.watched, c.stopped = true, false
		c.pub = pub
	}
	h.snapshot()
	h.mu.Unlock()
	if rec.panicked != "" {
		h.s.Fail("C05.panic@StartWatching", "StartWatching(%s) panicked: %s", chName(k), rec.panicked)
	} else if err != nil {
		h.s.Fail("C05.start-failed", "StartWatching(%s) failed: %v", chName(k), err)
	}
	if okStart {
		go h.reader(k, ep, sub)
	}
}

// reader drains the client's event stream of one watching session of channel
// k (the pub-sub buffer holds 10 events; a full buffer would block the
// watcher's handler).
func (h *harness) reader(k int, ep *epoch, sub watcher.AdjudicatorSub) {
	for {
		// a lagging client (epilogue lagBurst) does not read for a while
		h.mu.Lock()
		gate := h.lagGate
		h.mu.Unlock()
		if gate != nil {
			<-gate
		}
		e, ok := <-sub.EventStream()
		if !ok {
			break
		}
		h.mu.Lock()
		if h.lagOn {
			h.lagSeen = append(h.lagSeen, e)
		}
		if !h.frozen {
			ep.relays = append(ep.relays, relayRec{obj: e, t: h.tick(chName(k), "relay", fmt.Sprintf("%T v%d", e, e.Version()))})
			h.snapshot()
		}
		h.mu.Unlock()
	}
	h.mu.Lock()
	if !h.frozen {
		ep.streamClosed = h.tick(chName(k), "stream-closed", "")
	}
	h.mu.Unlock()
}

func contains(l []int, x int) bool {
	for _, y := range l {
		if y == x {
			return true
		}
	}
	return false
}

func (h *harness) doPub(i int, st *kernel.Step, k int) {
	h.mu.Lock()
	c := h.ch[k]
	if !c.watched || c.stopInFlight > 0 {
		h.mu.Unlock()
		h.skip(i, st, "channel is not watched (or a stop request is in flight)")
		return
	}
	ver := c.next
	c.next++
	var locked []int
	if k == 0 {
		mask := st.Int("lock")
		var set []int
		for j := 1; j <= maxSubs; j++ {
			want := mask>>(j-1)&1 == 1
			sj := h.ch[j]
			switch {
			case sj.stopInFlight > 0:
				// a StopWatching(S_j) is in flight: whether S_j is archived depends on
				// whether it is locked in P's newest transaction, so that must not
				// change under the request
				want = contains(c.locked, j)
			case sj.watched:
			case sj.stopped && sj.archived:
				// de-registered while locked (also while a re-start is in flight:
				// stopped is cleared only when that StartWatching has returned)
			default:
				// never watched, first start in flight, or de-registered while not
				// locked: the statement says nothing about such a sub-channel being locked
				want = false
			}
			if want {
				set = append(set, j)
			}
		}
		if n := len(set); n > 1 {
			ord := int(st.Int("ord"))
			r := ord % n
			set = append(append([]int{}, set[r:]...), set[:r]...)
			if ord&4 != 0 {
				for a, b := 0, n-1; a < b; a, b = a+1, b-1 {
					set[a], set[b] = set[b], set[a]
				}
			}
		}
		locked = set
		c.locked = locked
	}
	tx := mkTx(k, ver, locked)
	rec := &pubRec{ver: ver, tx: tx, enc: gen.EncodeState(tx.State), inv: h.tick(chName(k), "publish", fmt.Sprintf("v%d locked=%v", ver, locked)), locked: locked}
	c.pubs = append(c.pubs, rec)
	c.pubInFlight++
	pub := c.pub
	h.mu.Unlock()
	h.s.Count("op.publish", 1)
	var pan string
	func() {
		defer recoverInto(&pan)
		_ = pub.Publish(context.Background(), tx)
	}()
	h.mu.Lock()
	rec.ret = h.tick(chName(k), "publish.ret", "")
	c.pubInFlight--
	h.snapshot()
	h.mu.Unlock()
	if pan != "" {
		h.s.Fail("C05.panic@Publish", "Publish(%s v%d) panicked although no stop request for the channel had been made: %s", chName(k), ver, pan)
	}
}

func (h *harness) doEvent(i int, st *kernel.Step, k int) {
	kind := int(st.Int("kind"))
	if kind < 0 || kind > 2 {
		h.skip(i, st, "unknown event kind")
		return
	}
	ver := uint64(st.Int("v"))
	if h.a.sub(k) == nil {
		h.skip(i, st, "channel has no subscription")
		return
	}
	id := staticIDs[k]
	var obj channel.AdjudicatorEvent
	switch kind {
	case kindRegistered:
		tx := mkTx(k, ver, nil)
		obj = channel.NewRegisteredEvent(id, &channel.ElapsedTimeout{}, ver, tx.State, tx.Sigs)
	case kindProgressed:
		obj = channel.NewProgressedEvent(id, &channel.ElapsedTimeout{}, mkTx(k, ver, nil).State, 0)
	case kindConcluded:
		obj = channel.NewConcludedEvent(id, &channel.ElapsedTimeout{}, ver)
	}
	h.s.Count("op.event."+kindNames[kind], 1)
	if !h.inject(k, kind, ver, obj, false) {
		h.skip(i, st, "subscription already closed (event for a de-registered channel)")
	}
}

func (h *harness) doStop(i int, st *kernel.Step, k int) {
	h.mu.Lock()
	c := h.ch[k]
	why := ""
	switch {
	case !c.watched:
		why = "channel is not watched"
	case c.stopInFlight > 0:
		why = "another stop request for the channel is in flight"
	case c.pubInFlight > 0 || h.ch[0].pubInFlight > 0:
		why = "a Publish is in flight"
	}
	if k == 0 && why == "" {
		for j := 1; j <= maxSubs; j++ {
			if h.ch[j].startInFlight {
				why = "a StartWatchingSubChannel is in flight"
			}
		}
	}
	if why != "" {
		h.mu.Unlock()
		h.skip(i, st, why)
		return
	}
	if k > 0 {
		c.archived = contains(h.ch[0].locked, k)
	}
	rec := &opRec{inv: h.tick(chName(k), "stop", ""), archived: c.archived}
	ep := c.cur()
	ep.stops = append(ep.stops, rec)
	c.stopInFlight++
	h.mu.Unlock()
	h.s.Count("op.stop", 1)

	var err error
	func() {
		defer recoverInto(&rec.panicked)
		err = h.w.StopWatching(context.Background(), staticIDs[k])
	}()
	h.mu.Lock()
	if rec.panicked != "" {
		rec.ret = h.tick(chName(k), "stop.panic", rec.panicked)
	} else {
		rec.ret = h.tick(chName(k), "stop.ret", errText(err))
	}
	rec.err = err
	c.stopInFlight--
	if err == nil && rec.panicked == "" {
		c.watched, c.stopped = false, true
	}
	h.snapshot()
	h.mu.Unlock()
	if rec.panicked != "" {
		h.s.Fail("C05.panic@StopWatching", "StopWatching(%s) panicked: %s", chName(k), rec.panicked)
	}
}

// errText keeps process-random channel IDs out of the trace.
func errText(err error) string {
	switch {
	case err == nil:
		return "nil"
	case local.IsErrSubChannelsPresent(err):
		return "refused: sub-channels present"
	}
	return "error: " + err.Error()
}

// snapshot records the abstract watcher state. Caller holds h.mu.
func (h *harness) snapshot() {
	if h.frozen {
		return
	}
	x := uint64(0xc05)
	for k, c := range h.ch {
		status := 0
		switch {
		case c.stopped:
			status = 3
		case c.watched && c.stopInFlight > 0:
			status = 2
		case c.watched:
			status = 1
		}
		var maxReg, relReg int64 = -1, -1
		for _, cl := range h.calls {
			if cl.end > 0 && cl.ok {
				if v, ok := cl.versionOf(k); ok && int64(v) > maxReg {
					maxReg = int64(v)
				}
			}
		}
		if ep := c.cur(); ep != nil {
			for _, r := range ep.relays {
				if _, ok := r.obj.(*channel.RegisteredEvent); ok {
					relReg = int64(r.obj.Version())
				}
			}
		}
		refused := 0
		for _, sr := range c.allStops() {
			if sr.ret > 0 && sr.err != nil {
				refused = 1
			}
		}
		lock := 0
		if contains(h.ch[0].locked, k) {
			lock = 1
		}
		arch := 0
		if c.archived {
			arch = 1
		}
		// versions enter relative to the newest one, so that the state space is
		// about the watcher's bookkeeping and not about how long the history is
		newest := int64(c.next) - 1
		x = kernel.Derive(x, k, status, int(clamp(newest, 0, 3)), int(clamp(newest-maxReg, -1, 3)), int(clamp(newest-relReg, -1, 3)), refused, lock, arch, int(clamp(int64(len(c.eps)), 0, 3)))
	}
	h.states = append(h.states, x)
}

func clamp(v, lo, hi int64) int64 {
	if v < lo {
		return lo
	}
	if v > hi {
		return hi
	}
	return v
}

// versionOf returns the version with which the call covers channel k.
func (c *callRec) versionOf(k int) (uint64, bool) {
	if k == 0 {
		if c.tx.State != nil && c.tx.State.ID == staticIDs[0] {
			return c.tx.State.Version, true
		}
		return 0, false
	}
	for _, ss := range c.subs {
		if ss.State != nil && ss.State.ID == staticIDs[k] {
			return ss.State.Version, true
		}
	}
	return 0, false
}

// locks reports whether the parent transaction of the call locks sub-channel k.
func (c *callRec) locks(k int) bool {
	if c.tx.State == nil {
		return false
	}
	_, ok := c.tx.State.SubAlloc(staticIDs[k])
	return ok
}

// ---- run ------------------------------------------------------------------------

var yieldSites = []string{"watcher.handleRegisteredEvent.locked", "watcher.handleRegisteredEvent.retrieved", "watcher.StopWatching.retrieved"}

func isStart(op string) bool { return op == "startP" || op == "startS" }

// runScenario executes one explicit scenario in a fresh bubble.
func runScenario(t *testing.T, sc *kernel.Scenario, trace bool) *kernel.Result {
	initStatic()
	var h *harness
	res := world.RunBubble(t, sc, trace, func(s *world.Sim) {
		h = &harness{s: s, sc: sc, evByObj: map[channel.AdjudicatorEvent]*evRec{}}
		h.salt = fmt.Sprintf("c%d:", sc.Cfg("salt", 0))
		h.selfEvents = sc.Cfg("self_events", 1) == 1
		h.regMax = time.Duration(sc.Cfg("reg_max_us", 200)) * time.Microsecond
		h.evMax = time.Duration(sc.Cfg("ev_max_us", 300)) * time.Microsecond
		for k := range h.ch {
			h.ch[k] = &chState{k: k}
		}
		h.a = &adjudicator{h: h, fail: map[int]bool{}}
		for i := range sc.Faults {
			f := &sc.Faults[i]
			if f.Op == "regfail" {
				h.a.fail[int(f.Int("n"))] = true
			}
			if f.Op == "subfail" {
				if h.a.failSub == nil {
					h.a.failSub = map[int]bool{}
				}
				h.a.failSub[int(f.Int("n"))] = true
			}
		}
		w, err := local.NewWatcher(h.a)
		if err != nil {
			panic(err)
		}
		h.w = w
		s.EnableYields(yieldSites, float64(sc.Cfg("yield_pct", 0))/100)
		world.InstallYields(s)
		defer world.RemoveYields()

		asyncMax := time.Duration(sc.Cfg("async_max_us", 30)) * time.Microsecond
		for i := range sc.Steps {
			st := &sc.Steps[i]
			gap := time.Duration(st.Int("gap_us"))*time.Microsecond + s.Delay(h.key(fmt.Sprintf("driver:gap:%d", i)), 0, time.Microsecond)
			time.Sleep(gap)
			if st.Int("async") == 1 && (!isStart(st.Op) || h.isRestart(st)) {
				d := s.Delay(h.key(fmt.Sprintf("driver:async:%d", i)), 0, asyncMax)
				h.wg.Add(1)
				go func() {
					defer h.wg.Done()
					time.Sleep(d)
					h.do(i, st)
				}()
			} else {
				h.do(i, st)
			}
		}
		h.wg.Wait()
		quiet := h.quiesce()
		if quiet {
			h.bg.Wait()
		}
		h.check()
		if !quiet {
			// reported only if no oracle explains it (first violation wins)
			s.Fail("C05.no-quiescence", "the watcher was still producing observable events 2 simulated seconds after the last action")
		}
		if sc.Cfg("lag_burst", 0) == 1 && !s.Failed() {
			h.lagBurst()
		}
		if sc.Cfg("churn", 0) == 1 && !s.Failed() {
			h.churn()
		}
		if sc.Cfg("race_start_stop", 0) == 1 && !s.Failed() {
			h.raceStartStop()
		}
		h.mu.Lock()
		h.completed = true
		h.mu.Unlock()
		h.cleanup()
	})
	if h != nil {
		h.mu.Lock()
		completed := h.completed
		h.mu.Unlock()
		if !completed && res.Violation == nil {
			// the bubble ended with a deadlock panic before the history was over:
			// every goroutine (driver included) was blocked for good
			res.Violation = &kernel.Violation{Check: "C05.deadlock", Detail: "all goroutines of the run were blocked for good before the history ended (a watcher call never returned)", Step: -1}
		}
		h.mu.Lock()
		res.States = h.states
		res.Evals = h.evals
		h.mu.Unlock()
		if res.Evals == 0 {
			res.Evals = 1
		}
	}
	return res
}

// lagBurst is an epilogue outside the modelled history: the client stops
// reading its event stream for a while (a real client's event loop waits for
// the channel's machine lock), and meanwhile the adjudicator reports more
// progressed events than the watcher buffers, then a concluded one. Progressed
// and concluded events are always relayed: once the client reads again it
// must get every one of them, in order.
func (h *harness) lagBurst() {
	h.mu.Lock()
	ok := h.ch[0].watched && h.ch[0].stopInFlight == 0
	sub := h.a.sub(0)
	base := h.ch[0].next + 100
	h.frozen = true
	var gate chan struct{}
	if ok && sub != nil && !sub.isClosed() {
		gate = make(chan struct{})
		h.lagGate, h.lagOn = gate, true
	}
	h.mu.Unlock()
	if gate == nil {
		h.s.Count("probe.lag_burst_not_applicable", 1)
		return
	}
	h.s.Count("fault.lagging_client_event_burst", 1)
	time.Sleep(time.Millisecond) // the readers reach the gate (one that was already waiting for an event takes one more)
	n := 13 + int(h.s.Delay(h.key("lag:n"), 0, 3*time.Microsecond)/time.Microsecond)
	var burst []channel.AdjudicatorEvent
	for i := 0; i <= n; i++ {
		v := base + uint64(i)
		var obj channel.AdjudicatorEvent = channel.NewProgressedEvent(staticIDs[0], &channel.ElapsedTimeout{}, mkTx(0, v, nil).State, 0)
		if i == n {
			obj = channel.NewConcludedEvent(staticIDs[0], &channel.ElapsedTimeout{}, v)
		}
		burst = append(burst, obj)
		select {
		case sub.events <- obj:
		default:
			panic("watcher engine: subscription queue overflow")
		}
		time.Sleep(h.s.Delay(h.key(fmt.Sprintf("lag:gap:%d", i)), 0, 20*time.Microsecond))
	}
	time.Sleep(20 * time.Millisecond) // the watcher has filled its buffer and waits
	h.mu.Lock()
	h.lagGate = nil
	h.mu.Unlock()
	close(gate)
	time.Sleep(100 * time.Millisecond)
	h.mu.Lock()
	var got []channel.AdjudicatorEvent
	for _, e := range h.lagSeen {
		for _, b := range burst {
			if e == b {
				got = append(got, e)
			}
		}
	}
	h.lagOn = false
	h.mu.Unlock()
	if len(got) != len(burst) {
		h.s.Fail("C05.relay-missing@lagging-client", "the adjudicator reported %d progressed events and a concluded event while the client was not reading; after it read again it got only %d of the %d events", n, len(got), len(burst))
		return
	}
	for i := range burst {
		if got[i] != burst[i] {
			h.s.Fail("C05.relay-order@lagging-client", "events reported while the client was not reading reached it in another order (position %d)", i)
			return
		}
	}
}

// churn is an epilogue outside the modelled history: a sub-channel that was
// never watched before is watched and de-registered again 70 times in a row
// (a long-lived watcher sees thousands of channels come and go). Every start
// and every stop must succeed: a de-registered channel can be watched again.
func (h *harness) churn() {
	h.mu.Lock()
	ok := h.ch[0].watched && h.ch[0].stopInFlight == 0
	sub := 0
	for k := 1; k <= maxSubs; k++ {
		c := h.ch[k]
		if c.startInFlight || c.stopInFlight > 0 {
			ok = false
		}
		if sub == 0 && !c.started {
			sub = k
		}
	}
	h.frozen = true
	h.mu.Unlock()
	if !ok || sub == 0 {
		h.s.Count("probe.churn_not_applicable", 1)
		return
	}
	h.s.Count("fault.watch_stop_churn", 1)
	tx := mkTx(sub, 0, nil)
	for round := 1; round <= 70; round++ {
		var err error
		var pan string
		func() {
			defer recoverInto(&pan)
			_, _, err = h.w.StartWatchingSubChannel(context.Background(), staticIDs[0], channel.SignedState{Params: staticParams[sub], State: tx.State, Sigs: tx.Sigs})
		}()
		if pan == "" && err != nil && strings.Contains(err.Error(), "Subscribe fails (fault plan)") {
			continue // the run's scripted Subscribe failure fell into this round
		}
		if pan != "" || err != nil {
			h.s.Fail("C05.rewatch-failed", "round %d of watching and de-registering %s again and again: StartWatchingSubChannel failed: %s%s", round, chName(sub), errText(err), pan)
			return
		}
		func() {
			defer recoverInto(&pan)
			err = h.w.StopWatching(context.Background(), staticIDs[sub])
		}()
		if pan != "" || err != nil {
			h.s.Fail("C05.restop-failed", "round %d of watching and de-registering %s again and again: StopWatching failed: %s%s", round, chName(sub), errText(err), pan)
			return
		}
	}
}

// raceStartStop is an epilogue outside the modelled history: with the ledger
// channel watched and no sub-channel watched, StopWatching(parent) races with
// StartWatchingSubChannel(parent, sub). The family lock serialises the two in
// either order - the stop wins and the start fails, or the start wins and the
// stop is refused (sub-channels present). Both succeeding would leave a
// sub-channel watched under a de-registered parent.
func (h *harness) raceStartStop() {
	h.mu.Lock()
	ok := h.ch[0].watched && h.ch[0].stopInFlight == 0
	sub := 0
	for k := 1; k <= maxSubs; k++ {
		c := h.ch[k]
		if c.watched || c.startInFlight || c.stopInFlight > 0 {
			ok = false
		}
		if sub == 0 && !c.started {
			sub = k
		}
	}
	h.frozen = true
	h.mu.Unlock()
	if !ok || sub == 0 {
		h.s.Count("probe.race_start_stop_not_applicable", 1)
		return
	}
	h.s.Count("fault.race_start_stop", 1)
	var startErr, stopErr error
	var pan string
	var wg sync.WaitGroup
	gap := h.s.Delay(h.key("race:gap"), 0, 60*time.Microsecond)
	first := h.s.Chance(h.key("race:first"), 0.5)
	tx := mkTx(sub, 0, nil)
	start := func() {
		defer wg.Done()
		defer recoverInto(&pan)
		_, _, startErr = h.w.StartWatchingSubChannel(context.Background(), staticIDs[0], channel.SignedState{Params: staticParams[sub], State: tx.State, Sigs: tx.Sigs})
	}
	stop := func() {
		defer wg.Done()
		defer recoverInto(&pan)
		stopErr = h.w.StopWatching(context.Background(), staticIDs[0])
	}
	a, b := start, stop
	if !first {
		a, b = stop, start
	}
	wg.Add(2)
	go a()
	time.Sleep(gap)
	go b()
	wg.Wait()
	h.s.Note("race: StartWatchingSubChannel -> %s, StopWatching(parent) -> %s", errText(startErr), errText(stopErr))
	switch {
	case pan != "":
		h.s.Fail("C05.panic@start-stop-race", "StartWatchingSubChannel racing with StopWatching(parent) panicked: %s", pan)
	case startErr == nil && stopErr == nil:
		h.s.Fail("C05.parent-stopped-while-sub-started", "StopWatching(parent) succeeded although a StartWatchingSubChannel that also succeeded was in flight: the sub-channel is watched under a de-registered parent")
	}
	h.mu.Lock()
	if startErr == nil {
		h.ch[sub].watched = true // for the cleanup
	}
	if stopErr == nil {
		h.ch[0].watched = false
	}
	h.mu.Unlock()
}

// quiesce waits until nothing harness-observable has happened for 50
// simulated milliseconds (the longest silent stretch inside the watcher is a
// handful of 1 ms waits for pending transactions).
func (h *harness) quiesce() bool {
	for round := 0; round < 40; round++ {
		h.mu.Lock()
		before := h.seq
		h.mu.Unlock()
		time.Sleep(50 * time.Millisecond)
		h.mu.Lock()
		same := h.seq == before
		h.mu.Unlock()
		if same {
			return true
		}
	}
	return false
}

// cleanup de-registers whatever is still watched so that the bubble can end
// without blocked goroutines. What happens here is not part of the history.
func (h *harness) cleanup() {
	h.mu.Lock()
	h.frozen = true
	h.mu.Unlock()
	for _, k := range []int{1, 2, 3, 0} {
		h.mu.Lock()
		w := h.ch[k].watched
		h.mu.Unlock()
		if !w {
			continue
		}
		func() {
			var p string
			defer recoverInto(&p)
			_ = h.w.StopWatching(context.Background(), staticIDs[k])
		}()
	}
	// a channel that could not be de-registered keeps its handlers; closing the
	// chain subscriptions at least ends the event handlers
	for k := 0; k < nChans; k++ {
		if sub := h.a.sub(k); sub != nil {
			sub.once.Do(func() { close(sub.closed) })
		}
	}
	time.Sleep(10 * time.Millisecond)
}

// curEpoch returns the watching session that is being started / running for
// channel k. Called from Subscribe (under the watcher's registry mutex): takes
// the harness lock only briefly.
func (h *harness) curEpoch(k int) *epoch {
	h.mu.Lock()
	defer h.mu.Unlock()
	return h.ch[k].cur()
}

// isRestart reports whether a startS step would re-watch a sub-channel that
// was watched before. First starts are always issued synchronously (the
// following steps need the channel); re-starts may race like any other action.
func (h *harness) isRestart(st *kernel.Step) bool {
	if st.Op != "startS" {
		return false
	}
	k := int(st.Int("i"))
	if k < 1 || k > maxSubs {
		return false
	}
	h.mu.Lock()
	defer h.mu.Unlock()
	return h.ch[k].started
}
