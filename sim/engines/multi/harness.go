package multi

import (
	"context"
	"errors"
	"fmt"
	"math/big"
	"runtime"
	"sort"
	"strconv"
	"strings"
	stdsync "sync"
	"sync/atomic"
	"testing"
	"time"

	"perun.network/go-perun/channel"
	pmulti "perun.network/go-perun/channel/multi"
	"perun.network/go-perun/wallet"

	"verif/sim/kernel"
	"verif/sim/world"
)

// ---- multi-ledger assets ------------------------------------------------------------

type ledgerKey struct {
	backend uint32
	id      string
}

func (k *ledgerKey) BackendID() uint32         { return k.backend }
func (k *ledgerKey) LedgerID() pmulti.LedgerID { return ledgerIDStr(k.id) }

type ledgerIDStr string

func (l ledgerIDStr) MapKey() pmulti.LedgerIDMapKey { return pmulti.LedgerIDMapKey(l) }

// asset is a multi.Asset on ledger l. Every asset carries its own ledgerKey
// value, so nothing can be de-duplicated by pointer identity.
type asset struct {
	key *ledgerKey
	n   int
}

func newAsset(l, n int) *asset {
	return &asset{key: &ledgerKey{backend: universe[l].backend, id: universe[l].id}, n: n}
}

func (a *asset) LedgerBackendID() pmulti.LedgerBackendID { return a.key }
func (a *asset) MarshalBinary() ([]byte, error)          { return []byte{byte(a.n)}, nil }
func (a *asset) UnmarshalBinary([]byte) error            { return nil }
func (a *asset) Address() []byte                         { return []byte{byte(a.n)} }
func (a *asset) Equal(b channel.Asset) bool {
	o, ok := b.(*asset)
	return ok && *o.key == *a.key && o.n == a.n
}

// ---- scripted ledgers -----------------------------------------------------------------

type callRec struct {
	step       int
	idx        int // participant index named in the forwarded request
	ledger     int
	method     string
	start, end int64
	failed     bool
	done       bool
}

type topRec struct {
	step       int
	idx        int  // participant index named in the request
	twinned    bool // a second request for the same channel and registered state (other participant index) runs concurrently
	method     string
	assets     []int
	distinct   []int
	ego        int
	start, end int64
	failed     bool
	err        string
	done       bool
}

// logRec is one seam event. Sub-calls of one dispatch start, and cancelled
// sub-calls end, at the same simulated instant on different Ps, so the live
// order of such events is the Go runtime's. The events are therefore collected
// and handed to the simulator's trace / interleaving hash at the end of the
// run in canonical order (simulated time, then actor, type, call).
type logRec struct {
	at     time.Duration
	actor  string
	typ    string
	step   int
	detail string
}

type harness struct {
	s      *world.Sim
	log    []logRec
	reg    int
	latMax time.Duration
	fault  map[[2]int]string

	mu       stdsync.Mutex // never held across a sleep
	seq      int64
	calls    []*callRec
	tops     []*topRec
	done     bool
	leak     string
	epilogue string // "check|detail" of a violation found by the subscription epilogue
}

func (h *harness) event(actor, typ string, step int, format string, a ...any) {
	r := logRec{at: h.s.Now(), actor: actor, typ: typ, step: step}
	if h.s.Trace {
		r.detail = fmt.Sprintf(format, a...)
	}
	h.mu.Lock()
	h.log = append(h.log, r)
	h.mu.Unlock()
	kernel.Progress()
}

// rank orders the events of one call at one instant the way they usually
// depend on each other; the global event numbers (#n) in the details tell the
// order in which they really happened.
func rank(typ string) int {
	switch {
	case strings.HasSuffix(typ, ".inv"):
		return 0
	case strings.HasSuffix(typ, ".end"):
		return 1
	case strings.HasSuffix(typ, ".start"):
		return 2
	}
	return 3
}

func (h *harness) flushEvents() {
	h.mu.Lock()
	log := h.log
	h.log = nil
	h.mu.Unlock()
	sort.SliceStable(log, func(i, j int) bool {
		a, b := log[i], log[j]
		switch {
		case a.at != b.at:
			return a.at < b.at
		case a.step != b.step:
			return a.step < b.step
		case rank(a.typ) != rank(b.typ):
			return rank(a.typ) < rank(b.typ)
		}
		return a.actor < b.actor
	})
	for _, r := range log {
		h.s.Event(r.actor, r.typ, fmt.Sprintf("at %.3fus step %d %s", float64(r.at)/1e3, r.step, r.detail))
	}
}

func (h *harness) stamp() int64 {
	h.mu.Lock()
	h.seq++
	n := h.seq
	h.mu.Unlock()
	return n
}

// scripted is the adjudicator and funder of one ledger.
type scripted struct {
	h *harness
	l int
	// epilogue (subscriptions and re-registration): generation of the object
	// registered for ledger l, and what reached this object in the epilogue
	gen  int
	epi  atomic.Bool
	mu   stdsync.Mutex
	nEpi map[string]int
	subs []*scriptedSub
}

// scriptedSub is a ledger's adjudicator subscription: events are handed out
// by Next as the harness emits them; Close ends it.
type scriptedSub struct {
	ev     chan channel.AdjudicatorEvent
	closed chan struct{}
	once   stdsync.Once
}

func (s *scriptedSub) Next() channel.AdjudicatorEvent {
	select {
	case e := <-s.ev:
		return e
	case <-s.closed:
		return nil
	}
}

func (s *scriptedSub) Err() error { <-s.closed; return nil }

func (s *scriptedSub) Close() error { s.once.Do(func() { close(s.closed) }); return nil }

func (x *scripted) epiCount(method string) {
	x.mu.Lock()
	if x.nEpi == nil {
		x.nEpi = map[string]int{}
	}
	x.nEpi[method]++
	x.mu.Unlock()
}

func (x *scripted) epiN(method string) int {
	x.mu.Lock()
	defer x.mu.Unlock()
	return x.nEpi[method]
}

var errScripted = errors.New("scripted sub-call failure")

func (x *scripted) call(ctx context.Context, method string, step int, idx channel.Index) error {
	h := x.h
	c := &callRec{step: step, idx: int(idx), ledger: x.l, method: method}
	h.mu.Lock()
	h.seq++
	c.start = h.seq
	h.calls = append(h.calls, c)
	h.mu.Unlock()
	h.event(fmt.Sprintf("L%d", x.l), method+".start", step, "#%d", c.start)
	lat := h.s.Delay(fmt.Sprintf("lat:%d:%d", step, x.l), 0, h.latMax)
	var err error
	kind := h.fault[[2]int{step, x.l}]
	switch kind {
	case "fail":
		time.Sleep(lat)
		err = errScripted
	case "stall":
		// honours the context, never finishes by itself
		<-ctx.Done()
		time.Sleep(lat)
		err = ctx.Err()
	case "slow":
		// ignores the context and succeeds after it has ended
		wait := 40 * time.Second
		if dl, ok := ctx.Deadline(); ok {
			wait = time.Until(dl)
		}
		if wait < 0 {
			wait = 0
		}
		time.Sleep(wait + lat)
	default:
		tm := time.NewTimer(lat)
		select {
		case <-tm.C:
		case <-ctx.Done():
			tm.Stop()
			err = ctx.Err()
		}
	}
	if kind != "" {
		h.s.Count("fault."+kind, 1)
	}
	h.mu.Lock()
	h.seq++
	c.end = h.seq
	c.failed = err != nil
	c.done = true
	h.mu.Unlock()
	h.event(fmt.Sprintf("L%d", x.l), method+".end", step, "#%d err=%v", c.end, err)
	return err
}

func (x *scripted) Register(ctx context.Context, req channel.AdjudicatorReq, _ []channel.SignedState) error {
	if x.epi.Load() {
		x.epiCount("register")
		return nil
	}
	return x.call(ctx, "register", int(req.Tx.Version), req.Idx)
}

func (x *scripted) Withdraw(ctx context.Context, req channel.AdjudicatorReq, _ channel.StateMap) error {
	return x.call(ctx, "withdraw", int(req.Tx.Version), req.Idx)
}

func (x *scripted) Progress(ctx context.Context, req channel.ProgressReq) error {
	return x.call(ctx, "progress", int(req.Tx.Version), req.Idx)
}

func (x *scripted) Subscribe(context.Context, channel.ID) (channel.AdjudicatorSubscription, error) {
	if !x.epi.Load() {
		return nil, errors.New("not scripted")
	}
	x.epiCount("subscribe")
	sub := &scriptedSub{ev: make(chan channel.AdjudicatorEvent, 1), closed: make(chan struct{})}
	x.mu.Lock()
	x.subs = append(x.subs, sub)
	x.mu.Unlock()
	return sub, nil
}

func (x *scripted) Fund(ctx context.Context, req channel.FundingReq) error {
	return x.call(ctx, "fund", int(req.State.Version), req.Idx)
}

// ---- execution ------------------------------------------------------------------------

func execC20(t *testing.T, sc *kernel.Scenario, trace bool) *kernel.Result {
	var h *harness
	res := world.RunBubble(t, sc, trace, func(s *world.Sim) {
		h = &harness{s: s, reg: int(sc.Cfg("reg", 0)), latMax: time.Duration(sc.Cfg("lat_us", 20)) * time.Microsecond, fault: map[[2]int]string{}}
		h.run()
	})
	if res.Evals == 0 {
		res.Evals = 1
	}
	if h == nil || !h.done {
		res.Fail(-1, "C20.deadlock", "the run did not finish: all goroutines of the bubble were blocked before the calls returned")
		return res
	}
	h.check(res)
	return res
}

func (h *harness) run() {
	s := h.s
	sc := s.Sc
	if h.latMax < 0 {
		h.latMax = 0
	}
	for i := range sc.Faults {
		f := &sc.Faults[i]
		switch f.Op {
		case "fail", "stall", "slow":
			h.fault[[2]int{int(f.Int("step")), int(f.Int("ledger"))}] = f.Op
		}
	}
	baseline := runtime.NumGoroutine()

	adj := pmulti.NewAdjudicator()
	ledgers := make([]*scripted, len(universe))
	for l := range universe {
		ledgers[l] = &scripted{h: h, l: l}
		if h.reg&(1<<l) != 0 {
			adj.RegisterAdjudicator(&ledgerKey{backend: universe[l].backend, id: universe[l].id}, ledgers[l])
		}
	}
	newFunder := func(ego int, egoFirst bool) *pmulti.Funder {
		f := pmulti.NewFunder()
		// (the egoistic ledger may be selected before or after the ledgers' funders are registered)
		if ego >= 0 && egoFirst {
			f.SetEgoisticPart(ego)
		}
		for l := range universe {
			if h.reg&(1<<l) != 0 {
				f.RegisterFunder(&ledgerKey{backend: universe[l].backend, id: universe[l].id}, ledgers[l])
			}
		}
		if ego >= 0 && !egoFirst {
			f.SetEgoisticPart(ego)
		}
		return f
	}

	var wg stdsync.WaitGroup
	seenID := map[int]bool{}
	n := 0
	for i := range sc.Steps {
		st := &sc.Steps[i]
		id := int(st.Int("id"))
		ok := false
		for _, m := range methods {
			ok = ok || m == st.Op
		}
		if !ok || seenID[id] || id < 0 || n >= maxSteps {
			continue // total on edited replay files: unknown operations and duplicate ids are skipped
		}
		seenID[id] = true
		n++
		top := &topRec{step: id, method: st.Op, assets: parseAssets(st.Str("assets")), ego: -1}
		for _, l := range top.assets {
			seen := false
			for _, d := range top.distinct {
				seen = seen || d == l
			}
			if !seen {
				top.distinct = append(top.distinct, l)
			}
		}
		if st.Op == "fund" && st.Has("ego") {
			top.ego = int(st.Int("ego"))
		}
		assets := make([]channel.Asset, len(top.assets))
		for j, l := range top.assets {
			assets[j] = newAsset(l, j)
		}
		dur := st.Int("dur")
		if dur < 1 || dur > 3600 {
			dur = 1
		}
		state := &channel.State{Version: uint64(id), Allocation: channel.Allocation{Assets: assets}}
		if st.Has("bal0") {
			// (older replay files carry no balances: the allocation then lists assets only)
			for j := range assets {
				v := st.Int("bal" + strconv.Itoa(j))
				state.Balances = append(state.Balances, []channel.Bal{big.NewInt(v / 16), big.NewInt(v % 16)})
				state.Backends = append(state.Backends, wallet.BackendID(0))
			}
		}
		reqIdx, reqSec := channel.Index(st.Int("idx")&1), st.Int("sec") == 1
		var subStates channel.StateMap
		if st.Int("subs") == 1 {
			subStates = channel.StateMap{channel.ID{9}: &channel.State{Version: 1}}
		}
		params := &channel.Params{ChallengeDuration: uint64(dur)}
		top.idx = int(reqIdx)
		twin := st.Int("twin") == 1 && top.method != "fund"
		var call func()
		mk := func(top *topRec, reqIdx channel.Index) func() {
			return func() {
				ctx, cancel := context.WithTimeout(context.Background(), 10*time.Second)
				defer cancel()
				if c := st.Int("cancel_us"); c > 0 {
					// fault: the caller cancels its own context while sub-calls are pending
					d := s.Delay(fmt.Sprintf("cancel:%d", id), 0, time.Duration(c)*time.Microsecond)
					go func() {
						time.Sleep(d)
						cancel()
					}()
					s.Count("fault.caller-cancels", 1)
				}
				h.mu.Lock()
				h.seq++
				top.start = h.seq
				h.tops = append(h.tops, top)
				h.mu.Unlock()
				h.event("drv", top.method+".inv", id, "#%d assets on ledgers %v ego=%d", top.start, top.assets, top.ego)
				var err error
				req := channel.AdjudicatorReq{Params: params, Tx: channel.Transaction{State: state}, Idx: reqIdx, Secondary: reqSec}
				switch top.method {
				case "register":
					err = adj.Register(ctx, req, nil)
				case "progress":
					err = adj.Progress(ctx, channel.ProgressReq{AdjudicatorReq: req, NewState: state})
				case "withdraw":
					err = adj.Withdraw(ctx, req, subStates)
				case "fund":
					err = newFunder(top.ego, st.Int("ego_first") == 1).Fund(ctx, channel.FundingReq{Params: params, State: state})
				}
				h.mu.Lock()
				h.seq++
				top.end = h.seq
				top.failed = err != nil
				if err != nil {
					top.err = err.Error()
				}
				top.done = true
				h.mu.Unlock()
				h.event("drv", top.method+".ret", id, "#%d err=%v", top.end, err)
			}
		}
		call = mk(top, reqIdx)
		if twin {
			// the other participant issues the same kind of request for the same
			// channel and registered state at (almost) the same time: both
			// requests are forwarded, each exactly once per ledger
			top.twinned = true
			t2 := *top
			t2.idx = 1 - top.idx
			twinCall := mk(&t2, channel.Index(t2.idx))
			d := s.Delay(fmt.Sprintf("twin:%d", id), 0, h.latMax)
			wg.Add(1)
			go func() { defer wg.Done(); time.Sleep(d); twinCall() }()
			s.Count("fault.concurrent-twin-request", 1)
		}
		if g := st.Int("gap_us"); g > 0 {
			time.Sleep(s.Delay(fmt.Sprintf("gap:%d", id), 0, time.Duration(g)*time.Microsecond))
		}
		if st.Int("async") == 1 {
			wg.Add(1)
			go func() { defer wg.Done(); call() }()
		} else {
			call()
		}
	}
	wg.Wait()
	// quiescence: every sub-call (also the ones still running when their call
	// returned early, and the ones that ignore their context) has ended
	quiesce := func(d time.Duration) {
		time.Sleep(d)
		if h.leak == "" && runtime.NumGoroutine() > baseline {
			buf := make([]byte, 1<<20)
			buf = buf[:runtime.Stack(buf, true)]
			for _, g := range strings.Split(string(buf), "\n\n") {
				if strings.Contains(g, "perun.network/go-perun/channel/multi.") {
					h.leak = g
					break
				}
			}
			s.Count("probe.goroutines_above_baseline_at_end", 1)
		}
	}
	quiesce(2 * time.Hour)
	if sc.Cfg("sub_phase", 0) == 1 && h.leak == "" {
		// (only now: a sub-call of the calls above that starts late must not be
		// mistaken for one of the epilogue)
		h.subscriptionEpilogue(adj, ledgers)
		quiesce(time.Hour)
	}
	h.flushEvents()
	h.mu.Lock()
	h.done = true
	h.mu.Unlock()
}

// subscriptionEpilogue runs after the calls of the run, on the same
// multi-ledger adjudicator: a subscription reaches every registered ledger's
// adjudicator exactly once and relays its events; after a ledger has been
// registered again with another adjudicator object, requests and a second
// subscription reach the new object and not the replaced one.
func (h *harness) subscriptionEpilogue(adj *pmulti.Adjudicator, ledgers []*scripted) {
	s := h.s
	var regd []int
	for l := range universe {
		if h.reg&(1<<l) != 0 {
			regd = append(regd, l)
			ledgers[l].epi.Store(true)
		}
	}
	if len(regd) == 0 {
		return
	}
	s.Count("op.subscribe", 1)
	fail := func(check, format string, a ...any) {
		if h.epilogue == "" {
			h.epilogue = check + "|" + fmt.Sprintf(format, a...)
		}
	}
	ctx, cancel := context.WithTimeout(context.Background(), 10*time.Second)
	defer cancel()
	// next takes one event from a multi-ledger subscription (nil: none within a second)
	next := func(sub channel.AdjudicatorSubscription) channel.AdjudicatorEvent {
		got := make(chan channel.AdjudicatorEvent, 1)
		go func() { got <- sub.Next() }()
		select {
		case e := <-got:
			return e
		case <-time.After(time.Second):
			return nil
		}
	}
	subscribeAll := func(round string, objs map[int]*scripted, stale []*scripted) channel.AdjudicatorSubscription {
		before := map[*scripted]int{}
		for _, x := range objs {
			before[x] = x.epiN("subscribe")
		}
		for _, x := range stale {
			before[x] = x.epiN("subscribe")
		}
		sub, err := adj.Subscribe(ctx, channel.ID{7})
		if err != nil || sub == nil {
			fail("C20.subscribe-failed", "%s: Subscribe on the multi-ledger adjudicator failed although every ledger's Subscribe succeeds: %v", round, err)
			return nil
		}
		for l, x := range objs {
			if n := x.epiN("subscribe") - before[x]; n != 1 {
				fail("C20.subscribe-ledger-count", "%s: the adjudicator registered for ledger %d got %d Subscribe calls from one multi-ledger Subscribe", round, l, n)
			}
		}
		for _, x := range stale {
			if n := x.epiN("subscribe") - before[x]; n != 0 {
				fail("C20.subscribe-reached-replaced-adjudicator", "%s: an adjudicator that had been replaced by a later registration for ledger %d got %d Subscribe calls", round, x.l, n)
			}
		}
		// every ledger's events come out of the multi-ledger subscription
		for l, x := range objs {
			x.mu.Lock()
			var ls *scriptedSub
			if len(x.subs) > 0 {
				ls = x.subs[len(x.subs)-1]
			}
			x.mu.Unlock()
			if ls == nil {
				continue
			}
			ev := channel.NewRegisteredEvent(channel.ID{7}, &channel.ElapsedTimeout{}, uint64(100+l), nil, nil)
			ls.ev <- ev
			if got := next(sub); got != ev {
				fail("C20.subscription-event-lost", "%s: an event emitted by the adjudicator registered for ledger %d did not come out of the multi-ledger subscription within a simulated second", round, l)
			}
		}
		return sub
	}
	cur := map[int]*scripted{}
	for _, l := range regd {
		cur[l] = ledgers[l]
	}
	sub1 := subscribeAll("first subscription", cur, nil)
	if sub1 == nil {
		return
	}
	// one ledger is registered again, with another adjudicator object
	l := regd[int(kernel.Derive(s.Sc.Seed, "reregistered-ledger")%uint64(len(regd)))]
	old := ledgers[l]
	repl := &scripted{h: h, l: l, gen: old.gen + 1}
	repl.epi.Store(true)
	adj.RegisterAdjudicator(&ledgerKey{backend: universe[l].backend, id: universe[l].id}, repl)
	ledgers[l], cur[l] = repl, repl
	s.Count("fault.ledger-registered-again", 1)
	state := &channel.State{Version: 1, Allocation: channel.Allocation{Assets: []channel.Asset{newAsset(l, 0)}}}
	req := channel.AdjudicatorReq{Params: &channel.Params{ChallengeDuration: 1}, Tx: channel.Transaction{State: state}}
	if err := adj.Register(ctx, req, nil); err != nil {
		fail("C20.fails-although-all-succeeded", "a register request after ledger %d was registered again failed: %v", l, err)
	}
	if n, o := repl.epiN("register"), old.epiN("register"); n != 1 || o != 0 {
		fail("C20.request-reached-replaced-adjudicator", "after ledger %d was registered again a register request reached the new adjudicator %d times and the replaced one %d times", l, n, o)
	}
	sub2 := subscribeAll("subscription after a ledger was registered again", cur, []*scripted{old})
	// (the user of a subscription closes it and collects its error, which is
	// what lets the subscription's own goroutines end)
	for _, sub := range []channel.AdjudicatorSubscription{sub1, sub2} {
		if sub == nil {
			continue
		}
		_ = sub.Close()
		errc := make(chan error, 1)
		go func() { errc <- sub.Err() }()
		select {
		case err := <-errc:
			if err != nil {
				fail("C20.subscription-error", "a closed multi-ledger subscription reports an error although no ledger subscription had one: %v", err)
			}
		case <-time.After(time.Second):
			fail("C20.subscription-err-blocks", "Err of a closed multi-ledger subscription did not return within a simulated second")
		}
	}
}

// ---- oracle -----------------------------------------------------------------------------

func (h *harness) check(res *kernel.Result) {
	if h.leak != "" {
		lines := strings.Split(h.leak, "\n")
		if len(lines) > 12 {
			lines = lines[:12]
		}
		res.Fail(-1, "C20.goroutine-leak", "two simulated hours after the last call a goroutine of channel/multi is still alive: %s", strings.Join(lines, " | "))
	}
	if h.epilogue != "" && res.Violation == nil {
		p := strings.SplitN(h.epilogue, "|", 2)
		res.Fail(-1, p[0], "%s", p[1])
	}
	sort.SliceStable(h.tops, func(i, j int) bool { return h.tops[i].step < h.tops[j].step })
	for _, top := range h.tops {
		h.checkCall(res, top)
	}
}

func (h *harness) checkCall(res *kernel.Result, top *topRec) {
	res.Evals++
	res.Count("op."+top.method, 1)
	what := fmt.Sprintf("%s (step %d) for assets on ledgers %v", top.method, top.step, top.assets)
	if !top.done {
		res.Fail(top.step, "C20.call-did-not-return", "%s never returned", what)
		return
	}
	byLedger := make([][]*callRec, len(universe))
	for _, c := range h.calls {
		if c.step != top.step || (top.twinned && c.idx != top.idx) {
			continue
		}
		if !c.done {
			res.Fail(top.step, "C20.subcall-did-not-return", "%s: the forwarded call on %s never returned", what, ledgerName(c.ledger))
			return
		}
		byLedger[c.ledger] = append(byLedger[c.ledger], c)
		if c.method != top.method {
			res.Fail(top.step, "C20.wrong-method", "%s was forwarded to %s as %s", what, ledgerName(c.ledger), c.method)
		}
	}
	inList := func(l int) bool {
		for _, d := range top.distinct {
			if d == l {
				return true
			}
		}
		return false
	}
	registered := func(l int) bool { return h.reg&(1<<l) != 0 }
	unknown := -1
	for _, l := range top.distinct {
		if !registered(l) && unknown < 0 {
			unknown = l
		}
	}
	for l := range universe {
		n := len(byLedger[l])
		switch {
		case n > 0 && !inList(l):
			res.Fail(top.step, "C20.foreign-ledger-called", "%s was forwarded to %s, which is not among the channel's ledgers %v", what, ledgerName(l), top.distinct)
		case n > 1:
			res.Fail(top.step, "C20.ledger-called-twice", "%s was forwarded %d times to %s", what, n, ledgerName(l))
		}
	}
	// egoistic part
	ego := -1
	if top.method == "fund" && top.ego >= 0 && top.ego < len(top.distinct) {
		ego = top.distinct[top.ego]
		res.Count("probe.egoistic_fund", 1)
	}
	othersOK := true // every other ledger is registered and its call returned nil
	var lastOtherEnd int64
	for _, l := range top.distinct {
		if l == ego {
			continue
		}
		if !registered(l) || len(byLedger[l]) == 0 || byLedger[l][0].failed {
			othersOK = false
		}
		for _, c := range byLedger[l] {
			if c.end > lastOtherEnd {
				lastOtherEnd = c.end
			}
		}
	}
	if ego >= 0 && len(byLedger[ego]) > 0 {
		e := byLedger[ego][0]
		for _, l := range top.distinct {
			if l == ego {
				continue
			}
			switch {
			case !registered(l):
				res.Fail(top.step, "C20.egoistic-order@other-missing", "%s with egoistic ledger %s: it was funded although %s has no funder", what, ledgerName(ego), ledgerName(l))
			case len(byLedger[l]) == 0:
				res.Fail(top.step, "C20.egoistic-order@other-not-funded", "%s with egoistic ledger %s: it was funded although %s was never funded", what, ledgerName(ego), ledgerName(l))
			case byLedger[l][0].end > e.start:
				res.Fail(top.step, "C20.egoistic-order", "%s with egoistic ledger %s: its Fund started (event %d) before the Fund on %s had returned (event %d)", what, ledgerName(ego), e.start, ledgerName(l), byLedger[l][0].end)
			case byLedger[l][0].failed:
				res.Fail(top.step, "C20.egoistic-order@other-failed", "%s with egoistic ledger %s: it was funded although the Fund on %s had failed", what, ledgerName(ego), ledgerName(l))
			}
		}
		if len(top.distinct) > 1 {
			res.Count("probe.egoistic_ledger_funded_last", 1)
		}
	}
	if ego >= 0 && len(byLedger[ego]) == 0 && !othersOK {
		res.Count("probe.egoistic_ledger_withheld", 1)
	}
	// exactly once, when every ledger of the channel is registered
	if unknown < 0 {
		for _, l := range top.distinct {
			must := l != ego || othersOK
			if must && len(byLedger[l]) == 0 {
				res.Fail(top.step, "C20.ledger-not-called", "%s was never forwarded to %s", what, ledgerName(l))
			}
		}
	}
	// result
	anyFailed := false
	for _, l := range top.distinct {
		for _, c := range byLedger[l] {
			anyFailed = anyFailed || c.failed
		}
	}
	if !top.failed {
		if unknown >= 0 {
			res.Fail(top.step, "C20.success-despite-missing-ledger", "%s returned nil although %s has no registered adjudicator/funder", what, ledgerName(unknown))
		}
		for _, l := range top.distinct {
			for _, c := range byLedger[l] {
				switch {
				case c.failed:
					res.Fail(top.step, "C20.success-despite-failure", "%s returned nil although the forwarded call on %s failed", what, ledgerName(l))
				case c.end > top.end:
					res.Fail(top.step, "C20.success-before-completion", "%s returned nil (event %d) before the forwarded call on %s had returned (event %d)", what, top.end, ledgerName(l), c.end)
				}
			}
			if len(byLedger[l]) == 0 && unknown < 0 {
				res.Fail(top.step, "C20.ledger-not-called", "%s returned nil but was never forwarded to %s", what, ledgerName(l))
			}
		}
		res.Count("probe.call_succeeded", 1)
	} else {
		res.Count("probe.call_failed", 1)
		if unknown >= 0 {
			res.Count("probe.call_failed_missing_ledger", 1)
		}
		if !anyFailed && unknown < 0 {
			// not demanded by the statement ("succeeds only if ..."): counted only
			res.Count("probe.failure_without_failed_subcall", 1)
		}
	}
	repeated := len(top.assets) > len(top.distinct)
	if repeated {
		res.Count("probe.asset_list_repeats_ledger", 1)
	}
	faulted := false
	for _, l := range top.distinct {
		if h.fault[[2]int{top.step, l}] != "" {
			faulted = true
		}
	}
	if len(top.distinct) >= 2 && (repeated || faulted || unknown >= 0 || ego >= 0) {
		res.NonTrivial = true
	}
	fm := 0
	for _, l := range top.distinct {
		switch h.fault[[2]int{top.step, l}] {
		case "fail":
			fm |= 1
		case "stall":
			fm |= 2
		case "slow":
			fm |= 4
		}
	}
	b2i := func(b bool) int {
		if b {
			return 1
		}
		return 0
	}
	res.States = append(res.States, kernel.Derive(1, top.method, len(top.distinct), len(top.assets), fm, top.ego, b2i(top.failed), b2i(unknown >= 0)))
}
