package multi

import (
	"testing"

	"verif/sim/kernel"
)

func TestWorker(t *testing.T) { kernel.RunWorker(t, Engine{}) }
