// Package multi is the simulation engine of property C20: the real
// channel/multi Adjudicator and Funder dispatch over scripted per-ledger
// adjudicators / funders inside a synctest bubble; the oracle reads the call
// logs.
package multi

import (
	"fmt"
	"strconv"
	"strings"
	"testing"

	"verif/sim/kernel"
)

// Engine implements kernel.Engine for C20.
type Engine struct{}

func (Engine) Name() string { return "multi" }

// universe of ledgers: (backend id, ledger id). Several share one coordinate,
// so de-duplication or lookup keyed on only one field is visible.
var universe = []struct {
	backend uint32
	id      string
}{{0, "a"}, {0, "b"}, {1, "a"}, {1, "b"}, {2, "a"}, {2, "c"},
	// raw-byte ids that differ from another ledger's only by a leading or
	// trailing byte which text handling would treat as white space
	{0, "a\n"}, {2, " c"}}

const (
	maxAssets = 6
	maxSteps  = 6
)

var methods = []string{"register", "progress", "withdraw", "fund"}

func (Engine) Plan(prop, tier string) kernel.Plan {
	runs := map[string]int{"C20/quick": 5000, "C20/thorough": 1000000}[prop+"/"+tier]
	// Pin=false: the dispatcher's goroutines run truly parallel (race-mode pass)
	return kernel.Plan{Runs: runs, Pin: false, CrashProne: true}
}

func (Engine) Generate(prop, tier string, run int, seed uint64) *kernel.Scenario {
	if prop != "C20" {
		return nil
	}
	sc := genC20(kernel.NewRand(seed))
	if kernel.NewRand(kernel.Derive(seed, "subscription-epilogue")).Bool(0.5) {
		// after the calls: subscriptions, and a ledger registered again
		sc.Config["sub_phase"] = 1
	}
	return sc
}

func (Engine) Execute(t *testing.T, sc *kernel.Scenario, trace bool) *kernel.Result {
	if sc.Property != "C20" {
		return &kernel.Result{}
	}
	return execC20(t, sc, trace)
}

func genC20(r *kernel.Rand) *kernel.Scenario {
	sc := &kernel.Scenario{Config: map[string]int64{}}
	c := sc.Config
	nl := 1 + r.Weighted([]int{2, 4, 3, 2})
	perm := r.Perm(len(universe))
	used := perm[:nl]
	usedMask, reg := 0, 0
	for _, l := range used {
		usedMask |= 1 << l
	}
	reg = usedMask
	for _, l := range perm[nl:] {
		if r.Bool(0.4) {
			reg |= 1 << l // registered but foreign to the channel
		}
	}
	if r.Bool(0.3) {
		reg &^= 1 << used[r.Intn(nl)] // a ledger of the channel without adjudicator / funder
	}
	c["used"], c["reg"] = int64(usedMask), int64(reg)
	c["lat_us"] = int64([]int{20, 200, 5000}[r.Intn(3)])
	nsteps := 1 + r.Weighted([]int{4, 3, 2, 1})
	faultP := []float64{0, 0.15, 0.4}[r.Intn(3)]
	for i := 0; i < nsteps; i++ {
		op := methods[r.Intn(len(methods))]
		if r.Bool(0.3) {
			op = "fund" // the egoistic ordering only exists there
		}
		n := r.Range(1, maxAssets)
		as := make([]string, n)
		distinct := []int{}
		for j := range as {
			l := used[r.Intn(nl)]
			as[j] = strconv.Itoa(l)
			seen := false
			for _, d := range distinct {
				seen = seen || d == l
			}
			if !seen {
				distinct = append(distinct, l)
			}
		}
		st := kernel.St(op, "id", i, "assets", strings.Join(as, ","), "ego", -1, "dur", []int{1, 2, 30}[r.Intn(3)],
			"async", r.Bool(0.3), "gap_us", []int{0, 10, 1000}[r.Intn(3)])
		// the request's own content: who asks (idx), as secondary or not, with or
		// without sub-channel states, and the balances per asset (zeros are
		// common: a swap leaves each party empty on one ledger). bal<j> packs the
		// two participants' balances of asset j.
		st.A["sec"], st.A["idx"], st.A["subs"] = int64(r.Intn(2)), int64(r.Intn(2)), int64(r.Weighted([]int{3, 1}))
		st.A["cancel_us"] = int64([]int{0, 0, 0, 0, 10, 150, 3000}[r.Intn(7)]) // >0: the caller cancels within that time
		for j := 0; j < n; j++ {
			st.A["bal"+strconv.Itoa(j)] = int64([]int{0, 0, 5, 9}[r.Intn(4)]*16 + []int{0, 0, 5, 9}[r.Intn(4)])
		}
		if op != "fund" && kernel.NewRand(kernel.Derive(uint64(i), "twin", int64(st.A["bal0"]), int64(st.A["idx"]), int64(n))).Bool(0.15) {
			st.A["twin"] = 1
		}
		if op == "fund" && r.Bool(0.6) {
			// index into the distinct ledgers in first-occurrence order; sometimes past the end
			st.A["ego"] = int64(r.Intn(len(distinct) + 1))
			st.A["ego_first"] = int64(kernel.Derive(uint64(i), "ego-first", int64(st.A["ego"]), int64(n)) % 2)
		}
		sc.Steps = append(sc.Steps, st)
		for _, l := range distinct {
			if r.Bool(faultP) {
				kind := []string{"fail", "fail", "stall", "slow"}[r.Intn(4)]
				sc.Faults = append(sc.Faults, kernel.St(kind, "step", i, "ledger", l))
			}
		}
	}
	return sc
}

func (Engine) Describe(prop string) kernel.Describe {
	return kernel.Describe{
		Rule: "one synctest bubble per run; 1-4 calls (Register, Progress, Withdraw on one real multi.Adjudicator; Fund on a fresh real multi.Funder, with or without SetEgoisticPart(i), i also past the end) for asset lists of 1-6 multi-ledger assets over 1-4 of six ledgers whose (backend id, ledger id) pairs share single coordinates, repeated in any order; registered ledgers = the channel's ledgers plus foreign ones, in 30% of the runs minus one of the channel's; calls sequential or overlapping. " +
			"Every ledger has a scripted adjudicator and funder that log (call, method, start and end global event number, result) and succeed, fail, stall until the context ends, or ignore the context and return late, after a keyed latency. " +
			"Oracle per call, from the logs after quiescence: no ledger outside the asset list is called; none twice; only the called method; if every ledger of the list is registered, each is called exactly once (the egoistic one exactly once iff all others returned nil, otherwise never); nil result => every ledger registered, every forwarded call had returned nil before the call returned; unregistered ledger => non-nil result; egoistic: the selected ledger's Fund starts after every other ledger's Fund has returned nil; no goroutine with a channel/multi frame is left after quiescence. " +
			"The coordinator reruns 1/8 of the runs with a -race build. Non-trivial: a call over at least 2 distinct ledgers with a repeated ledger, a fault, an unregistered ledger or an egoistic part; distinct = scenario digest x interleaving hash.",
		Assumptions: []string{
			"the selected (egoistic) ledger is the i-th distinct ledger of the asset list in first-occurrence order, as multi.Funder.Fund implements it; an index past the end selects none",
			"when a ledger of the channel has no registered adjudicator / funder the call must fail; whether the other ledgers were called before is not constrained (at most once each)",
			"a failing call that had no failing or missing sub-call is only counted (probe.failure_without_failed_subcall): the statement says 'succeeds only if', not 'if and only if'",
			"challenge durations are 1-30 s (Fund's context); asset lists contain only multi.Asset values",
		},
		Real: []string{"channel/multi.Adjudicator (Register, Progress, Withdraw, dispatch)", "channel/multi.Funder (Fund, SetEgoisticPart, fundLedgers)", "channel/multi assets.LedgerIDs", "channel.AdjudicatorReq / ProgressReq / FundingReq / State / Params values"},
		Stub: []string{"channel.Adjudicator / channel.Funder of each ledger -> scripted recorders with keyed latency (their subscriptions hand out events the harness emits)", "multi.Asset / LedgerBackendID -> (backend id, ledger id) pairs, a fresh value per asset",
			"time and contexts -> testing/synctest fake clock"},
		FaultKinds: []string{"fail (sub-call returns an error)", "stall (sub-call blocks until its context ends)", "slow (sub-call ignores the context and returns nil after the funding timeout)",
			"unregistered ledger", "foreign registered ledgers", "keyed latencies (every completion order)", "overlapping calls", "caller cancels", "concurrent twin request",
			"epilogue: multi-ledger subscriptions and a ledger registered again with another adjudicator object"},
	}
}

func parseAssets(s string) []int {
	var out []int
	for _, f := range strings.Split(s, ",") {
		n, err := strconv.Atoi(strings.TrimSpace(f))
		if err != nil || n < 0 || n >= len(universe) || len(out) >= 2*maxAssets {
			continue
		}
		out = append(out, n)
	}
	return out
}

func ledgerName(l int) string {
	return fmt.Sprintf("L%d(%d,%s)", l, universe[l].backend, universe[l].id)
}
