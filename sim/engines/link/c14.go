package link

import (
	"bytes"
	"fmt"
	"io"
	"sync"
	"testing"
	"testing/synctest"
	"time"

	"perun.network/go-perun/channel"
	"perun.network/go-perun/wire"

	"verif/sim/gen"
	"verif/sim/kernel"
)

// C14: k values back to back on one stream, no faults.

func genC14(r *kernel.Rand, sc *kernel.Scenario, run int) {
	k := 1 + r.Weighted([]int{2, 3, 3, 3, 2, 2, 2, 2, 1, 1, 1, 1, 1, 1, 1, 1, 1, 1, 1, 1})
	if r.Bool(0.2) {
		// the envelopes of the run are also sent by 2-3 senders at the same time,
		// each on its own connection whose writes take (simulated) time
		sc.Config["senders"] = int64(r.Range(2, 3))
		if k < 4 {
			k += 3
		}
	}
	if r.Bool(0.012) {
		// a balance matrix with each dimension inside its documented limit (1024)
		// and 65536 entries or more
		d := [][2]int{{256, 256}, {64, 1024}, {1024, 65}, {300, 300}, {255, 257}}[r.Intn(5)]
		sh := gen.ValShape{Parts: d[1], Assets: d[0]}
		args := append([]any{"kind", "Balances", "type", 0, "seed", int64(r.Uint64() >> 2)}, sh.ShapeArgs()...)
		sc.Steps = append(sc.Steps, kernel.St("val", args...))
	}
	for i := 0; i < k; i++ {
		if r.Bool(0.6) {
			// the first value of run r has type r mod 17, so every batch covers all types
			t := gen.MsgTypes[r.Intn(len(gen.MsgTypes))]
			if i == 0 {
				t = gen.MsgTypes[run%len(gen.MsgTypes)]
			}
			sc.Steps = append(sc.Steps, valStep(r, "Env", t, r.Bool(0.1)))
		} else {
			sc.Steps = append(sc.Steps, valStep(r, kinds[1+r.Intn(len(kinds)-1)].name, 0, r.Bool(0.1)))
		}
	}
	if r.Bool(0.4) {
		// the stream reaches the decoders in pieces (a slow link): never more
		// than this many bytes per Read
		sc.Config["chunk"] = int64([]int{1, 1, 2, 3, 7, 64}[r.Intn(6)])
	}
}

// checkDecoded applies the per-value oracles shared by both serializers.
// It returns the check name and detail of the first failure.
func checkDecoded(v *value, got any, via string) (check, detail string) {
	if d := gen.FirstDiff(gen.Flatten(v.v), gen.Flatten(got)); d != nil {
		kind := "changed-field"
		if d.Lost {
			kind = "lost-field"
		}
		return fmt.Sprintf("C14.%s@%s/%s", kind, via, d.Path),
			fmt.Sprintf("%s: %s was %s when sent and is %s after decoding", v.label, d.FullPath, d.Sent, d.Got)
	}
	if v.meta.Params != nil {
		o := guarded(func() (any, error) { return v.meta.Params(got).ID(), nil })
		if o.paniced || o.v.(channel.ID) != v.meta.ParamsID {
			return "C14.id-changed@" + via + "/Params.ID", fmt.Sprintf("%s: Params.ID() was %x, is %x", v.label, v.meta.ParamsID, o.v)
		}
	}
	if v.meta.State != nil {
		st := v.meta.State(got)
		if st == nil || st.ID != v.meta.StateID {
			return "C14.id-changed@" + via + "/State.ID", fmt.Sprintf("%s: State.ID was %x", v.label, v.meta.StateID)
		}
	}
	for _, sg := range v.meta.Signed {
		st, sig := sg.State(got), sg.Sig(got)
		o := guarded(func() (any, error) {
			ok, err := channel.Verify(sg.Signer[channel.TestBackendID], st, sig)
			return ok, err
		})
		if o.paniced || o.err != nil || !o.v.(bool) {
			return "C14.sig-invalid@" + via + "/" + stripIndex(sg.What),
				fmt.Sprintf("%s: signature %s no longer verifies on the decoded state (err=%v panic=%v)", v.label, sg.What, o.err, o.pval)
		}
	}
	return "", ""
}

func stripIndex(s string) string {
	for i := 0; i < len(s); i++ {
		if s[i] == '[' {
			return s[:i]
		}
	}
	return s
}

func (e Engine) execC14(t *testing.T, sc *kernel.Scenario, res *kernel.Result, trace bool) {
	logf := func(format string, a ...any) {
		if trace {
			res.Trace = append(res.Trace, fmt.Sprintf(format, a...))
		}
	}
	var vals []*value
	var stepOf []int
	for i := range sc.Steps {
		if sc.Steps[i].Op != "val" {
			continue
		}
		v, err := buildValue(&sc.Steps[i])
		if err != nil {
			res.Fail(i, "C14.encode-error@native/"+v.label, "well-formed value %d could not be encoded: %v", i, err)
			return
		}
		vals = append(vals, v)
		stepOf = append(stepOf, i)
		res.Count("op."+v.label, 1)
		if v.cross {
			res.Count("probe.cross-ledger-allocation", 1)
		}
	}
	if len(vals) == 0 {
		return
	}

	// ---- native stream: all values back to back
	var stream []byte
	ends := make([]int, len(vals))
	for i, v := range vals {
		stream = append(stream, v.native...)
		ends[i] = len(stream)
	}
	l := Preload(stream, nil)
	l.B.SetSchedule(Schedule{Every: int(sc.Config["chunk"])})
	if sc.Config["chunk"] > 0 {
		res.Count("fault.stream-delivered-in-pieces", 1)
	}
	nativeDecoded := make([]any, len(vals))
	for i, v := range vals {
		start := prevEnd(ends, i)
		o := guarded(func() (any, error) { return v.kind.dec(l.B) })
		res.Evals++
		switch {
		case o.paniced:
			res.Fail(stepOf[i], "C14.panic@"+o.site, "decoding value %d (%s): %v", i, v.label, o.pval)
		case o.err != nil:
			res.Fail(stepOf[i], "C14.decode-error@native/"+v.label, "value %d (%s, stream bytes %d..%d): %v", i, v.label, start, ends[i], o.err)
		case l.B.Pos() != ends[i]:
			res.Fail(stepOf[i], "C14.consumed@native/"+v.label, "value %d (%s) occupies stream bytes %d..%d, the decoder stopped at %d (%+d)",
				i, v.label, start, ends[i], l.B.Pos(), l.B.Pos()-ends[i])
		}
		if res.Violation == nil {
			if c, d := checkDecoded(v, o.v, "native"); c != "" {
				res.Fail(stepOf[i], c, "%s", d)
			}
		}
		if res.Violation == nil {
			re := guarded(func() (any, error) { return encodeNative(v.kind, o.v) })
			if re.paniced || re.err != nil || !bytes.Equal(re.v.([]byte), stream[start:ends[i]]) {
				res.Fail(stepOf[i], "C14.unstable-encoding@"+v.label, "value %d (%s): encoding the decoded value does not reproduce the %d bytes it was decoded from (err=%v panic=%v)",
					i, v.label, ends[i]-start, re.err, re.pval)
			}
		}
		if res.Violation != nil {
			logf("VIOLATION %s: %s", res.Violation.Check, res.Violation.Detail)
			return
		}
		nativeDecoded[i] = o.v
		res.Count("probe.signatures-verified-after-decoding", int64(len(v.meta.Signed)))
		if v.meta.Params != nil {
			res.Count("probe.params-id-recomputed-equal", 1)
		}
		logf("native: value %d %s, bytes %d..%d: equal, exact consumption, stable re-encoding, %d signatures verify", i, v.label, start, ends[i], len(v.meta.Signed))
	}
	// nothing may be left and nothing more may be readable
	if _, err := l.B.Read(make([]byte, 1)); err != ErrStarved && err != io.EOF {
		res.Fail(len(sc.Steps), "C14.consumed@native/stream", "bytes left on the stream after the last value")
		return
	}

	// ---- protobuf stream: the envelopes among the values, frame after frame
	var pstream []byte
	var pends, pidx []int
	for i, v := range vals {
		if !v.kind.env {
			continue
		}
		frame, _, err := encodeProto(v.v.(*wire.Envelope))
		if err != nil {
			res.Fail(stepOf[i], "C14.encode-error@protobuf/"+v.label, "well-formed envelope %d could not be encoded: %v", i, err)
			logf("VIOLATION %s: %s", res.Violation.Check, res.Violation.Detail)
			return
		}
		pstream = append(pstream, frame...)
		pends = append(pends, len(pstream))
		pidx = append(pidx, i)
	}
	pl := Preload(pstream, nil)
	pl.B.SetSchedule(Schedule{Every: int(sc.Config["chunk"])})
	for k, i := range pidx {
		v := vals[i]
		start := prevEnd(pends, k)
		o := guarded(func() (any, error) { return serializers[serProto].Decode(pl.B) })
		res.Evals++
		switch {
		case o.paniced:
			res.Fail(stepOf[i], "C14.panic@"+o.site, "decoding envelope %d (%s) with protobuf: %v", i, v.label, o.pval)
		case o.err != nil:
			res.Fail(stepOf[i], "C14.decode-error@protobuf/"+v.label, "envelope %d (%s, stream bytes %d..%d): %v", i, v.label, start, pends[k], o.err)
		case pl.B.Pos() != pends[k]:
			res.Fail(stepOf[i], "C14.consumed@protobuf/"+v.label, "envelope %d (%s) occupies stream bytes %d..%d, the decoder stopped at %d (%+d)",
				i, v.label, start, pends[k], pl.B.Pos(), pl.B.Pos()-pends[k])
		}
		if res.Violation == nil {
			if c, d := checkDecoded(v, o.v, "protobuf"); c != "" {
				res.Fail(stepOf[i], c, "%s", d)
			}
		}
		if res.Violation == nil {
			// agreement of the two serializers on the decoded envelope
			re := guarded(func() (any, error) { return encodeNative(v.kind, o.v) })
			if re.paniced || re.err != nil || !bytes.Equal(re.v.([]byte), v.native) {
				res.Fail(stepOf[i], "C14.serializer-disagree@"+v.label, "envelope %d (%s): the envelope decoded by protobuf does not encode to the bytes of the one decoded by the native serializer (err=%v panic=%v)",
					i, v.label, re.err, re.pval)
			}
		}
		if res.Violation != nil {
			logf("VIOLATION %s: %s", res.Violation.Check, res.Violation.Detail)
			return
		}
		logf("protobuf: envelope %d %s, bytes %d..%d: equal to sent, exact consumption, agrees with native", i, v.label, start, pends[k])
	}
	res.NonTrivial = len(vals) >= 2
	if n := int(sc.Cfg("senders", 0)); n >= 2 && res.Violation == nil {
		e.execC14senders(t, sc, res, vals, stepOf, n, logf)
	}
}

// slowWriter is a connection whose every write takes a keyed amount of
// simulated time, so that concurrent senders interleave between (and inside)
// envelopes.
type slowWriter struct {
	w    io.Writer
	seed uint64
	id   int
	n    int
}

func (s *slowWriter) Write(p []byte) (int, error) {
	s.n++
	time.Sleep(time.Duration(1+kernel.Derive(s.seed, "slow-write", s.id, s.n)%40) * time.Microsecond)
	return s.w.Write(p)
}

// execC14senders: several goroutines encode envelopes at the same time, each
// to its own link; every link must then carry exactly what its sender sent.
// Encoding is a function of the envelope alone: concurrent senders must not
// influence each other (shared scratch buffers, pools, caches).
func (e Engine) execC14senders(t *testing.T, sc *kernel.Scenario, res *kernel.Result, vals []*value, stepOf []int, n int, logf func(string, ...any)) {
	var envs []int
	for i, v := range vals {
		if v.kind.env {
			envs = append(envs, i)
		}
	}
	if len(envs) < 2 {
		return
	}
	for ser := range serializers {
		links := make([]*Link, n)
		sent := make([][]int, n)
		synctest.Test(t, func(t *testing.T) {
			var wg sync.WaitGroup
			for s := 0; s < n; s++ {
				links[s] = NewLink()
				for k, i := range envs {
					if k%n == s {
						sent[s] = append(sent[s], i)
					}
				}
				s := s
				wg.Add(1)
				go func() {
					defer wg.Done()
					w := &slowWriter{w: links[s].A, seed: sc.Seed, id: ser*16 + s}
					for _, i := range sent[s] {
						if err := serializers[ser].Encode(w, vals[i].v.(*wire.Envelope)); err != nil {
							return
						}
					}
				}()
			}
			wg.Wait()
		})
		res.Count("fault.concurrent-senders", int64(n))
		for s := 0; s < n; s++ {
			data, writes := links[s].A.Sent()
			l := Preload(data, writes)
			for k, i := range sent[s] {
				v := vals[i]
				o := guarded(func() (any, error) { return serializers[ser].Decode(l.B) })
				res.Evals++
				if o.paniced || o.err != nil {
					res.Fail(stepOf[i], "C14.concurrent-senders@"+serNames[ser]+"/decode-error", "%d senders: envelope %d of sender %d (%s) cannot be decoded from its own connection: %v %v", n, k, s, v.label, o.err, o.pval)
					return
				}
				re := guarded(func() (any, error) { return encodeNative(v.kind, o.v) })
				if re.paniced || re.err != nil || !bytes.Equal(re.v.([]byte), v.native) {
					res.Fail(stepOf[i], "C14.concurrent-senders@"+serNames[ser]+"/changed", "%d senders: envelope %d of sender %d (%s) arrives as a different envelope on its own connection", n, k, s, v.label)
					return
				}
			}
		}
		logf("%s: %d concurrent senders, %d envelopes: every connection carries what its sender sent", serNames[ser], n, len(envs))
	}
}
