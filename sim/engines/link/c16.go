package link

import (
	"bytes"
	"errors"
	"fmt"
	"io"
	"math/big"
	"os"
	"sort"
	"strings"

	"perun.network/go-perun/channel"
	"perun.network/go-perun/client"
	"perun.network/go-perun/wallet"
	"perun.network/go-perun/wire"
	wirenet "perun.network/go-perun/wire/net"

	"verif/sim/gen"
	"verif/sim/kernel"
)

// C16: the fault is the delivery schedule of an open stream.

const (
	segSize      = 1460 // TCP MSS on Ethernet
	enumMaxBytes = 1024 // all single splits are enumerated up to this stream length
)

// partKinds are the named delivery schedules ("all" is always evaluated first
// as the reference).
var partKinds = []string{"one", "seg", "writes", "wsub", "bounds", "rand", "split"}

func genC16(r *kernel.Rand, sc *kernel.Scenario, tier string, run int, exhaustive bool) {
	if exhaustive {
		// short stream (<= 1 KiB with both serializers) starting with a fixed type
		first := gen.MsgTypes[run%len(gen.MsgTypes)]
		for attempt := 0; ; attempt++ {
			rr := kernel.NewRand(kernel.Derive(r.Uint64(), "short", attempt))
			var steps []kernel.Step
			for i, n := 0, rr.Range(1, 3); i < n; i++ {
				t := first
				if i > 0 {
					t = gen.MsgTypes[rr.Intn(len(gen.MsgTypes))]
				}
				sh := gen.ValShape{Parts: 2, Assets: 1, Locked: rr.Intn(2), IndexMap: rr.Bool(0.5), App: rr.Intn(4),
					SigMask: uint32(rr.Uint64()), Flags: rr.Intn(16) &^ 4, Text: rr.Range(0, 24)}
				args := append([]any{"kind", "Env", "type", int(t), "seed", int64(rr.Uint64() >> 2)}, sh.ShapeArgs()...)
				steps = append(steps, kernel.St("val", args...))
			}
			if streamsFit(steps, enumMaxBytes) || attempt > 40 {
				sc.Steps = steps
				break
			}
			if attempt > 10 { // long message types: one envelope only
				steps = steps[:1]
				if streamsFit(steps, enumMaxBytes) {
					sc.Steps = steps
					break
				}
			}
		}
		sc.Faults = append(sc.Faults, kernel.St("readto", "every", []int{0, 1, 3}[run%3], "seed", int64(r.Uint64()>>2)))
		if run%2 == 0 {
			sc.Faults = append(sc.Faults, kernel.St("interleave", "seed", int64(r.Uint64()>>2)))
		}
		for ser := 0; ser < 2; ser++ {
			sc.Faults = append(sc.Faults, kernel.St("part", "kind", "one", "ser", ser),
				kernel.St("part", "kind", "writes", "ser", ser), kernel.St("part", "kind", "split-enum", "ser", ser, "seed", int64(r.Uint64()>>2)))
		}
		return
	}
	k := 1 + r.Weighted([]int{3, 3, 2, 2, 1, 1, 1, 1, 1, 1})
	long := r.Bool(0.6)
	for i := 0; i < k; i++ {
		sc.Steps = append(sc.Steps, valStep(r, "Env", gen.MsgTypes[r.Intn(len(gen.MsgTypes))], long && r.Bool(0.7)))
	}
	if r.Bool(0.3) {
		// sender-side fault: before envelope "before" the application hands an
		// envelope to the connection that cannot be encoded (kind 0: a reason
		// longer than the 16-bit length prefix allows, 1: a balance above the
		// 128-byte limit); the Send must fail and must not disturb the framing
		// of what is sent before and after it on the same connection
		// other=1: the unencodable envelope is handed to ANOTHER connection of the
		// same process; the connection under test must not notice at all
		sc.Faults = append(sc.Faults, kernel.St("badsend", "before", r.Intn(k+1), "kind", r.Intn(2), "other", r.Intn(2)))
	}
	if r.Bool(0.3) {
		// an envelope at the edge of what a frame can carry: its protobuf frame
		// is "slack" bytes longer (or shorter) than the largest frame the 16-bit
		// length prefix can announce. Sending it either fails cleanly or it
		// arrives like any other envelope; in both cases the stream stays framed
		sc.Faults = append(sc.Faults, kernel.St("edge", "before", r.Intn(k+1), "slack", r.Range(-150, 150)))
	}
	if r.Bool(0.35) {
		// transient write errors: every single Write call of the stream (up to a
		// cap, then sampled) fails once; a Send whose write failed must report it,
		// and exactly the envelopes reported as sent must arrive
		sc.Faults = append(sc.Faults, kernel.St("writeerr", "cap", 60, "seed", int64(r.Uint64()>>2)))
	}
	if r.Bool(0.5) {
		// read deadlines: the reader's deadline expires once at a stream offset
		// (all offsets of short streams, the first bytes of every frame and
		// sampled offsets of long ones) while the bytes arrive in pieces of
		// "every"; the Recv that meets it fails or returns the right envelope,
		// it never returns another envelope and never asks for bytes that were
		// not sent
		sc.Faults = append(sc.Faults, kernel.St("readto", "every", []int{0, 1, 3, 7, 64}[r.Intn(5)], "seed", int64(r.Uint64()>>2)))
	}
	if kernel.NewRand(kernel.Derive(r.Uint64(), "interleave")).Bool(0.4) {
		// two connections of one process: while a Recv on one connection waits
		// in the middle of its stream (at every offset of short streams, the
		// first bytes of every frame and sampled offsets of long ones), another
		// connection receives other envelopes; both get exactly what was sent
		sc.Faults = append(sc.Faults, kernel.St("interleave", "seed", int64(r.Uint64()>>2)))
	}
	for ser := 0; ser < 2; ser++ {
		sc.Faults = append(sc.Faults,
			kernel.St("part", "kind", "one", "ser", ser),
			kernel.St("part", "kind", "seg", "ser", ser, "size", segSize),
			kernel.St("part", "kind", "seg", "ser", ser, "size", []int{536, 1448, 1500, 4096, 2, 3, 7, 64}[r.Intn(8)]),
			kernel.St("part", "kind", "writes", "ser", ser),
			kernel.St("part", "kind", "wsub", "ser", ser, "seed", int64(r.Uint64()>>2)),
			kernel.St("part", "kind", "bounds", "ser", ser, "d", -1),
			kernel.St("part", "kind", "bounds", "ser", ser, "d", 1),
			kernel.St("part", "kind", "bounds", "ser", ser, "d", 0, "both", 1),
		)
		for i := 0; i < 6; i++ {
			sc.Faults = append(sc.Faults, kernel.St("part", "kind", "rand", "ser", ser, "seed", int64(r.Uint64()>>2),
				"max", []int{2, 5, 16, 100, 1460, 9000}[i]))
		}
		for i := 0; i < 10; i++ {
			sc.Faults = append(sc.Faults, kernel.St("part", "kind", "split", "ser", ser, "at", int64(r.Uint64()>>34)))
		}
		sc.Faults = append(sc.Faults, kernel.St("part", "kind", "split-enum", "ser", ser, "seed", int64(r.Uint64()>>2)))
	}
}

// streamsFit reports whether the steps' envelopes give streams of at most max
// bytes with both serializers.
func streamsFit(steps []kernel.Step, max int) bool {
	nat, pb := 0, 0
	for i := range steps {
		v, err := buildValue(&steps[i])
		if err != nil {
			return false
		}
		nat += len(v.native)
		p, _, err := encodeProto(v.v.(*wire.Envelope))
		if err != nil {
			return false
		}
		pb += len(p)
	}
	return nat <= max && pb <= max
}

// schedules expands one partition step into delivery schedules for a stream.
func schedules(st *kernel.Step, data []byte, writes []int) (out []Schedule, labels []string, enumerated bool) {
	n := len(data)
	add := func(s Schedule, l string) { out, labels = append(out, s), append(labels, l) }
	switch st.Str("kind") {
	case "all":
		add(Schedule{}, "all at once")
	case "one":
		add(Schedule{Every: 1}, "one byte per read")
	case "seg":
		sz := int(st.Int("size"))
		if sz < 1 {
			sz = segSize
		}
		add(Schedule{Every: sz}, fmt.Sprintf("segments of %d", sz))
	case "writes":
		add(Schedule{Cuts: writes}, "every write arrives separately")
	case "wsub":
		r := kernel.NewRand(kernel.Derive(uint64(st.Int("seed")), "wsub"))
		var c []int
		for _, w := range writes {
			if r.Bool(0.3) {
				c = append(c, w)
			}
		}
		add(Schedule{Cuts: c}, fmt.Sprintf("coalesced writes (%d cuts)", len(c)))
	case "bounds":
		d := int(st.Int("d"))
		var c []int
		for _, w := range writes {
			if st.Int("both") != 0 {
				c = append(c, w-1, w, w+1)
			} else {
				c = append(c, w+d)
			}
		}
		sort.Ints(c)
		add(Schedule{Cuts: c}, fmt.Sprintf("field boundaries %+d (both=%d)", d, st.Int("both")))
	case "rand":
		r := kernel.NewRand(kernel.Derive(uint64(st.Int("seed")), "rand"))
		max := int(st.Int("max"))
		if max < 1 {
			max = 16
		}
		var c []int
		for p := 0; p < n; {
			p += r.Range(1, max)
			c = append(c, p)
		}
		add(Schedule{Cuts: c}, fmt.Sprintf("random pieces of 1..%d", max))
	case "split":
		if n > 1 {
			at := 1 + int(uint64(st.Int("at"))%uint64(n-1))
			add(Schedule{Cuts: []int{at}}, fmt.Sprintf("single split at %d", at))
		}
	case "split-enum":
		if n <= enumMaxBytes {
			for at := 1; at < n; at++ {
				add(Schedule{Cuts: []int{at}}, fmt.Sprintf("single split at %d", at))
			}
			enumerated = true
		} else {
			r := kernel.NewRand(kernel.Derive(uint64(st.Int("seed")), "splits"))
			for i := 0; i < 64; i++ {
				at := 1 + r.Intn(n-1)
				add(Schedule{Cuts: []int{at}}, fmt.Sprintf("single split at %d", at))
			}
		}
	}
	return
}

// recvAll decodes n envelopes from the stream under a schedule with the real
// ioConn; it returns the canonical native encoding of each decoded envelope.
func recvAll(ser int, data []byte, writes []int, s Schedule, n int) (canon [][]byte, envs []*wire.Envelope, failedAt int, err error, reads int) {
	l := Preload(data, writes)
	l.B.SetSchedule(s)
	conn := wirenet.NewIoConn(l.B, serializers[ser])
	failedAt = -1
	for i := 0; i < n; i++ {
		o := guarded(func() (any, error) { return conn.Recv() })
		if o.paniced {
			return canon, envs, i, fmt.Errorf("panic in %s: %v", o.site, o.pval), l.B.Reads()
		}
		if o.err != nil {
			return canon, envs, i, o.err, l.B.Reads()
		}
		env := o.v.(*wire.Envelope)
		c := guarded(func() (any, error) { return encodeNative(kinds[0], env) })
		var b []byte
		if c.paniced {
			b = []byte(fmt.Sprintf("unencodable (panic in %s: %v)", c.site, c.pval))
		} else if c.err != nil {
			b = []byte("unencodable: " + c.err.Error())
		} else {
			b = c.v.([]byte)
		}
		canon = append(canon, b)
		envs = append(envs, env)
	}
	_ = conn.Close()
	return canon, envs, -1, nil, l.B.Reads()
}

// recvWithTimeout reads the stream with one expired read deadline at offset
// at. The connection counts as broken after the first failed Recv, as a user
// of ioConn treats it. Until then every Recv must return the envelope that
// was sent at its position; a Recv may fail only if it met the deadline, and
// no Recv may ask for bytes beyond the end of what was sent (on a real
// connection it would wait for them for ever).
func recvWithTimeout(ser int, data []byte, writes []int, s Schedule, at int, ref [][]byte, res *kernel.Result) (check, detail string) {
	l := Preload(data, writes)
	l.B.SetSchedule(s)
	l.B.ReadTimeoutsAt(at)
	conn := wirenet.NewIoConn(l.B, serializers[ser])
	for i := range ref {
		fired := l.B.TimeoutsFired()
		o := guarded(func() (any, error) { return conn.Recv() })
		met := l.B.TimeoutsFired() > fired
		switch {
		case o.paniced:
			return "C16.read-timeout-panic@" + serNames[ser], fmt.Sprintf("Recv %d: panic in %s: %v", i, o.site, o.pval)
		case o.err != nil && (errors.Is(o.err, ErrStarved) || strings.Contains(o.err.Error(), ErrStarved.Error())):
			return "C16.read-timeout-desync@" + serNames[ser] + "/reads-past-stream", fmt.Sprintf("Recv %d went on after the timeout and asked for bytes that were never sent (it would wait for ever): %v", i, o.err)
		case o.err != nil && !met:
			return "C16.read-timeout-desync@" + serNames[ser] + "/error-without-timeout", fmt.Sprintf("Recv %d failed without having met the deadline: %v", i, o.err)
		case o.err != nil:
			if errors.Is(o.err, os.ErrDeadlineExceeded) {
				res.Count("probe.read-timeout-reported", 1)
			} else {
				res.Count("probe.read-timeout-reported-as-another-error", 1)
			}
			return "", ""
		}
		if met {
			res.Count("probe.read-timeout-absorbed", 1)
		}
		c := guarded(func() (any, error) { return encodeNative(kinds[0], o.v.(*wire.Envelope)) })
		if c.paniced || c.err != nil || !bytes.Equal(c.v.([]byte), ref[i]) {
			return "C16.read-timeout-desync@" + serNames[ser] + "/wrong-envelope", fmt.Sprintf("Recv %d returned an envelope that differs from the %d-th envelope sent", i, i)
		}
	}
	return "", ""
}

// gatedEnd is a connection on which the bytes from offset at on arrive only
// when the gate is opened; reached is closed when the reader stands there.
type gatedEnd struct {
	*End
	at               int
	passed           bool
	reached, release chan struct{}
}

func (g *gatedEnd) Read(p []byte) (int, error) {
	if !g.passed && len(p) > 0 && g.End.Pos() == g.at {
		g.passed = true
		close(g.reached)
		<-g.release
	}
	return g.End.Read(p)
}

// recvInterleaved receives the stream on connection A, whose bytes from
// offset at on arrive late; while A's Recv waits there, connection B (same
// process, same serializer value) receives bdata completely. Both
// connections must get exactly the envelopes that were sent on them.
func recvInterleaved(ser int, data []byte, writes []int, at int, ref [][]byte, bdata []byte, bref [][]byte) (check, detail string) {
	l := Preload(data, writes)
	l.B.SetSchedule(Schedule{Cuts: []int{at}})
	g := &gatedEnd{End: l.B, at: at, reached: make(chan struct{}), release: make(chan struct{})}
	conn := wirenet.NewIoConn(g, serializers[ser])
	type result struct {
		got [][]byte
		at  int
		err error
	}
	done := make(chan result, 1)
	go func() {
		var r result
		r.at = -1
		for i := range ref {
			o := guarded(func() (any, error) { return conn.Recv() })
			if o.paniced {
				r.at, r.err = i, fmt.Errorf("panic in %s: %v", o.site, o.pval)
				break
			}
			if o.err != nil {
				r.at, r.err = i, o.err
				break
			}
			c := guarded(func() (any, error) { return encodeNative(kinds[0], o.v.(*wire.Envelope)) })
			if c.paniced || c.err != nil {
				r.at, r.err = i, fmt.Errorf("the received envelope cannot be encoded again")
				break
			}
			r.got = append(r.got, c.v.([]byte))
		}
		done <- r
	}()
	var ra result
	early := false
	select {
	case <-g.reached:
	case ra = <-done:
		early = true // (A failed before it reached the offset: judged below)
	}
	gb, _, bat, berr, _ := recvAll(ser, bdata, nil, Schedule{}, len(bref))
	if !early {
		close(g.release)
		ra = <-done
	}
	if berr != nil {
		return "C16.interleaved-connections@" + serNames[ser] + "/decode-error", fmt.Sprintf("the other connection could not decode its envelope %d: %v", bat, berr)
	}
	for i := range bref {
		if !bytes.Equal(gb[i], bref[i]) {
			return "C16.interleaved-connections@" + serNames[ser] + "/wrong-envelope", fmt.Sprintf("the other connection received an envelope %d that differs from the one sent on it", i)
		}
	}
	if ra.err != nil {
		return "C16.interleaved-connections@" + serNames[ser] + "/decode-error", fmt.Sprintf("the waiting connection could not decode its envelope %d: %v", ra.at, ra.err)
	}
	for i := range ref {
		if !bytes.Equal(ra.got[i], ref[i]) {
			return "C16.interleaved-connections@" + serNames[ser] + "/wrong-envelope", fmt.Sprintf("the waiting connection received an envelope %d that differs from the one sent on it", i)
		}
	}
	return "", ""
}

func (Engine) execC16(sc *kernel.Scenario, res *kernel.Result, trace bool) {
	logf := func(format string, a ...any) {
		if trace {
			res.Trace = append(res.Trace, fmt.Sprintf(format, a...))
		}
	}
	var vals []*value
	for i := range sc.Steps {
		if sc.Steps[i].Op != "val" || !kindByName(sc.Steps[i].Str("kind")).env {
			continue
		}
		v, err := buildValue(&sc.Steps[i])
		if err != nil {
			res.Fail(i, "C16.encode-error@native/"+v.label, "well-formed envelope %d could not be encoded: %v", i, err)
			return
		}
		vals = append(vals, v)
		res.Count("op.env."+v.typ.String(), 1)
		if v.cross {
			res.Count("probe.cross-ledger-allocation", 1)
		}
	}
	if len(vals) == 0 {
		return
	}
	splitInside := false
	for ser := range serializers {
		// the sender: real ioConn.Send, one envelope after the other, on an open link
		l := NewLink()
		conn := wirenet.NewIoConn(l.A, serializers[ser])
		var frameEnds []int
		closedAfter, badSent := -1, false
		var sent []*value
		for i, v := range vals {
			for fi := range sc.Faults {
				if f := &sc.Faults[fi]; f.Op == "edge" && int(f.Int("before")) == i && closedAfter < 0 {
					ev, size := edgeEnvelope(v.v.(*wire.Envelope), int(f.Int("slack")))
					if ev == nil {
						continue
					}
					res.Count("fault.edge-size-envelope", 1)
					if err := conn.Send(ev.v.(*wire.Envelope)); err != nil {
						// refused: like any failed Send it must leave the stream framed
						res.Count("probe.edge-envelope-refused@"+serNames[ser], 1)
						logf("%s: edge envelope (protobuf frame of %d bytes) refused: %v", serNames[ser], size, err)
						badSent = true
						continue
					}
					res.Count("probe.edge-envelope-sent@"+serNames[ser], 1)
					logf("%s: edge envelope (protobuf frame of %d bytes) sent", serNames[ser], size)
					sent = append(sent, ev)
					d, _ := l.A.Sent()
					frameEnds = append(frameEnds, len(d))
				}
			}
			for fi := range sc.Faults {
				if f := &sc.Faults[fi]; f.Op == "badsend" && int(f.Int("before")) == i && closedAfter < 0 {
					bad := unencodable(v.v.(*wire.Envelope), int(f.Int("kind")))
					if serializers[ser].Encode(io.Discard, bad) == nil {
						res.Count("probe.bad-envelope-encodable", 1) // not a fault for this serializer
						continue
					}
					res.Count("fault.unencodable-send", 1)
					if f.Int("other") == 1 {
						other := wirenet.NewIoConn(NewLink().A, serializers[ser])
						if err := other.Send(bad); err == nil {
							res.Fail(fi, "C16.unencodable-sent@"+serNames[ser], "an envelope that cannot be encoded was reported as sent")
							return
						}
						res.Count("fault.unencodable-send-on-other-connection", 1)
						continue // this connection is untouched: everything after must be sent and arrive
					}
					if err := conn.Send(bad); err == nil {
						res.Fail(fi, "C16.unencodable-sent@"+serNames[ser], "an envelope that cannot be encoded was reported as sent")
						return
					}
					badSent = true
				}
			}
			if err := conn.Send(v.v.(*wire.Envelope)); err != nil {
				if badSent {
					// the connection may give up after a failed Send: the rest is not sent
					closedAfter = i
					res.Count("probe.conn-closed-after-failed-send", 1)
					break
				}
				res.Fail(i, "C16.encode-error@"+serNames[ser]+"/"+v.label, "well-formed envelope %d could not be sent: %v", i, err)
				return
			}
			sent = append(sent, v)
			d, _ := l.A.Sent()
			frameEnds = append(frameEnds, len(d))
		}
		// only what was reported as sent must arrive, in order and unchanged
		allVals := vals
		vals = sent
		if len(vals) == 0 {
			vals = allVals
			continue
		}
		data, writes := l.A.Sent()
		logf("%s stream: %d envelopes, %d bytes, %d writes, frames end at %v", serNames[ser], len(vals), len(data), len(writes), frameEnds)
		if len(data) > segSize {
			res.Count("probe.stream-longer-than-segment", 1)
		}

		// reference: everything available, reads get what they ask for
		ref, refEnvs, at, err, _ := recvAll(ser, data, writes, Schedule{}, len(vals))
		res.Evals++
		if err != nil {
			res.Fail(at, "C16.decode-error@"+serNames[ser]+"/unchunked", "envelope %d (%s) of an unchunked stream: %v", at, vals[at].label, err)
			logf("VIOLATION %s", res.Violation.Detail)
			return
		}
		for i, v := range vals {
			if !bytes.Equal(ref[i], v.native) {
				path, detail := "encoding", ""
				if d := gen.FirstDiff(gen.Flatten(v.v), gen.Flatten(refEnvs[i])); d != nil {
					path, detail = d.Path, fmt.Sprintf("%s: sent %s, received %s", d.FullPath, d.Sent, d.Got)
				}
				res.Fail(i, "C16.roundtrip@"+serNames[ser]+"/"+path, "envelope %d (%s) differs from what was sent even without chunking: %s", i, v.label, detail)
				logf("VIOLATION %s", res.Violation.Detail)
				return
			}
		}
		for fi := range sc.Faults {
			f := &sc.Faults[fi]
			if f.Op != "writeerr" || closedAfter >= 0 {
				continue
			}
			total := len(writes)
			idx := make([]int, 0, total)
			for k := 1; k <= total; k++ {
				idx = append(idx, k)
			}
			if c := int(f.Int("cap")); c > 0 && total > c {
				rr := kernel.NewRand(uint64(f.Int("seed")))
				for a := len(idx) - 1; a > 0; a-- {
					b := rr.Intn(a + 1)
					idx[a], idx[b] = idx[b], idx[a]
				}
				idx = idx[:c]
			}
			// each selected Write call fails in one of three ways (by the fault's
			// seed): nothing written; a part written and io.ErrShortWrite, once or
			// on two calls in a row; a part written and a timeout
			modes := kernel.NewRand(kernel.Derive(uint64(f.Int("seed")), "write-fault-modes"))
			for _, k := range idx {
				l2 := NewLink()
				switch m := modes.Intn(5); m {
				case 0, 1:
					l2.A.FailWrite(k)
				case 2, 3:
					l2.A.ShortWrites(k, m-1, io.ErrShortWrite)
					res.Count("fault.short-write", 1)
				default:
					l2.A.ShortWrites(k, 1, ErrInjectedTimeout)
					res.Count("fault.partial-write-then-timeout", 1)
				}
				c2 := wirenet.NewIoConn(l2.A, serializers[ser])
				var okIdx []int
				sawErr := false
				for i, v := range vals {
					if err := c2.Send(v.v.(*wire.Envelope)); err != nil {
						sawErr = true
						continue // (a connection that gives up refuses the rest as well)
					}
					okIdx = append(okIdx, i)
				}
				res.Count("fault.write-error", 1)
				res.Evals++
				d2, w2 := l2.A.Sent()
				if !sawErr && bytes.Equal(d2, data) {
					// (a Send may absorb a short write by writing the rest itself: fine
					// if the stream is then exactly the fault-free one)
					res.Count("probe.short-write-absorbed", 1)
					continue
				}
				if !sawErr {
					res.Fail(fi, "C16.write-error-swallowed@"+serNames[ser], "write %d of %d failed or was short, yet every Send reported success and the stream differs from the fault-free one", k, total)
					return
				}
				got, _, at, err, _ := recvAll(ser, d2, w2, Schedule{}, len(okIdx))
				if err != nil {
					res.Fail(fi, "C16.write-error-desync@"+serNames[ser], "write %d of %d failed once: envelope %d of the %d reported as sent cannot be decoded: %v", k, total, at, len(okIdx), err)
					return
				}
				for j, i := range okIdx {
					if !bytes.Equal(got[j], ref[i]) {
						res.Fail(fi, "C16.write-error-desync@"+serNames[ser], "write %d of %d failed once: the %d-th envelope reported as sent arrives as a different envelope", k, total, j)
						return
					}
				}
			}
		}
		for fi := range sc.Faults {
			f := &sc.Faults[fi]
			if f.Op != "readto" {
				continue
			}
			var offs []int
			if f.Has("at") {
				offs = []int{modLen(f.Int("at"), len(data))}
			} else if len(data) <= enumMaxBytes {
				for at := 0; at < len(data); at++ {
					offs = append(offs, at)
				}
			} else {
				rr := kernel.NewRand(kernel.Derive(uint64(f.Int("seed")), "read-timeouts"))
				for i := range frameEnds {
					for k := 0; k < 48 && prevEnd(frameEnds, i)+k < frameEnds[i]; k++ {
						offs = append(offs, prevEnd(frameEnds, i)+k)
					}
				}
				for i := 0; i < 64; i++ {
					offs = append(offs, rr.Intn(len(data)))
				}
			}
			for _, at := range offs {
				res.Count("fault.read-timeout", 1)
				res.Evals++
				check, detail := recvWithTimeout(ser, data, writes, Schedule{Every: int(f.Int("every"))}, at, ref, res)
				if check != "" {
					res.Fail(fi, check, "read deadline expired once at offset %d of %d (pieces of %d): %s", at, len(data), f.Int("every"), detail)
					logf("VIOLATION %s: %s", check, res.Violation.Detail)
					ex := *sc
					ex.Faults = []kernel.Step{kernel.St("readto", "every", f.Int("every"), "at", at)}
					res.Explicit = &ex
					return
				}
			}
			kernel.Progress()
		}
		for fi := range sc.Faults {
			f := &sc.Faults[fi]
			if f.Op != "interleave" || len(vals) < 2 {
				continue
			}
			// the other connection carries the same envelopes in another order
			// (rotated by one), so that at no moment the two streams hold the
			// same bytes at the same place
			var bdata []byte
			var bref [][]byte
			for k := 1; k <= len(vals); k++ {
				i := k % len(vals)
				bdata = append(bdata, data[prevEnd(frameEnds, i):frameEnds[i]]...)
				bref = append(bref, ref[i])
			}
			var offs []int
			if f.Has("at") {
				offs = []int{1 + modLen(f.Int("at"), len(data)-1)}
			} else if len(data) <= enumMaxBytes {
				for at := 1; at < len(data); at++ {
					offs = append(offs, at)
				}
			} else {
				rr := kernel.NewRand(kernel.Derive(uint64(f.Int("seed")), "interleave"))
				for i := range frameEnds {
					for k := 1; k < 64 && prevEnd(frameEnds, i)+k < frameEnds[i]; k++ {
						offs = append(offs, prevEnd(frameEnds, i)+k)
					}
				}
				for i := 0; i < 64; i++ {
					offs = append(offs, 1+rr.Intn(len(data)-1))
				}
			}
			for _, at := range offs {
				res.Count("fault.recv-interleaved-with-another-connection", 1)
				res.Evals++
				if check, detail := recvInterleaved(ser, data, writes, at, ref, bdata, bref); check != "" {
					res.Fail(fi, check, "a Recv waited at offset %d of %d while another connection received %d envelopes: %s", at, len(data), len(bref), detail)
					logf("VIOLATION %s: %s", check, res.Violation.Detail)
					ex := *sc
					ex.Faults = []kernel.Step{kernel.St("interleave", "at", at-1)}
					res.Explicit = &ex
					return
				}
			}
			kernel.Progress()
		}
		for fi := range sc.Faults {
			f := &sc.Faults[fi]
			if f.Op != "part" || (f.Has("ser") && int(f.Int("ser")) != ser) {
				continue
			}
			scheds, labels, enumerated := schedules(f, data, writes)
			res.Count("fault.partition."+f.Str("kind"), int64(len(scheds)))
			if enumerated {
				res.Count("probe.all-single-splits-enumerated", 1)
			}
			for si, s := range scheds {
				for _, c := range s.Cuts {
					if c > 0 && c < len(data) && sort.SearchInts(frameEnds, c) < len(frameEnds) && frameEnds[sort.SearchInts(frameEnds, c)] != c {
						splitInside = true
					}
				}
				if s.Every > 0 && s.Every < len(data) {
					splitInside = true
				}
				got, gotEnvs, at, err, reads := recvAll(ser, data, writes, s, len(vals))
				res.Evals++
				res.Count("op.reads", int64(reads))
				fail := func(check, format string, a ...any) {
					res.Fail(fi, check, format, a...)
					logf("VIOLATION %s: %s", check, res.Violation.Detail)
					if len(scheds) > 1 { // report the one concrete schedule of an enumeration
						ex := *sc
						ex.Faults = []kernel.Step{kernel.St("part", "kind", "split", "ser", ser, "at", int64(s.Cuts[0]-1))}
						res.Explicit = &ex
					}
				}
				if err != nil {
					fail("C16.decode-error@"+serNames[ser], "%s: envelope %d (%s, bytes %d..%d of %d) not decoded: %v",
						labels[si], at, vals[at].label, prevEnd(frameEnds, at), frameEnds[at], len(data), err)
					return
				}
				for i := range vals {
					if !bytes.Equal(got[i], ref[i]) {
						path, detail := "encoding", ""
						if d := gen.FirstDiff(gen.Flatten(refEnvs[i]), gen.Flatten(gotEnvs[i])); d != nil {
							path, detail = d.Path, fmt.Sprintf("%s: unchunked %s, chunked %s", d.FullPath, d.Sent, d.Got)
						}
						fail("C16.partition-dependent@"+serNames[ser]+"/"+path, "%s: envelope %d (%s) decodes differently than from the unchunked stream: %s",
							labels[si], i, vals[i].label, detail)
						return
					}
				}
				if trace && len(scheds) == 1 {
					logf("%s, %s: %d envelopes equal to the sent ones in %d reads", serNames[ser], labels[si], len(vals), reads)
				}
			}
			if trace && len(scheds) > 1 {
				logf("%s, %d single splits (enumerated=%v): all decode to the sent envelopes", serNames[ser], len(scheds), enumerated)
			}
			kernel.Progress()
		}
		vals = allVals
	}
	res.NonTrivial = splitInside
}

// unencodable returns an envelope between the same two parties that neither
// serializer can encode.
func unencodable(like *wire.Envelope, kind int) *wire.Envelope {
	e := &wire.Envelope{Sender: like.Sender, Recipient: like.Recipient}
	if kind == 0 {
		e.Msg = &wire.ShutdownMsg{Reason: strings.Repeat("x", 70000)}
		return e
	}
	huge := new(big.Int).Lsh(big.NewInt(1), 8*200)
	st := &channel.State{App: channel.NoApp(), Data: channel.NoData(), Allocation: channel.Allocation{
		Assets: []channel.Asset{gen.Asset(0)}, Backends: []wallet.BackendID{channel.TestBackendID}, Balances: channel.Balances{{huge, big.NewInt(1)}}}}
	e.Msg = &client.ChannelUpdateMsg{ChannelUpdate: client.ChannelUpdate{State: st}, Sig: make([]byte, 64)}
	return e
}

// edgeEnvelope returns a shutdown envelope between the same two parties whose
// protobuf frame body is 65535+slack bytes long (nil if that cannot be built),
// and that length. The length is extrapolated from a smaller envelope of the
// same shape: between 16 KiB and 2 MiB every nested length prefix has three
// bytes, so the size is linear in the length of the reason.
func edgeEnvelope(like *wire.Envelope, slack int) (*value, int) {
	const probe = 60000
	mk := func(n int) *wire.Envelope {
		return &wire.Envelope{Sender: like.Sender, Recipient: like.Recipient, Msg: &wire.ShutdownMsg{Reason: strings.Repeat("e", n)}}
	}
	p, _, err := encodeProto(mk(probe))
	if err != nil {
		return nil, 0
	}
	size := 65535 + slack
	n := probe + size - (len(p) - 2)
	if n < 16384 || n > 65535 {
		return nil, 0
	}
	env := mk(n)
	nat, err := encodeNative(kinds[0], env)
	if err != nil {
		return nil, 0
	}
	return &value{kind: kinds[0], typ: wire.Shutdown, v: env, native: nat, label: "Env/edge-size Shutdown"}, size
}

func prevEnd(ends []int, i int) int {
	if i == 0 {
		return 0
	}
	return ends[i-1]
}
