package link

import (
	"bytes"
	"fmt"
	"io"
	"math/big"
	"runtime"
	"runtime/metrics"
	"strings"

	"perun.network/go-perun/channel"
	"perun.network/go-perun/wallet"
	"perun.network/go-perun/wire"
	wirenet "perun.network/go-perun/wire/net"
	perunioser "perun.network/go-perun/wire/perunio/serializer"
	"perun.network/go-perun/wire/protobuf"

	"verif/sim/gen"
	"verif/sim/kernel"
)

// Serializers under test, by index used in scenarios.
var (
	serializers = []wire.EnvelopeSerializer{perunioser.Serializer(), protobuf.Serializer()}
	serNames    = []string{"native", "protobuf"}
)

const (
	serNative = 0
	serProto  = 1
)

// valKind is one kind of serialisable value with its real (native) codec.
type valKind struct {
	name string
	env  bool // a wire envelope: also goes through the protobuf serializer
	gen  func(r *kernel.Rand, t wire.Type, s gen.ValShape) (any, gen.Meta)
	enc  func(v any, w io.Writer) error
	dec  func(r io.Reader) (any, error)
}

func txMeta(tx *channel.Transaction, p *channel.Params, accs []*gen.Acc) gen.Meta {
	var m gen.Meta
	st := func(v any) *channel.State { return v.(*channel.Transaction).State }
	for i := range tx.Sigs {
		if tx.Sigs[i] == nil {
			continue
		}
		i := i
		m.Signed = append(m.Signed, gen.Signed{Signer: accs[i].Addr, State: st, What: fmt.Sprintf("Transaction.Sigs[%d]", i),
			Sig: func(v any) wallet.Sig {
				if s := v.(*channel.Transaction).Sigs; i < len(s) {
					return s[i]
				}
				return nil
			}})
	}
	m.StateID, m.State = p.ID(), st
	return m
}

var kinds = []*valKind{
	{name: "Env", env: true,
		gen: func(r *kernel.Rand, t wire.Type, s gen.ValShape) (any, gen.Meta) { return gen.RandEnvelope(r, t, s) },
		enc: func(v any, w io.Writer) error { return serializers[serNative].Encode(w, v.(*wire.Envelope)) },
		dec: func(r io.Reader) (any, error) { return serializers[serNative].Decode(r) }},
	{name: "State",
		gen: func(r *kernel.Rand, _ wire.Type, s gen.ValShape) (any, gen.Meta) {
			p, st, _ := gen.RandState(r, s)
			return st, gen.Meta{StateID: p.ID(), State: func(v any) *channel.State { return v.(*channel.State) }}
		},
		enc: func(v any, w io.Writer) error { return v.(*channel.State).Encode(w) },
		dec: func(r io.Reader) (any, error) { v := new(channel.State); return v, v.Decode(r) }},
	{name: "Allocation",
		gen: func(r *kernel.Rand, _ wire.Type, s gen.ValShape) (any, gen.Meta) {
			a := gen.RandAllocation(r, s)
			return &a, gen.Meta{}
		},
		enc: func(v any, w io.Writer) error { return v.(*channel.Allocation).Encode(w) },
		dec: func(r io.Reader) (any, error) { v := new(channel.Allocation); return v, v.Decode(r) }},
	{name: "Balances",
		gen: func(r *kernel.Rand, _ wire.Type, s gen.ValShape) (any, gen.Meta) {
			b := gen.RandBalances(r, s)
			return &b, gen.Meta{}
		},
		enc: func(v any, w io.Writer) error { return v.(*channel.Balances).Encode(w) },
		dec: func(r io.Reader) (any, error) { v := new(channel.Balances); return v, v.Decode(r) }},
	{name: "SubAlloc",
		gen: func(r *kernel.Rand, _ wire.Type, s gen.ValShape) (any, gen.Meta) {
			a := gen.RandSubAlloc(r, s)
			return &a, gen.Meta{}
		},
		enc: func(v any, w io.Writer) error { return v.(*channel.SubAlloc).Encode(w) },
		dec: func(r io.Reader) (any, error) { v := new(channel.SubAlloc); return v, v.Decode(r) }},
	{name: "Params",
		gen: func(r *kernel.Rand, _ wire.Type, s gen.ValShape) (any, gen.Meta) {
			p, _ := gen.RandParams(r, s)
			return p, gen.Meta{ParamsID: p.ID(), Params: func(v any) *channel.Params { return v.(*channel.Params) }}
		},
		enc: func(v any, w io.Writer) error { return v.(*channel.Params).Encode(w) },
		dec: func(r io.Reader) (any, error) { v := new(channel.Params); return v, v.Decode(r) }},
	{name: "Transaction",
		gen: func(r *kernel.Rand, _ wire.Type, s gen.ValShape) (any, gen.Meta) {
			tx, p, accs := gen.RandTransaction(r, s)
			return &tx, txMeta(&tx, p, accs)
		},
		enc: func(v any, w io.Writer) error { return v.(*channel.Transaction).Encode(w) },
		dec: func(r io.Reader) (any, error) { v := new(channel.Transaction); return v, v.Decode(r) }},
	{name: "WalletAddrMap",
		gen: func(r *kernel.Rand, _ wire.Type, s gen.ValShape) (any, gen.Meta) {
			m := wallet.AddressDecMap{}
			if r.Bool(0.85) {
				a, _ := gen.WalletAddrs(r, 1)
				m = wallet.AddressDecMap(a[0])
			}
			return &m, gen.Meta{}
		},
		enc: func(v any, w io.Writer) error { return v.(*wallet.AddressDecMap).Encode(w) },
		dec: func(r io.Reader) (any, error) { v := new(wallet.AddressDecMap); return v, v.Decode(r) }},
	{name: "WalletAddrMapArray",
		gen: func(r *kernel.Rand, _ wire.Type, s gen.ValShape) (any, gen.Meta) {
			n := s.Parts
			if r.Bool(0.1) {
				n = r.Intn(2)
			}
			a, _ := gen.WalletAddrs(r, n)
			for i := range a {
				if r.Bool(0.1) {
					a[i] = map[wallet.BackendID]wallet.Address{}
				}
			}
			return &wallet.AddressMapArray{Addr: a}, gen.Meta{}
		},
		enc: func(v any, w io.Writer) error { return v.(*wallet.AddressMapArray).Encode(w) },
		dec: func(r io.Reader) (any, error) { v := new(wallet.AddressMapArray); return v, v.Decode(r) }},
	{name: "WireAddrMap",
		gen: func(r *kernel.Rand, _ wire.Type, s gen.ValShape) (any, gen.Meta) {
			m := wire.AddressDecMap(gen.WireAddrs(r, 1, true)[0])
			return &m, gen.Meta{}
		},
		enc: func(v any, w io.Writer) error { return v.(*wire.AddressDecMap).Encode(w) },
		dec: func(r io.Reader) (any, error) { v := new(wire.AddressDecMap); return v, v.Decode(r) }},
	{name: "WireAddrMapArray",
		gen: func(r *kernel.Rand, _ wire.Type, s gen.ValShape) (any, gen.Meta) {
			n := s.Parts
			if r.Bool(0.1) {
				n = r.Intn(2)
			}
			a := wire.AddressMapArray(gen.WireAddrs(r, n, true))
			return &a, gen.Meta{}
		},
		enc: func(v any, w io.Writer) error { return v.(*wire.AddressMapArray).Encode(w) },
		dec: func(r io.Reader) (any, error) { v := new(wire.AddressMapArray); return v, v.Decode(r) }},
	{name: "Prims",
		gen: func(r *kernel.Rand, _ wire.Type, s gen.ValShape) (any, gen.Meta) {
			a, _ := gen.WalletAddrs(r, 1)
			p := &gen.Prims{B: r.Bool(0.5), U8: uint8(r.Uint64()), U16: uint16(r.Uint64()), U32: uint32(r.Uint64()), U64: r.Uint64(),
				I16: int16(r.Uint64()), I32: int32(r.Uint64()), I64: int64(r.Uint64()),
				Big: new(big.Int).SetBytes(r.Bytes(r.Range(0, 128))), S: gen.Text(r, s.Text), Addr: a[0][channel.TestBackendID]}
			copy(p.H[:], r.Bytes(32))
			return p, gen.Meta{}
		},
		enc: func(v any, w io.Writer) error { return v.(*gen.Prims).Encode(w) },
		dec: func(r io.Reader) (any, error) { v := new(gen.Prims); return v, v.Decode(r) }},
}

func kindByName(n string) *valKind {
	for _, k := range kinds {
		if k.name == n {
			return k
		}
	}
	return kinds[0]
}

// valStep writes a value into a scenario step: kind, message type (for
// envelopes), seed of the content, explicit shape.
func valStep(r *kernel.Rand, kind string, t wire.Type, long bool) kernel.Step {
	sh := gen.RandValShape(r, long)
	args := append([]any{"kind", kind, "type", int(t), "seed", int64(r.Uint64() >> 2)}, sh.ShapeArgs()...)
	return kernel.St("val", args...)
}

// value is a generated value with its canonical (native) encoding.
type value struct {
	kind   *valKind
	typ    wire.Type
	v      any
	meta   gen.Meta
	native []byte // canonical native encoding
	writes []int  // end offset of every Write the real encoder made
	label  string
	cross  bool // the shape asks for assets on two ledgers
}

// The link engines' processes know two ledgers (cross-ledger allocations).
func init() { gen.RegisterSecondLedger() }

// buildValue regenerates the value a step describes. Total: any step yields a
// value.
func buildValue(st *kernel.Step) (*value, error) {
	gen.RegisterApps()
	k := kindByName(st.Str("kind"))
	t := wire.Type(uint8(st.Int("type"))) % wire.LastType
	r := kernel.NewRand(kernel.Derive(uint64(st.Int("seed")), "val"))
	v, meta := k.gen(r, t, gen.ShapeFromStep(st))
	val := &value{kind: k, typ: t, v: v, meta: meta, label: k.name}
	if sh := gen.ShapeFromStep(st); sh.TwoLedgers() && sh.Assets >= 2 {
		val.cross = true
	}
	if k.env {
		val.label = "Env/" + t.String()
	}
	l := NewLink()
	if err := k.enc(v, l.A); err != nil {
		return val, err
	}
	val.native, val.writes = l.A.Sent()
	return val, nil
}

// encodeNative is the harness's access to the canonical bytes of a value.
func encodeNative(k *valKind, v any) ([]byte, error) {
	var b bytes.Buffer
	err := k.enc(v, &b)
	return b.Bytes(), err
}

// encodeProto returns the protobuf frame of an envelope.
func encodeProto(env *wire.Envelope) ([]byte, []int, error) {
	l := NewLink()
	c := wirenet.NewIoConn(l.A, serializers[serProto])
	if err := c.Send(env); err != nil {
		return nil, nil, err
	}
	b, w := l.A.Sent()
	return b, w, nil
}

// ---- panic attribution and allocation measurement ------------------------------

const modPrefix = "perun.network/go-perun/"

func shortFunc(f string) string {
	f = strings.TrimPrefix(f, modPrefix)
	f = strings.NewReplacer("(*", "", ")", "").Replace(f)
	for {
		i := strings.LastIndex(f, ".func")
		if i < 0 {
			break
		}
		f = f[:i]
	}
	return f
}

// panicSite names the innermost function of go-perun (outside its log
// package) on the stack of the panic being recovered.
func panicSite() (site, caller string) {
	pcs := make([]uintptr, 96)
	n := runtime.Callers(3, pcs)
	frames := runtime.CallersFrames(pcs[:n])
	site = "unknown"
	found := false
	for {
		f, more := frames.Next()
		if strings.HasPrefix(f.Function, modPrefix) && !strings.HasPrefix(f.Function, modPrefix+"log.") &&
			!strings.HasPrefix(f.Function, modPrefix+"log/") {
			if !found {
				site, found = shortFunc(f.Function), true
			} else if s := shortFunc(f.Function); s != site {
				return site, s
			}
		}
		if !more {
			break
		}
	}
	return site, ""
}

type outcome struct {
	v       any
	err     error
	paniced bool
	pval    any
	site    string
	caller  string
	alloc   uint64
}

var allocSample = []metrics.Sample{{Name: "/gc/heap/allocs:bytes"}}

func heapAllocs() uint64 {
	metrics.Read(allocSample)
	if allocSample[0].Value.Kind() == metrics.KindUint64 {
		return allocSample[0].Value.Uint64()
	}
	return 0
}

// guarded runs one decode in the calling goroutine under recover and measures
// the bytes it allocated.
func guarded(f func() (any, error)) (o outcome) {
	before := heapAllocs()
	defer func() {
		if p := recover(); p != nil {
			o.paniced, o.pval = true, p
			o.site, o.caller = panicSite()
		}
		o.alloc = heapAllocs() - before
	}()
	o.v, o.err = f()
	return
}
