package link

import (
	"bytes"
	"sync"

	simchannel "perun.network/go-perun/backend/sim/channel"
	"perun.network/go-perun/channel"

	"verif/sim/gen"
	"verif/sim/kernel"
)

// C13, concurrent decoders (race-detector pass only): a client decodes on one
// goroutine per connection. Valid states whose app is found by a predicate
// resolver (not by RegisterApp) are decoded on several goroutines at once;
// every decode must succeed and give back the state, and the race detector
// watches the decoders' shared tables (app registry, backends). This is the
// one place where real parallelism, not a seeded schedule, decides: a data
// race has no observable effect under cooperative scheduling.

var resolverOnce sync.Once

type raceResolver struct{}

func (raceResolver) Resolve(id channel.AppID) (channel.App, error) {
	return channel.NewMockApp(id), nil
}

func oddKey(id channel.AppID) bool { k := id.Key(); return len(k) > 0 && k[len(k)-1]&1 == 1 }

func genC13concurrent(r *kernel.Rand, sc *kernel.Scenario) {
	sc.Config["concurrent"] = 1
	sc.Config["decoders"] = int64(r.Range(4, 8))
	sc.Config["states"] = int64(r.Range(8, 24))
	sc.Config["r"] = int64(r.Uint64() >> 2)
}

func (Engine) execC13concurrent(sc *kernel.Scenario, res *kernel.Result, trace bool) {
	resolverOnce.Do(func() {
		// ids whose last key byte is odd are found by the predicate resolver
		channel.RegisterAppResolver(oddKey, raceResolver{})
	})
	r := kernel.NewRand(uint64(sc.Cfg("r", 1)))
	n := int(sc.Cfg("states", 8))
	var encs [][]byte
	for len(encs) < n {
		id := simchannel.AppID{Address: gen.DetAddress("c13conc", int64(r.Uint64()>>2))}
		if !oddKey(id) {
			continue
		}
		shape := gen.ValShape{Parts: 2, Assets: 1 + r.Intn(2), App: gen.AppNone}
		st := &channel.State{ID: gen.SubID(r.Uint64()), Version: r.Uint64() >> 40, App: channel.NewMockApp(id),
			Data: channel.NewMockOp(channel.OpValid), Allocation: gen.RandAllocation(r, shape)}
		enc := gen.EncodeState(st)
		if bytes.HasPrefix(enc, []byte("unencodable:")) {
			res.Fail(0, "C13.concurrent-encode-error", "%s", enc)
			return
		}
		encs = append(encs, enc)
	}
	k := int(sc.Cfg("decoders", 4))
	var wg sync.WaitGroup
	errs := make([]string, k)
	for g := 0; g < k; g++ {
		g := g
		wg.Add(1)
		go func() {
			defer wg.Done()
			for i := range encs {
				j := (i + g) % len(encs) // every goroutine meets every fresh id, in its own order
				var st channel.State
				if err := st.Decode(bytes.NewReader(encs[j])); err != nil {
					errs[g] = err.Error()
					return
				}
				if !bytes.Equal(gen.EncodeState(&st), encs[j]) {
					errs[g] = "decoded state differs"
					return
				}
			}
		}()
	}
	wg.Wait()
	res.Evals += int64(k * len(encs))
	res.Count("fault.concurrent-decoders", int64(k))
	for g, e := range errs {
		if e != "" {
			res.Fail(0, "C13.concurrent-decode", "decoder %d of %d: %s", g, k, e)
			return
		}
	}
	res.NonTrivial = true
	if trace {
		res.Trace = append(res.Trace, "concurrent decoders: all decodes succeeded")
	}
}
