package link

import (
	"os"
	"testing"

	"verif/sim/kernel"
)

func TestWorker(t *testing.T) {
	// a C13 batch runs its decodes in a child process of the worker (c13run.go)
	if job := os.Getenv(jobEnv); job != "" {
		RunC13Child(job)
	}
	kernel.RunWorker(t, Engine{})
}
