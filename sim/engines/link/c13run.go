package link

// Execution of a C13 batch. The decodes run in a child process of the worker
// (the same test binary, started with LINK_C13_JOB set): recover() catches
// panics in the decoding goroutine, but a decoder that exhausts memory or the
// stack takes its process down, and the worker has to survive that, name the
// decode that did it and go on. The child also is the only place where the
// address-space limit and the resident-memory guard apply.
//
// A child is recycled (it reports where it stopped, exits, and a fresh one
// continues) after any decode that allocated more than recycleAlloc: a heap
// that already had a multi-GiB block freed would have to zero it again for
// the next one, which costs seconds and gigabytes of resident memory that have
// nothing to do with the decoder under test.

import (
	"bytes"
	"encoding/binary"
	"encoding/json"
	"fmt"
	"os"
	"os/exec"
	"regexp"
	"runtime"
	"strconv"
	"strings"
	"sync/atomic"
	"syscall"
	"time"

	"verif/sim/gen"
	"verif/sim/kernel"
)

const (
	residentGuard = 1 << 30           // growth of resident memory during one decode after which it gets no more address space
	guardHeadroom = 256 << 20         // address space left to a decode the guard has cut off (the runtime's own needs)
	recycleAlloc  = 64 << 20          // a decode allocating more makes the child hand over to a fresh one
	childTimeout  = 100 * time.Second // a child making no progress for this long is killed
	jobEnv        = "LINK_C13_JOB"
	guardMark     = "resident-memory guard:"
)

type c13Job struct {
	Scenario kernel.Scenario `json:"scenario"`
	Trace    bool            `json:"trace"`
	Fi       int             `json:"fi"` // resume at fault Fi, case Ci (Fi = -1: start with the base values)
	Ci       int             `json:"ci"`
	Out      string          `json:"out"`
	Marker   string          `json:"marker"`
}

type c13Out struct {
	Done      bool              `json:"done"`
	Fi        int               `json:"fi"` // where a fresh child continues when !Done
	Ci        int               `json:"ci"`
	Evals     int64             `json:"evals"`
	Counters  map[string]int64  `json:"counters"`
	Violation *kernel.Violation `json:"violation,omitempty"`
	Explicit  *kernel.Step      `json:"explicit,omitempty"`
	Trace     []string          `json:"trace,omitempty"`
	Harness   string            `json:"harness,omitempty"` // a panic of the harness itself
}

// ---- child -------------------------------------------------------------------------

// decodeSeq counts decodes; the guard goroutine uses it to tell one long
// decode from many short ones.
var decodeSeq atomic.Int64

func statm(field int) int64 {
	b, err := os.ReadFile("/proc/self/statm")
	if err != nil {
		return 0
	}
	f := strings.Fields(string(b))
	if len(f) <= field {
		return 0
	}
	n, _ := strconv.ParseInt(f[field], 10, 64)
	return n * int64(os.Getpagesize())
}

// startGuard watches resident memory. A single request for more than the
// address-space limit kills the process at once; but the go1.26 runtime fills
// a huge map table by table, and waiting for that to reach the limit would
// need the limit's worth of real memory in every worker. So once one decode
// has grown resident memory by residentGuard, the guard lowers the soft
// address-space limit to what is mapped already plus guardHeadroom: memory
// the decode already owns stays usable (a large block being zeroed
// completes) and the runtime can still map what it needs for itself, but a
// decode that keeps asking for address space is refused within a fraction of
// a second and the runtime dies with its own out-of-memory error. The limit
// is restored when that decode returns.
func startGuard(hard uint64) {
	go func() {
		seen, base, lowered := int64(-1), int64(0), false
		for {
			time.Sleep(5 * time.Millisecond)
			seq, rss := decodeSeq.Load(), statm(1)
			if seq != seen || seq%2 == 0 { // a different decode, or none in flight
				if lowered {
					_ = syscall.Setrlimit(syscall.RLIMIT_AS, &syscall.Rlimit{Cur: hard, Max: hard})
					lowered = false
				}
				seen, base = seq, rss
				continue
			}
			if !lowered && rss-base > residentGuard {
				buf := make([]byte, 1<<18)
				n := runtime.Stack(buf, true)
				fmt.Fprintf(os.Stderr, "%s one decode grew resident memory by %d MiB; it gets no more address space. Goroutines at this moment:\n%s\n\n", guardMark, (rss-base)>>20, buf[:n])
				_ = syscall.Setrlimit(syscall.RLIMIT_AS, &syscall.Rlimit{Cur: uint64(statm(0)) + guardHeadroom, Max: hard})
				lowered = true
			}
		}
	}()
}

// RunC13Child is the body of a child process; it never returns.
func RunC13Child(jobPath string) {
	b, err := os.ReadFile(jobPath)
	if err != nil {
		fmt.Fprintln(os.Stderr, "c13 child:", err)
		os.Exit(4)
	}
	var job c13Job
	if err := json.Unmarshal(b, &job); err != nil {
		fmt.Fprintln(os.Stderr, "c13 child:", err)
		os.Exit(4)
	}
	lim := syscall.Rlimit{Cur: addressSpaceLimit, Max: addressSpaceLimit}
	var cur syscall.Rlimit
	if err := syscall.Getrlimit(syscall.RLIMIT_AS, &cur); err == nil && cur.Max < lim.Max {
		lim.Cur, lim.Max = cur.Max, cur.Max
	}
	if err := syscall.Setrlimit(syscall.RLIMIT_AS, &lim); err != nil {
		fmt.Fprintln(os.Stderr, "c13 child: setrlimit:", err)
		os.Exit(4)
	}
	mf, err := os.OpenFile(job.Marker, os.O_CREATE|os.O_WRONLY, 0o644)
	if err != nil {
		fmt.Fprintln(os.Stderr, "c13 child:", err)
		os.Exit(4)
	}
	startGuard(lim.Cur)
	var out *c13Out
	func() {
		// panics of the decoders are recovered around each decode; whatever
		// arrives here is a defect of the harness and is reported as such
		defer func() {
			if p := recover(); p != nil {
				buf := make([]byte, 1<<16)
				out = &c13Out{Harness: fmt.Sprintf("%v\n%s", p, buf[:runtime.Stack(buf, false)])}
			}
		}()
		out = runBatch(&job, mf)
	}()
	if err := os.WriteFile(job.Out, kernel.MustJSON(out), 0o644); err != nil {
		fmt.Fprintln(os.Stderr, "c13 child:", err)
		os.Exit(4)
	}
	os.Exit(0)
}

func runBatch(job *c13Job, mf *os.File) *c13Out {
	return c13Batch(job, func(fi, ci int) {
		var m [16]byte
		binary.LittleEndian.PutUint64(m[:8], uint64(int64(fi)))
		binary.LittleEndian.PutUint64(m[8:], uint64(int64(ci)))
		_, _ = mf.WriteAt(m[:], 0)
	})
}

func buildBases(sc *kernel.Scenario) (vals []*value) {
	for i := range sc.Steps {
		if sc.Steps[i].Op != "val" {
			continue
		}
		v, err := buildValue(&sc.Steps[i])
		if err != nil {
			continue // not a C13 matter; C14 reports encoders that refuse well-formed values
		}
		vals = append(vals, v)
	}
	return
}

// c13Batch runs the decodes of a batch from (job.Fi, job.Ci) on.
func c13Batch(job *c13Job, mark func(fi, ci int)) *c13Out {
	sc := &job.Scenario
	out := &c13Out{Counters: map[string]int64{}}
	logf := func(format string, a ...any) {
		if job.Trace && len(out.Trace) < 300 {
			out.Trace = append(out.Trace, fmt.Sprintf(format, a...))
		}
	}
	vals := buildBases(sc)
	if len(vals) == 0 {
		out.Done = true
		return out
	}
	decode := func(v *value, t int, data []byte, stall bool, fi, ci int) outcome {
		mark(fi, ci)
		decodeSeq.Add(1) // odd: in flight
		o := decodeWith(v, t, data, stall)
		decodeSeq.Add(1)
		out.Evals++
		return o
	}
	fail := func(fi int, ex *kernel.Step, check, detail string) *c13Out {
		out.Violation = &kernel.Violation{Check: check, Detail: detail, Step: fi}
		out.Explicit = ex
		out.Done = true
		logf("VIOLATION %s: %s", check, detail)
		return out
	}
	if job.Fi < 0 {
		// the unmodified bytes first (if these did not decode the mutants would say little)
		k := 0
		for _, v := range vals {
			for t := 0; t < 3; t++ {
				if b, ok := v.base(t); ok {
					o := decode(v, t, b.data, false, -1, k)
					k++
					if o.paniced {
						return fail(0, nil, "C13.panic@"+o.site, fmt.Sprintf("decoding well-formed %s bytes with the %s decoder: %v", v.label, decoderName(v, t), o.pval))
					}
					if o.err == nil {
						out.Counters["probe.base-value-decodes"]++
					} else {
						out.Counters["probe.base-value-rejected"]++
					}
				}
			}
		}
		job.Fi, job.Ci = 0, 0
	}
	for fi := job.Fi; fi < len(sc.Faults); fi++ {
		f := &sc.Faults[fi]
		v, cases := expand(f, vals)
		ci0 := 0
		if fi == job.Fi {
			ci0 = job.Ci
		}
		if ci0 == 0 {
			out.Counters["fault."+f.Op] += int64(len(cases))
		}
		for ci := ci0; ci < len(cases); ci++ {
			c := cases[ci]
			o := decode(v, c.t, c.data, c.stall, fi, ci)
			dn := decoderName(v, c.t)
			if o.alloc > allocProbe {
				out.Counters["probe.alloc-over-64MiB@"+dn]++
				logf("probe: %s decoder, %s: one decode allocated %d MiB", dn, c.label, o.alloc>>20)
			}
			var check, detail string
			_, spun := o.pval.(stallSpin)
			switch {
			case o.paniced && spun:
				check = "C13.no-termination-on-timeout@" + dn
				detail = fmt.Sprintf("%s decoder, %s: the reader reported the expired deadline %d times and the decoder still asked for more", dn, c.label, stallPollLimit)
			case c.stall && o.err == nil:
				check = "C13.value-from-stalled-stream@" + dn
				detail = fmt.Sprintf("%s decoder, %s: a value was returned although the encoding never arrived completely", dn, c.label)
			case o.paniced:
				check = "C13.panic@" + o.site
				detail = fmt.Sprintf("%s decoder, %s (%d bytes): panic: %v (called from %s)", dn, c.label, len(c.data), o.pval, o.caller)
			case o.err == nil && c.declared != "":
				check = "C13.limit-declared@" + v.kind.name + "/" + c.declared
				detail = fmt.Sprintf("%s decoder, %s: the encoding declares %s above the documented limit and was decoded without error", dn, c.label, c.declared)
			case o.err == nil:
				out.Counters["probe.mutant-decoded-without-error"]++
				lim := guarded(func() (any, error) { return gen.OverLimit(o.v), nil })
				if lim.paniced {
					// a value the harness cannot even walk (nil rows and the like): not claimed
					out.Counters["probe.unwalkable-value"]++
				} else if what := lim.v.(string); what != "" {
					check = "C13.limit@" + targetNames[c.t] + "/" + what
					if !v.kind.env {
						check = "C13.limit@" + v.kind.name + "/" + what
					}
					detail = fmt.Sprintf("%s decoder, %s: decoded without error although %s exceeds the documented limit", dn, c.label, what)
				}
			default:
				out.Counters["probe.mutant-rejected-with-error"]++
			}
			if check != "" {
				return fail(fi, c.ex, check, detail)
			}
			if job.Trace && len(cases) == 1 {
				logf("%s decoder, %s: rejected=%v", dn, c.label, o.err != nil)
			}
			if o.alloc > recycleAlloc {
				out.Counters["probe.child-recycled-after-large-allocation"]++
				out.Fi, out.Ci = fi, ci+1
				return out
			}
		}
		if job.Trace && len(cases) > 1 {
			logf("%s: %d cases, no panic, limits respected", f.String(), len(cases))
		}
	}
	out.Done = true
	return out
}

// ---- parent -------------------------------------------------------------------------

var (
	fatalRe = regexp.MustCompile(`(?m)^(fatal error: .*|panic: .*)$`)
	frameRe = regexp.MustCompile(`(?m)^(perun\.network/go-perun/[^\s(]+(?:\([^)]*\))?[^\s(]*)\(`)
)

// crashSignature names a dead child: the kind of death and the innermost
// go-perun frame (outside its log package) in the crash output.
func crashSignature(stderr string) (check, head string) {
	m := fatalRe.FindStringIndex(stderr)
	if g := strings.Index(stderr, guardMark); g >= 0 {
		// the guard had cut the decode off from address space: however the
		// runtime then died, it died of memory exhaustion; the guard's dump
		// shows where the decode was
		head = "fatal error: out of memory (address space withdrawn by the resident-memory guard)"
		if m != nil {
			head = stderr[m[0]:m[1]]
			if !strings.Contains(head, "out of memory") && !strings.Contains(head, "cannot allocate memory") {
				head += " (out of memory: address space withdrawn by the resident-memory guard)"
			}
		}
		m = []int{g, g}
	} else if m == nil {
		return "", ""
	} else {
		head = stderr[m[0]:m[1]]
	}
	site := "unknown"
	for _, fr := range frameRe.FindAllStringSubmatch(stderr[m[0]:], -1) {
		if strings.HasPrefix(fr[1], modPrefix+"log.") || strings.HasPrefix(fr[1], modPrefix+"log/") {
			continue
		}
		site = shortFunc(fr[1])
		break
	}
	switch {
	case strings.Contains(head, "out of memory") || strings.Contains(head, "cannot allocate memory"):
		return "C13.fatal-oom@" + site, head
	case strings.Contains(head, "stack overflow") || strings.Contains(head, "stack exceeds"):
		return "C13.fatal-stack-overflow@" + site, head
	case strings.HasPrefix(head, "panic: "):
		return "C13.panic-unrecovered@" + site, head
	}
	return "C13.fatal@" + site, head
}

func (Engine) execC13(sc *kernel.Scenario, res *kernel.Result, trace bool) {
	exe, err := os.Executable()
	if err != nil {
		panic(err)
	}
	dir, err := os.MkdirTemp("", "link-c13-")
	if err != nil {
		panic(err)
	}
	defer os.RemoveAll(dir)
	job := c13Job{Scenario: *sc, Trace: trace, Fi: -1, Out: dir + "/out.json", Marker: dir + "/marker"}
	okSeen, errSeen := int64(0), int64(0)
	for round := 0; ; round++ {
		_ = os.Remove(job.Out)
		_ = os.Remove(job.Marker)
		jobPath := dir + "/job.json"
		if err := os.WriteFile(jobPath, kernel.MustJSON(&job), 0o644); err != nil {
			panic(err)
		}
		cmd := exec.Command(exe, "-test.run", "^TestWorker$", "-test.timeout", "0", "-test.count", "1")
		cmd.Env = append(os.Environ(), jobEnv+"="+jobPath)
		cmd.SysProcAttr = &syscall.SysProcAttr{Pdeathsig: syscall.SIGKILL}
		var stderr bytes.Buffer
		cmd.Stderr = &stderr
		if err := cmd.Start(); err != nil {
			panic(err)
		}
		done := make(chan error, 1)
		go func() { done <- cmd.Wait() }()
		timedOut := false
		lastMark, lastChange := "", time.Now()
	wait:
		for {
			select {
			case <-done:
				break wait
			case <-time.After(500 * time.Millisecond):
				kernel.Progress()
				m, _ := os.ReadFile(job.Marker)
				if string(m) != lastMark {
					lastMark, lastChange = string(m), time.Now()
				} else if time.Since(lastChange) > childTimeout {
					timedOut = true
					_ = cmd.Process.Kill()
					<-done
					break wait
				}
			}
		}
		var out c13Out
		if b, err := os.ReadFile(job.Out); err == nil && json.Unmarshal(b, &out) == nil && !timedOut {
			if out.Harness != "" {
				panic("link: c13 child: harness panic: " + out.Harness)
			}
			res.Evals += out.Evals
			for k, v := range out.Counters {
				res.Count(k, v)
			}
			res.Trace = append(res.Trace, out.Trace...)
			okSeen += out.Counters["probe.mutant-decoded-without-error"]
			errSeen += out.Counters["probe.mutant-rejected-with-error"]
			if out.Violation != nil {
				res.Violation = out.Violation
				if out.Explicit != nil {
					ex := *sc
					ex.Faults = []kernel.Step{*out.Explicit}
					res.Explicit = &ex
				}
				return
			}
			if out.Done {
				break
			}
			job.Fi, job.Ci = out.Fi, out.Ci
			continue
		}
		// the child died (or hung) inside a decode: the marker says which one
		fi, ci := -1, 0
		if m, err := os.ReadFile(job.Marker); err == nil && len(m) == 16 {
			fi, ci = int(int64(binary.LittleEndian.Uint64(m[:8]))), int(int64(binary.LittleEndian.Uint64(m[8:])))
		}
		check, head := crashSignature(stderr.String())
		if timedOut {
			check, head = "C13.no-termination", fmt.Sprintf("no progress for %v", childTimeout)
		}
		if check == "" {
			// not a death the decoders can be blamed for: harness trouble, exit-2 class
			e := stderr.String()
			if len(e) > 3000 {
				e = e[:3000]
			}
			fmt.Fprintf(os.Stderr, "c13 child died without a fatal error (fault %d case %d, timed out %v):\n%s\n", fi, ci, timedOut, e)
			panic("link: c13 child process failed")
		}
		label, dn := "well-formed base value", ""
		var ex *kernel.Step
		if vals := buildBases(sc); fi >= 0 && fi < len(sc.Faults) && len(vals) > 0 {
			v, cases := expand(&sc.Faults[fi], vals)
			if ci < len(cases) {
				label, dn, ex = cases[ci].label, decoderName(v, cases[ci].t), cases[ci].ex
				if ex == nil {
					ex = &sc.Faults[fi]
				}
				if timedOut {
					check += "@" + dn
				}
			}
		}
		res.Fail(fi, check, "%s decoder, %s: the decoding process died: %s", dn, label, head)
		if trace {
			res.Trace = append(res.Trace, "VIOLATION "+check+": "+res.Violation.Detail)
			n := 0
			for _, l := range strings.Split(stderr.String(), "\n") {
				if n < 14 && (strings.HasPrefix(l, "perun.network/") || strings.HasPrefix(l, "fatal error") || strings.HasPrefix(l, "runtime: out of memory")) {
					res.Trace = append(res.Trace, "  "+l)
					n++
				}
			}
		}
		if ex != nil {
			e := *sc
			e.Faults = []kernel.Step{*ex}
			res.Explicit = &e
		}
		return
	}
	res.NonTrivial = okSeen > 0 && errSeen > 0
}

func tail(s string, n int) string {
	if len(s) > n {
		return s[len(s)-n:]
	}
	return s
}
