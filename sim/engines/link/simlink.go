// Package link is the history-kernel engine for the codecs and the framing
// (properties C13, C14, C16): the real serializers, decoders and
// wire/net.ioConn run on a simulated link whose delivery schedule, truncation
// and corruption are the faults.
package link

import (
	"errors"
	"io"
	"os"
	"sort"
	"sync"
)

// ErrStarved is what a Read reports when the reader asks for a byte that was
// never sent while the stream is still open. On a real connection that read
// blocks forever; the simulated link is driven from one goroutine and turns
// the indefinite block into a deterministic error instead.
var ErrStarved = errors.New("simlink: read past the last byte sent on an open stream (would block forever)")

// dir is one direction of a link: everything ever written, where each Write
// ended, and the delivery schedule seen by the reader.
type dir struct {
	mu      sync.Mutex
	data    []byte
	writes  []int // end offset of every Write call (write boundaries)
	rpos    int
	wclosed bool // writer side closed: EOF once drained (never together with data)
	rclosed bool

	// delivery schedule: a Read never crosses a cut; every>0 adds a cut at
	// every multiple of it (1 = one byte per Read).
	cuts  []int
	every int

	reads, zeroReads int

	// fault: the failWrite-th Write call (1-based) fails once, writing nothing
	failWrite, nWrites int
	// fault: from the shortFrom-th Write call on, shortCount consecutive calls
	// transfer only a part of their bytes and report shortErr
	shortFrom, shortCount int
	shortErr              error

	// fault: read deadlines. When the reader stands at one of these offsets the
	// next Read reports a timeout once without data (a Read never crosses such
	// an offset); the stream goes on afterwards, as on a connection whose read
	// deadline is renewed.
	timeouts      []int
	timeoutsFired int
}

// ErrInjectedWrite is returned by a Write that was selected to fail.
var ErrInjectedWrite = errors.New("simlink: injected write error")

// FailWrite makes the n-th Write call on this end (1-based) fail once without
// writing anything; later writes succeed again (a transient fault).
func (e *End) FailWrite(n int) {
	e.out.mu.Lock()
	e.out.failWrite = n
	e.out.mu.Unlock()
}

// ErrInjectedTimeout is reported by a Write that transferred only a part of
// its bytes before its (simulated) deadline expired.
var ErrInjectedTimeout = errors.New("simlink: write deadline expired after a partial write")

// ShortWrites makes count consecutive Write calls on this end, starting with
// the n-th (1-based), transfer only a part of their bytes (half of them, at
// least one) and return that count together with err (io.ErrShortWrite or a
// timeout); later writes are complete again.
func (e *End) ShortWrites(n, count int, err error) {
	e.out.mu.Lock()
	e.out.shortFrom, e.out.shortCount, e.out.shortErr = n, count, err
	e.out.mu.Unlock()
}

// End is one end of a Link.
type End struct {
	in, out *dir
}

// Link is a simulated duplex byte stream between two ends A and B. It stays
// open until an end is closed.
type Link struct{ A, B *End }

// NewLink returns an open link without faults: Reads return as much as was
// asked for and is available.
func NewLink() *Link {
	ab, ba := &dir{}, &dir{}
	return &Link{A: &End{in: ba, out: ab}, B: &End{in: ab, out: ba}}
}

// Schedule is a delivery schedule for one direction: the stream arrives in
// pieces that end at Cuts (absolute offsets) and at every multiple of Every.
type Schedule struct {
	Cuts  []int
	Every int
}

// SetSchedule installs the delivery schedule for bytes arriving at e.
func (e *End) SetSchedule(s Schedule) {
	e.in.mu.Lock()
	defer e.in.mu.Unlock()
	e.in.cuts = append([]int(nil), s.Cuts...)
	sort.Ints(e.in.cuts)
	e.in.every = s.Every
}

// ReadTimeoutsAt makes the reader at this end meet an expired read deadline
// when it stands at each of the given stream offsets: one Read there returns
// (0, os.ErrDeadlineExceeded), the next ones deliver again.
func (e *End) ReadTimeoutsAt(offsets ...int) {
	e.in.mu.Lock()
	defer e.in.mu.Unlock()
	e.in.timeouts = append([]int(nil), offsets...)
	sort.Ints(e.in.timeouts)
}

// TimeoutsFired is the number of read timeouts reported at this end so far.
func (e *End) TimeoutsFired() int {
	e.in.mu.Lock()
	defer e.in.mu.Unlock()
	return e.in.timeoutsFired
}

// Write sends p; each call is recorded as one write boundary.
func (e *End) Write(p []byte) (int, error) {
	d := e.out
	d.mu.Lock()
	defer d.mu.Unlock()
	if d.wclosed || d.rclosed {
		return 0, io.ErrClosedPipe
	}
	if len(p) == 0 {
		return 0, nil
	}
	d.nWrites++
	if d.failWrite > 0 && d.nWrites == d.failWrite {
		return 0, ErrInjectedWrite
	}
	if d.shortFrom > 0 && d.nWrites >= d.shortFrom && d.nWrites < d.shortFrom+d.shortCount && len(p) > 0 {
		take := len(p) / 2
		if take == 0 {
			take = 1
		}
		if take < len(p) {
			d.data = append(d.data, p[:take]...)
			d.writes = append(d.writes, len(d.data))
			return take, d.shortErr
		}
	}
	d.data = append(d.data, p...)
	d.writes = append(d.writes, len(d.data))
	return len(p), nil
}

// Read delivers the next piece of the stream: at most len(p) bytes, never
// across a cut of the schedule. (0, nil) is returned only for a zero-length
// p; io.EOF is returned only after the writer closed and all data was read,
// never together with data.
func (e *End) Read(p []byte) (int, error) {
	d := e.in
	d.mu.Lock()
	defer d.mu.Unlock()
	d.reads++
	if len(p) == 0 {
		d.zeroReads++
		return 0, nil
	}
	if d.rclosed {
		return 0, io.ErrClosedPipe
	}
	if len(d.timeouts) > 0 && d.timeouts[0] == d.rpos {
		d.timeouts = d.timeouts[1:]
		d.timeoutsFired++
		return 0, os.ErrDeadlineExceeded
	}
	if d.rpos >= len(d.data) {
		if d.wclosed {
			return 0, io.EOF
		}
		return 0, ErrStarved
	}
	end := len(d.data)
	if i := sort.SearchInts(d.timeouts, d.rpos+1); i < len(d.timeouts) && d.timeouts[i] < end {
		end = d.timeouts[i]
	}
	if d.rpos+len(p) < end {
		end = d.rpos + len(p)
	}
	if d.every > 0 {
		if next := (d.rpos/d.every + 1) * d.every; next < end {
			end = next
		}
	}
	if i := sort.SearchInts(d.cuts, d.rpos+1); i < len(d.cuts) && d.cuts[i] < end {
		end = d.cuts[i]
	}
	n := copy(p, d.data[d.rpos:end])
	d.rpos += n
	return n, nil
}

// Close closes both directions at this end.
func (e *End) Close() error {
	e.out.mu.Lock()
	e.out.wclosed = true
	e.out.mu.Unlock()
	e.in.mu.Lock()
	e.in.rclosed = true
	e.in.mu.Unlock()
	return nil
}

// CloseWrite closes only the sending direction (the peer reads EOF after the
// last byte): a connection that ends after the bytes written so far.
func (e *End) CloseWrite() {
	e.out.mu.Lock()
	e.out.wclosed = true
	e.out.mu.Unlock()
}

// Sent returns a copy of everything written at this end and the write
// boundaries (end offset of each Write).
func (e *End) Sent() ([]byte, []int) {
	e.out.mu.Lock()
	defer e.out.mu.Unlock()
	return append([]byte(nil), e.out.data...), append([]int(nil), e.out.writes...)
}

// Pos is the number of bytes delivered to the reader at this end so far.
func (e *End) Pos() int {
	e.in.mu.Lock()
	defer e.in.mu.Unlock()
	return e.in.rpos
}

// Reads is the number of Read calls at this end.
func (e *End) Reads() int {
	e.in.mu.Lock()
	defer e.in.mu.Unlock()
	return e.in.reads
}

// Preload returns a fresh link on which A has already written data with the
// given write boundaries (the stream of an earlier link, to be delivered under
// another schedule).
func Preload(data []byte, writes []int) *Link {
	l := NewLink()
	prev := 0
	for _, w := range writes {
		if w > prev && w <= len(data) {
			_, _ = l.A.Write(data[prev:w])
			prev = w
		}
	}
	if prev < len(data) {
		_, _ = l.A.Write(data[prev:])
	}
	return l
}

var _ io.ReadWriteCloser = (*End)(nil)
