package link

import (
	"fmt"
	"testing"

	"verif/sim/gen"
	"verif/sim/kernel"
)

// Engine implements kernel.Engine for C13, C14 and C16.
type Engine struct{}

func (Engine) Name() string { return "link" }

func (Engine) Plan(prop, tier string) kernel.Plan {
	p := kernel.Plan{}
	thorough := tier == "thorough"
	switch prop {
	case "C16":
		// a random run is one stream under ~180 schedules; an enumerating run is
		// a short stream under every single split with both serializers
		p.Exhaustive, p.Runs = 2*len(gen.MsgTypes), 2*len(gen.MsgTypes)+800
		if thorough {
			p.Exhaustive, p.Runs = 40*len(gen.MsgTypes), 40*len(gen.MsgTypes)+24000
		}
		p.ExhaustiveNote = fmt.Sprintf("streams of 1-3 envelopes of at most %d bytes (every message type first in turn): every single split position of the stream, plus one-byte reads and per-write delivery, with both serializers", enumMaxBytes)
	case "C14":
		p.Runs = 12000 // ~7 values per run, envelopes decoded with both serializers
		if thorough {
			p.Runs = 1400000
		}
	case "C13":
		p.CrashProne = true
		p.Runs = 8 * len(c13Families()) // ~1400 faulty decodes per run
		if thorough {
			p.Runs = 21000
		}
	}
	return p
}

func (Engine) Describe(prop string) kernel.Describe {
	d := kernel.Describe{
		Real: []string{"wire/net.ioConn (Send, Recv)", "wire/perunio primitives and wire/perunio/serializer (native envelope serializer)",
			"wire/protobuf serializer and To*/From* conversions (generated types from wire.pb.go, google.golang.org/protobuf)",
			"wire.EncodeMsg/DecodeMsg and the decoder registry; wire.AddressDecMap, wire.AddressMapArray; control and auth messages",
			"wallet.AddressDecMap, wallet.AddressMapArray, sparse signature codec, backend lookup",
			"channel.State/Allocation/Balances/SubAlloc/Params/Transaction codecs, app registry (payment and mock apps registered, no default resolver)",
			"client proposal / update / sync message codecs (all 17 message types)",
			"backend/sim wallet, channel and wire backends (real ECDSA-P256 signatures; key material and signatures random per process, positions and lengths fixed)"},
		Stub: []string{"SimLink: in-memory duplex byte stream standing in for the TCP connection under ioConn; it records the writes of the sender and delivers to the reader in pieces chosen by the scenario; driven from one goroutine, so a read past the last byte of an open stream returns an error instead of blocking forever",
			"the peers: message contents and value shapes are seeded input generation (generators in sim/gen/msgs.go), not the product of running clients"},
	}
	shapes := "value shapes are seeded input generation: all 17 message types; states with no app, the payment app (no data) and the mock app (8 bytes of data); 1-8 assets and 2-5 participants (up to 32 / 24 for long messages); 0-4 sub-allocations (up to 8 for long ones) with empty, permutation and arbitrary index maps; balances from 0 to 127 bytes; any subset of signatures; parameters with all ledger/virtual/aux/app combinations; empty and single-backend address maps"
	switch prop {
	case "C16":
		d.Rule = "one run = one stream of 1-10 well-formed envelopes (60% of runs biased to encodings longer than a 1460-byte segment) sent with the real ioConn.Send and received with ioConn.Recv under each delivery schedule, with the native and the protobuf serializer; evaluations = (stream, serializer, schedule) triples. For every schedule every envelope must be decoded, in order, with a canonical (native) encoding equal to that of the sent envelope and to what the same serializer decodes from the unchunked stream. The first 2x17 (quick) runs enumerate every single split position of a stream of at most 1 KiB; longer streams get 64 sampled single splits. Non-trivial run = some schedule cut inside a frame; distinct = distinct scenario digests. " + shapes
		d.FaultKinds = []string{"partition.one (one byte per read)", "partition.seg (segments of 1460 / other sizes)", "partition.writes (every write of the sender arrives separately)",
			"partition.wsub (random coalescing of writes)", "partition.bounds (cuts at field/frame boundaries -1, +1 and all three)", "partition.rand (random pieces, six size scales)",
			"partition.split (single split)", "partition.split-enum (all single splits)",
			"readto (one expired read deadline at a stream offset - all offsets of short streams - after which the stream goes on)",
			"interleave (a Recv waits at an offset while another connection of the process receives the same envelopes in rotated order)",
			"writeerr (a Write fails, is short, or is partial and then times out)", "badsend / edge (an envelope that cannot be encoded, or at the frame size limit, between well-formed ones)"}
		d.Assumptions = []string{"the stream stays open: a Read never returns io.EOF together with data, and (0, nil) only for a zero-length buffer (a reader reporting end-of-file with the last bytes is a closed connection, excluded by the property)",
			"a Read that needs a byte that was never sent fails with an error (on a real open connection it would block forever); either way the envelope is not decoded",
			"chunking of the writer is modelled as delivery cuts at the recorded write boundaries of the real encoder",
			"envelopes fit the protobuf frame (64 KiB) and texts are valid UTF-8, as the protobuf encoder requires"}
	case "C14":
		d.Rule = "one run = one stream of 1-20 values back to back (60% envelopes, else State, Allocation, Balances, SubAlloc, Params, Transaction, wallet/wire address maps and arrays, a tuple of all perunio primitives); evaluations = decodes. Each value is decoded from the stream with its real decoder: no error, reader position exactly at the end of the value's bytes, harness's own field-by-field comparison with the sent value (absent and empty signatures are different), re-encoding byte-identical to the bytes read, every carried signature verifies on the decoded state, Params.ID() and State.ID unchanged. The envelopes of the run also go through the protobuf serializer on a second stream with the same checks, and the protobuf-decoded envelope must encode natively to the same bytes as the natively decoded one. Non-trivial run = at least two values; distinct = distinct scenario digests. " + shapes
		d.FaultKinds = []string{"stream delivered in pieces of 1-64 bytes (40 % of the runs)", "2-3 concurrent senders on slow simulated connections (20 % of the runs)"}
		d.Assumptions = []string{"delivery in pieces of one size per run only (C16 varies delivery fully)", "only backend 0 (sim) is registered, as in every build of this repository, so address maps have 0 or 1 entries",
			"envelopes fit the protobuf frame (64 KiB) and texts are valid UTF-8, as the protobuf encoder requires", "a ChannelSync transaction always has a state (a nil state cannot be converted by the protobuf encoder)"}
	case "C13":
		d.Rule = "one run = a batch of ~1400 faulty decodes of one family (17 envelope types, 11 value kinds, in turn): 3-5 well-formed base values, every truncation offset of the first one with every decoder (enumerated up to 2 KiB, 256 sampled beyond), and ~600 explicit faults. Decoders: ioConn.Recv with the native and with the protobuf serializer, wire.DecodeMsg, and Decode of State, Allocation, Balances, SubAlloc, Params, Transaction, wallet/wire address maps and arrays, primitives. Each decode runs under recover in the calling goroutine: a panic is a violation named by the innermost go-perun frame; a successful decode must respect MaxNumAssets, MaxNumParts, MaxNumSubAllocations and MaxBigIntLength; a decoding process killed by the runtime's out-of-memory (or stack-overflow) error under the address-space limit is a violation named the same way; an encoding whose dimension field was set above the limit must not decode without error. Evaluations = decodes; non-trivial run = some mutant decoded and some was rejected. Structure-aware mutations (length fields from the encoder's write boundaries, protobuf messages rebuilt through the generated types) are input generation. " + shapes
		d.FaultKinds = []string{"trunc / trunc-enum (stream ends after k bytes)", "flip (1-3 bits)", "len (a 1/2/4-byte length, count, backend-id, type or flag field overwritten with -1, 0, limit, limit+1, 2^15, 2^16-1, 2^31-1; little- and big-endian; optionally with zero bytes supplied for the announced elements)",
			"stall / stall-enum (after k bytes - every k - the reader's deadline has expired for good: every further Read reports os.ErrDeadlineExceeded; a decoder that asks 2000 more times does not terminate)",
			"splice (head of one message, tail of another)", "rand (random bytes)", "randtail (valid prefix, random rest)", "cross (bytes of one serializer fed to the other)",
			"pb (protobuf message rebuilt with a repeated field shortened, duplicated, emptied or grown to 1025, a sub-message removed or emptied, a bytes field emptied / resized / set to a 4-byte backend id, a scalar set to a boundary value)"}
		d.Assumptions = []string{"the decodes of a batch run in a child process of the worker (same binary) whose address space is limited to 32 GiB (RLIMIT_AS): a decoder that makes the runtime die with out-of-memory under that limit counts as not terminating with a value or an error; no deployment hands 32 GiB to the decoding of a message of at most 64 KiB. The worker names the decode in flight from a marker the child writes before each decode and the innermost go-perun frame of the crash output",
			"resident-memory guard: the go1.26 runtime that builds the workers fills a huge map table by table instead of requesting one block (the repository's go1.23 toolchain requests 118 GB at once), so reaching the limit would need 32 GiB of real memory in each of 16 workers; once a single decode has grown resident memory by 1 GiB it is therefore given only 256 MiB more address space, after which the runtime dies of out-of-memory on its own; single requests up to the limit (4 GiB for an AuthResponse length of 2^32-1) pass and are counted as probes",
			"a child is replaced by a fresh one after any decode that allocated more than 64 MiB, so that the cost of re-zeroing recycled multi-GiB blocks is not attributed to a decoder; a child without progress for 100 s is killed and reported as non-termination",
			"allocation of a single decode above 64 MiB is recorded as a probe only (the property does not bound memory)",
			"a stream that ends (EOF after the faulty bytes) is how truncation reaches the decoder", "only backend 0 (sim) is registered; every other backend id on the wire is unknown"}
	}
	return d
}

func (e Engine) Generate(prop, tier string, run int, seed uint64) *kernel.Scenario {
	sc := &kernel.Scenario{Config: map[string]int64{}}
	r := kernel.NewRand(seed)
	switch prop {
	case "C16":
		genC16(r, sc, tier, run, run < e.Plan(prop, tier).Exhaustive)
	case "C14":
		genC14(r, sc, run)
	case "C13":
		if raceEnabled {
			genC13concurrent(r, sc)
		} else {
			genC13(r, sc, tier, run)
		}
	default:
		return nil
	}
	return sc
}

func (e Engine) Execute(t *testing.T, sc *kernel.Scenario, trace bool) *kernel.Result {
	res := &kernel.Result{}
	switch sc.Property {
	case "C16":
		e.execC16(sc, res, trace)
	case "C14":
		e.execC14(t, sc, res, trace)
	case "C13":
		if sc.Cfg("concurrent", 0) == 1 {
			e.execC13concurrent(sc, res, trace)
		} else {
			e.execC13(sc, res, trace)
		}
	}
	return res
}
