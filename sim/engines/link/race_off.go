//go:build !race

package link

const raceEnabled = false
