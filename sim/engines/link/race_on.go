//go:build race

package link

// raceEnabled: the binary was built with the race detector (second pass of
// the coordinator). C13 then runs its concurrent-decoder scenarios.
const raceEnabled = true
