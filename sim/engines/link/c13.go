package link

import (
	"encoding/binary"
	"fmt"
	"os"

	"google.golang.org/protobuf/proto"
	"google.golang.org/protobuf/reflect/protoreflect"

	"perun.network/go-perun/wire"
	wirenet "perun.network/go-perun/wire/net"
	"perun.network/go-perun/wire/protobuf"

	"verif/sim/gen"
	"verif/sim/kernel"
)

// C13: faulty bytes into the real decoders.

const (
	addressSpaceLimit = 32 << 30 // RLIMIT_AS of a C13 worker
	allocProbe        = 64 << 20 // a single decode allocating more is counted
	truncEnumMax      = 2048     // all truncation offsets are enumerated up to this length
)

// decode targets
const (
	tNative = 0 // ioConn.Recv with the native serializer (envelopes) / the value's Decode
	tProto  = 1 // ioConn.Recv with the protobuf serializer (envelopes only)
	tMsg    = 2 // wire.DecodeMsg on the message part (envelopes only)
)

var targetNames = []string{"native", "protobuf", "msg"}

// c13Families: one batch mutates values of one family.
func c13Families() (fam []struct {
	kind string
	typ  wire.Type
}) {
	for _, t := range gen.MsgTypes {
		fam = append(fam, struct {
			kind string
			typ  wire.Type
		}{"Env", t})
	}
	for _, k := range kinds[1:] {
		fam = append(fam, struct {
			kind string
			typ  wire.Type
		}{k.name, 0})
	}
	return
}

// lenValues is the value set written over length / count / backend-id / type
// fields of the given width.
func lenValues(width int) []int64 {
	limit := int64(1024) // MaxNumAssets = MaxNumParts = MaxNumSubAllocations
	if width == 1 {
		limit = 128 // perunio.MaxBigIntLength
	}
	return []int64{-1, 0, limit, limit + 1, 1 << 15, 1<<16 - 1, 1<<31 - 1}
}

func genC13(r *kernel.Rand, sc *kernel.Scenario, tier string, run int) {
	fams := c13Families()
	fam := fams[run%len(fams)]
	sc.Config["family"] = int64(run % len(fams))
	nBase := r.Range(3, 5)
	for i := 0; i < nBase; i++ {
		sc.Steps = append(sc.Steps, valStep(r, fam.kind, fam.typ, i == 0 && r.Bool(0.3)))
	}
	env := fam.kind == "Env"
	target := func() int {
		if !env {
			return tNative
		}
		return r.Weighted([]int{4, 4, 2})
	}
	// the first base value: all truncations with every decoder
	for t := 0; t < 3; t++ {
		if t > 0 && !env {
			break
		}
		sc.Faults = append(sc.Faults, kernel.St("trunc-enum", "m", 0, "t", t, "seed", int64(r.Uint64()>>2)))
	}
	// ... and an expired read deadline at every offset (one decoder per run)
	sc.Faults = append(sc.Faults, kernel.St("stall-enum", "m", 0, "t", target(), "seed", int64(r.Uint64()>>2)))
	// protobuf mutation sites of every base envelope, so that a fault names its
	// site by path (a replay then means the same site on a tree whose encoder
	// produces a slightly different message)
	var sitePaths [][]string
	if env {
		for _, v := range buildBases(sc) {
			var paths []string
			if b, ok := v.base(tProto); ok && len(b.data) >= 2 {
				var e protobuf.Envelope
				if proto.Unmarshal(b.data[2:], &e) == nil {
					var sites []pbSite
					pbSites(e.ProtoReflect(), "Envelope", &sites)
					for _, s := range sites {
						paths = append(paths, s.path)
					}
				}
			}
			sitePaths = append(sitePaths, paths)
		}
	}
	seen := map[string]bool{}
	n := 600
	for len(sc.Faults) < n {
		m, t := r.Intn(nBase), target()
		var f kernel.Step
		switch op := r.Weighted([]int{22, 30, 10, 6, 8, 4, 4, 16}); {
		case op == 0:
			f = kernel.St("flip", "m", m, "t", t, "b0", int64(r.Uint64()>>24))
			for k := r.Intn(3); k > 0; k-- {
				f.A[fmt.Sprintf("b%d", k)] = int64(r.Uint64() >> 24)
			}
		case op == 1 && t != tProto:
			f = kernel.St("len", "m", m, "t", t, "f", r.Intn(400), "v", r.Intn(7), "be", r.Bool(0.15))
			if r.Bool(0.3) {
				// supply zero bytes for the elements a larger count announces
				f.A["pad"], f.A["padat"] = int64([]int{1100, 2200, 5000, 40000}[r.Intn(4)]), int64(r.Intn(2))
			}
		case op == 1 || op == 7:
			if !env {
				continue
			}
			if r.Bool(0.08) {
				f = kernel.St("len", "m", m, "t", tProto, "f", 0, "v", r.Intn(7), "be", true)
			} else {
				f = kernel.St("pb", "m", m, "t", tProto, "site", r.Intn(1000), "mut", r.Intn(12), "val", r.Intn(12))
				if r.Bool(0.2) {
					f.A["mut"], f.A["val"] = 100, int64(r.Intn(20))
				}
				if m < len(sitePaths) && len(sitePaths[m]) > 0 {
					k := int(f.Int("site")) % len(sitePaths[m])
					occ := 0
					for _, p := range sitePaths[m][:k] {
						if p == sitePaths[m][k] {
							occ++
						}
					}
					f.A["site"], f.A["occ"] = int64(k), int64(occ)
					f.S = map[string]string{"path": sitePaths[m][k]}
				}
			}
		case op == 2:
			f = kernel.St("splice", "m", m, "t", t, "m2", r.Intn(nBase), "at", int64(r.Uint64()>>40), "at2", int64(r.Uint64()>>40))
		case op == 3:
			f = kernel.St("rand", "m", m, "t", t, "n", r.Weighted([]int{1, 3, 3, 2})*r.Range(1, 64), "seed", int64(r.Uint64()>>2))
		case op == 4:
			f = kernel.St("randtail", "m", m, "t", t, "at", int64(r.Uint64()>>40), "seed", int64(r.Uint64()>>2))
		case op == 5:
			f = kernel.St("trunc", "m", m, "t", t, "at", int64(r.Uint64()>>40))
		case op == 6:
			if !env {
				continue
			}
			f = kernel.St("cross", "m", m, "t", r.Intn(2))
		default:
			continue
		}
		if k := f.String(); !seen[k] {
			seen[k] = true
			sc.Faults = append(sc.Faults, f)
		}
	}
}

// base returns the well-formed bytes of a value for a target, with the write
// boundaries of the real encoder (the field table).
type baseBytes struct {
	data   []byte
	writes []int
}

func (v *value) base(t int) (baseBytes, bool) {
	if !v.kind.env {
		return baseBytes{v.native, v.writes}, t == tNative
	}
	switch t {
	case tProto:
		d, w, err := encodeProto(v.v.(*wire.Envelope))
		return baseBytes{d, w}, err == nil
	case tMsg:
		l := NewLink()
		if err := wire.EncodeMsg(v.v.(*wire.Envelope).Msg, l.A); err != nil {
			return baseBytes{}, false
		}
		d, w := l.A.Sent()
		return baseBytes{d, w}, true
	}
	return baseBytes{v.native, v.writes}, true
}

type field struct{ off, width int }

// fields derives the integer fields of an encoding from the encoder's write
// boundaries: the primitive codec writes every integer, length prefix, type
// byte and flag with its own Write.
func (b baseBytes) fields() (out []field) {
	prev := 0
	for _, w := range b.writes {
		switch w - prev {
		case 1, 2, 4:
			out = append(out, field{prev, w - prev})
		}
		prev = w
	}
	return
}

func putInt(b []byte, v int64, be bool) {
	switch len(b) {
	case 1:
		b[0] = byte(v)
	case 2:
		if be {
			binary.BigEndian.PutUint16(b, uint16(v))
		} else {
			binary.LittleEndian.PutUint16(b, uint16(v))
		}
	case 4:
		if be {
			binary.BigEndian.PutUint32(b, uint32(v))
		} else {
			binary.LittleEndian.PutUint32(b, uint32(v))
		}
	}
}

// decodeWith feeds data to the decoder of target t for value v; the stream
// ends after the data (a connection that closes).
// stallSpin is the panic value of a stalled reader that was polled
// stallPollLimit times after it had reported its expired deadline.
type stallSpin struct{}

const stallPollLimit = 2000

// stalledEnd delivers what the link holds and then reports an expired read
// deadline on every further Read, as a net.Conn does whose peer stopped
// sending in the middle of a message: the deadline is absolute and stays
// expired. A decoder has to give up with that error; one that keeps polling
// would spin for ever, which the reader turns into a panic of its own kind.
type stalledEnd struct {
	*End
	polls int
}

func (s *stalledEnd) Read(p []byte) (int, error) {
	n, err := s.End.Read(p)
	if err == ErrStarved {
		s.polls++
		if s.polls > stallPollLimit {
			panic(stallSpin{})
		}
		return 0, os.ErrDeadlineExceeded
	}
	return n, err
}

func decodeWith(v *value, t int, data []byte, stall bool) outcome {
	l := Preload(data, nil)
	if stall {
		rd := &stalledEnd{End: l.B}
		switch {
		case v.kind.env && t == tMsg:
			return guarded(func() (any, error) { return wire.DecodeMsg(rd) })
		case v.kind.env:
			conn := wirenet.NewIoConn(rd, serializers[t&1])
			return guarded(func() (any, error) { return conn.Recv() })
		}
		return guarded(func() (any, error) { return v.kind.dec(rd) })
	}
	l.A.CloseWrite()
	switch {
	case v.kind.env && t == tMsg:
		return guarded(func() (any, error) { return wire.DecodeMsg(l.B) })
	case v.kind.env:
		conn := wirenet.NewIoConn(l.B, serializers[t&1])
		return guarded(func() (any, error) { return conn.Recv() })
	}
	return guarded(func() (any, error) { return v.kind.dec(l.B) })
}

// ---- protobuf-level mutations --------------------------------------------------

type pbSite struct {
	msg  protoreflect.Message
	fd   protoreflect.FieldDescriptor // nil: the message as a whole
	path string
}

func pbSites(m protoreflect.Message, path string, out *[]pbSite) {
	*out = append(*out, pbSite{m, nil, path})
	fds := m.Descriptor().Fields()
	for i := 0; i < fds.Len(); i++ {
		fd := fds.Get(i)
		if fd.ContainingOneof() != nil && !m.Has(fd) {
			continue
		}
		p := path + "." + string(fd.Name())
		*out = append(*out, pbSite{m, fd, p})
		if fd.Kind() != protoreflect.MessageKind {
			continue
		}
		if fd.IsList() {
			l := m.Get(fd).List()
			for j := 0; j < l.Len(); j++ {
				pbSites(l.Get(j).Message(), p+"[]", out)
			}
		} else if m.Has(fd) {
			pbSites(m.Get(fd).Message(), p, out)
		}
	}
}

var (
	pbCounts = []int{1025, 1024, 2, 70, 300, 1026}
	pbLens   = []int{129, 128, 200, 31, 33, 4, 5, 3, 65, 63, 1}
	pbInts   = []int64{-1, 1, 2, 7, 1<<31 - 1, 1 << 24, 256, 65535, 65536, 1<<32 - 1, 1<<63 - 1, 255}
)

func growList(l protoreflect.List, fd protoreflect.FieldDescriptor, n int) {
	for l.Len() < n {
		switch {
		case fd.Kind() == protoreflect.MessageKind:
			l.Append(l.NewElement())
		case fd.Kind() == protoreflect.BytesKind:
			var b []byte
			if l.Len() > 0 && len(l.Get(l.Len()-1).Bytes()) <= 8 {
				b = append(b, l.Get(l.Len()-1).Bytes()...)
			}
			l.Append(protoreflect.ValueOfBytes(b))
		case fd.Kind() == protoreflect.Uint32Kind:
			l.Append(protoreflect.ValueOfUint32(uint32(l.Len())))
		default:
			return
		}
	}
}

// pbMutate applies mutation (mut, val) at a site; it returns a description or
// "" if the mutation does not apply there.
func pbMutate(s pbSite, mut, val int, r *kernel.Rand) string {
	m, fd := s.msg, s.fd
	if fd == nil { // whole message: grow all its repeated fields consistently
		n := pbCounts[val%len(pbCounts)]
		fds := m.Descriptor().Fields()
		grown := 0
		for i := 0; i < fds.Len(); i++ {
			if f := fds.Get(i); f.IsList() {
				growList(m.Mutable(f).List(), f, n)
				grown++
			}
		}
		if grown == 0 {
			return ""
		}
		return fmt.Sprintf("%s: all %d repeated fields grown to %d entries", s.path, grown, n)
	}
	switch {
	case fd.IsList():
		l := m.Mutable(fd).List()
		switch mut % 4 {
		case 0:
			if l.Len() == 0 {
				return ""
			}
			l.Truncate(l.Len() - 1)
			return s.path + ": last entry dropped"
		case 1:
			if l.Len() == 0 {
				growList(l, fd, 1)
				return s.path + ": one empty entry added"
			}
			last := l.Get(l.Len() - 1)
			if fd.Kind() == protoreflect.MessageKind {
				last = protoreflect.ValueOfMessage(proto.Clone(last.Message().Interface()).ProtoReflect())
			}
			l.Append(last)
			return s.path + ": last entry duplicated"
		case 2:
			if l.Len() == 0 {
				return ""
			}
			m.Clear(fd)
			return s.path + ": all entries removed"
		default:
			n := pbCounts[val%len(pbCounts)]
			if l.Len() >= n {
				return ""
			}
			growList(l, fd, n)
			return fmt.Sprintf("%s: grown to %d entries", s.path, n)
		}
	case fd.Kind() == protoreflect.MessageKind:
		if mut%2 == 0 {
			if !m.Has(fd) {
				return ""
			}
			m.Clear(fd)
			return s.path + ": sub-message removed"
		}
		m.Set(fd, protoreflect.ValueOfMessage(m.NewField(fd).Message()))
		return s.path + ": sub-message replaced by an empty one"
	case fd.Kind() == protoreflect.BytesKind:
		b := append([]byte(nil), m.Get(fd).Bytes()...)
		switch mut % 6 {
		case 0:
			m.Set(fd, protoreflect.ValueOfBytes(nil))
			return s.path + ": emptied"
		case 1:
			if len(b) == 0 {
				return ""
			}
			m.Set(fd, protoreflect.ValueOfBytes(b[:len(b)-1]))
			return s.path + ": one byte shorter"
		case 2:
			m.Set(fd, protoreflect.ValueOfBytes(append(b, byte(r.Uint64()))))
			return s.path + ": one byte longer"
		case 3:
			n := pbLens[val%len(pbLens)]
			m.Set(fd, protoreflect.ValueOfBytes(r.Bytes(n)))
			return fmt.Sprintf("%s: %d random bytes", s.path, n)
		case 4:
			v := pbInts[val%len(pbInts)]
			k := make([]byte, 4)
			binary.BigEndian.PutUint32(k, uint32(v))
			m.Set(fd, protoreflect.ValueOfBytes(k))
			return fmt.Sprintf("%s: 4-byte big-endian %d", s.path, int32(v))
		default:
			n := pbLens[val%len(pbLens)]
			x := make([]byte, n)
			for i := range x {
				x[i] = 0xff
			}
			m.Set(fd, protoreflect.ValueOfBytes(x))
			return fmt.Sprintf("%s: %d bytes 0xff", s.path, n)
		}
	case fd.Kind() == protoreflect.BoolKind:
		m.Set(fd, protoreflect.ValueOfBool(!m.Get(fd).Bool()))
		return s.path + ": toggled"
	case fd.Kind() == protoreflect.Uint32Kind:
		v := pbInts[val%len(pbInts)]
		m.Set(fd, protoreflect.ValueOfUint32(uint32(v)))
		return fmt.Sprintf("%s: set to %d", s.path, uint32(v))
	case fd.Kind() == protoreflect.Uint64Kind:
		v := pbInts[val%len(pbInts)]
		m.Set(fd, protoreflect.ValueOfUint64(uint64(v)))
		return fmt.Sprintf("%s: set to %d", s.path, uint64(v))
	case fd.Kind() == protoreflect.Int64Kind:
		v := pbInts[val%len(pbInts)]
		m.Set(fd, protoreflect.ValueOfInt64(v))
		return fmt.Sprintf("%s: set to %d", s.path, v)
	case fd.Kind() == protoreflect.StringKind:
		m.Set(fd, protoreflect.ValueOfString(""))
		return s.path + ": emptied"
	}
	return ""
}

// pbFault rebuilds the protobuf frame of an envelope with one structural
// mutation applied to the generated message types.
func pbFault(frame []byte, f *kernel.Step) ([]byte, string) {
	if len(frame) < 2 {
		return nil, ""
	}
	var env protobuf.Envelope
	if err := proto.Unmarshal(frame[2:], &env); err != nil {
		return nil, ""
	}
	var sites []pbSite
	pbSites(env.ProtoReflect(), "Envelope", &sites)
	s := sites[int(uint64(f.Int("site"))%uint64(len(sites)))]
	if p := f.Str("path"); p != "" { // by path and occurrence, when the message still has that site
		occ := int(f.Int("occ"))
		for _, c := range sites {
			if c.path == p {
				if occ == 0 {
					s = c
					break
				}
				occ--
			}
		}
	}
	r := kernel.NewRand(kernel.Derive(uint64(f.Int("site")), "pb", f.Int("mut"), f.Int("val")))
	if f.Int("mut") == 100 {
		// an amount just above the documented size limit: 129 bytes whose first
		// byte is small (the value has 1025..1031 bits), or exactly at it
		var amounts []pbSite
		for _, c := range sites {
			if c.fd != nil && c.fd.Kind() == protoreflect.BytesKind && c.fd.Name() == "balance" {
				amounts = append(amounts, c)
			}
		}
		if len(amounts) == 0 {
			return nil, ""
		}
		c := amounts[int(uint64(f.Int("site"))%uint64(len(amounts)))]
		n := []int{129, 129, 129, 128, 130}[int(uint64(f.Int("val"))%5)]
		x := r.Bytes(n)
		x[0] = []byte{0x01, 0x7f, 0x40, 0x02}[int(uint64(f.Int("val")/5)%4)]
		if c.fd.IsList() {
			l := c.msg.Mutable(c.fd).List()
			if l.Len() == 0 {
				return nil, ""
			}
			l.Set(int(uint64(f.Int("site")/7)%uint64(l.Len())), protoreflect.ValueOfBytes(x))
		} else {
			c.msg.Set(c.fd, protoreflect.ValueOfBytes(x))
		}
		body, err := proto.Marshal(&env)
		if err != nil || len(body) > 0xffff {
			return nil, ""
		}
		out := make([]byte, 2, 2+len(body))
		binary.BigEndian.PutUint16(out, uint16(len(body)))
		return append(out, body...), fmt.Sprintf("%s: an amount of %d bytes starting with %#x", c.path, n, x[0])
	}
	desc := pbMutate(s, int(uint64(f.Int("mut"))%64), int(uint64(f.Int("val"))%64), r)
	if desc == "" {
		return nil, ""
	}
	body, err := proto.Marshal(&env)
	if err != nil || len(body) > 0xffff {
		return nil, ""
	}
	out := make([]byte, 2, 2+len(body))
	binary.BigEndian.PutUint16(out, uint16(len(body)))
	return append(out, body...), desc
}

// ---- execution ---------------------------------------------------------------------

type faultCase struct {
	t     int
	data  []byte
	label string
	ex    *kernel.Step // explicit single fault for enumerations
	// declared names a dimension field of the encoding that the fault set
	// above its documented limit ("" if none): such an encoding must be rejected
	declared string
	// stall: the bytes are not followed by the end of the stream but by a read
	// deadline that has expired (every further Read reports the timeout)
	stall bool
}

// dimFields are the positions of the dimension fields in the native encodings
// of the value kinds that start with them (all little-endian uint16, limit 1024).
var dimFields = map[string]map[int]string{
	"Allocation":  {0: "numAssets", 2: "numParts", 4: "numLocked"},
	"Balances":    {0: "numAssets", 2: "numParts"},
	"SubAlloc":    {32: "numAssets"},
	"State":       {40: "numAssets", 42: "numParts", 44: "numLocked"},
	"Transaction": {41: "numAssets", 43: "numParts", 45: "numLocked"},
}

func modLen(x int64, n int) int {
	if n <= 0 {
		return 0
	}
	return int(uint64(x) % uint64(n))
}

// expand turns one fault step into concrete byte strings.
func expand(f *kernel.Step, vals []*value) (v *value, cases []faultCase) {
	v = vals[modLen(f.Int("m"), len(vals))]
	t := modLen(f.Int("t"), 3)
	if !v.kind.env {
		t = tNative
	}
	b, ok := v.base(t)
	if !ok {
		return v, nil
	}
	n := len(b.data)
	add := func(t int, d []byte, format string, a ...any) {
		cases = append(cases, faultCase{t: t, data: d, label: fmt.Sprintf(format, a...)})
	}
	switch f.Op {
	case "trunc":
		at := modLen(f.Int("at"), n)
		add(t, b.data[:at], "truncated after %d of %d bytes", at, n)
	case "trunc-enum":
		if n <= truncEnumMax {
			for at := 0; at < n; at++ {
				st := kernel.St("trunc", "m", f.Int("m"), "t", t, "at", at)
				cases = append(cases, faultCase{t: t, data: b.data[:at], label: fmt.Sprintf("truncated after %d of %d bytes", at, n), ex: &st})
			}
		} else {
			r := kernel.NewRand(kernel.Derive(uint64(f.Int("seed")), "trunc"))
			for i := 0; i < 256; i++ {
				at := r.Intn(n)
				st := kernel.St("trunc", "m", f.Int("m"), "t", t, "at", at)
				cases = append(cases, faultCase{t: t, data: b.data[:at], label: fmt.Sprintf("truncated after %d of %d bytes", at, n), ex: &st})
			}
		}
	case "stall":
		at := modLen(f.Int("at"), n)
		cases = append(cases, faultCase{t: t, data: b.data[:at], stall: true, label: fmt.Sprintf("read deadline expired after %d of %d bytes", at, n)})
	case "stall-enum":
		ats := make([]int, 0, 256)
		if n <= truncEnumMax {
			for at := 0; at < n; at++ {
				ats = append(ats, at)
			}
		} else {
			r := kernel.NewRand(kernel.Derive(uint64(f.Int("seed")), "stall"))
			for i := 0; i < 256; i++ {
				ats = append(ats, r.Intn(n))
			}
		}
		for _, at := range ats {
			st := kernel.St("stall", "m", f.Int("m"), "t", t, "at", at)
			cases = append(cases, faultCase{t: t, data: b.data[:at], stall: true, label: fmt.Sprintf("read deadline expired after %d of %d bytes", at, n), ex: &st})
		}
	case "flip":
		if n == 0 {
			return
		}
		d := append([]byte(nil), b.data...)
		var bits []int
		for _, k := range []string{"b0", "b1", "b2"} {
			if f.Has(k) {
				bit := modLen(f.Int(k), n*8)
				d[bit/8] ^= 1 << uint(bit%8)
				bits = append(bits, bit)
			}
		}
		add(t, d, "bits %v flipped", bits)
	case "len":
		fs := b.fields()
		if t == tProto {
			fs = []field{{0, 2}}
		}
		if len(fs) == 0 {
			return
		}
		fl := fs[modLen(f.Int("f"), len(fs))]
		vs := lenValues(fl.width)
		val := vs[modLen(f.Int("v"), len(vs))]
		be := f.Int("be") != 0
		d := append([]byte(nil), b.data...)
		putInt(d[fl.off:fl.off+fl.width], val, be)
		padNote := ""
		if pad := modLen(f.Int("pad"), 1<<16); pad > 0 && t != tProto {
			at := len(d)
			padNote = fmt.Sprintf(", %d zero bytes appended", pad)
			if f.Int("padat") != 0 {
				at = fl.off + fl.width
				padNote = fmt.Sprintf(", %d zero bytes inserted after it", pad)
			}
			d = append(d[:at:at], append(make([]byte, pad), d[at:]...)...)
		}
		add(t, d, "%d-byte field at offset %d (was %x) overwritten with %d (big-endian=%v)%s", fl.width, fl.off, b.data[fl.off:fl.off+fl.width], val, be, padNote)
		if name, ok := dimFields[v.kind.name][fl.off]; ok && fl.width == 2 && binary.LittleEndian.Uint16(d[fl.off:]) > 1024 {
			cases[len(cases)-1].declared = name
		}
	case "splice":
		o := vals[modLen(f.Int("m2"), len(vals))]
		ob, ok := o.base(t)
		if !ok {
			return
		}
		at, at2 := modLen(f.Int("at"), n+1), modLen(f.Int("at2"), len(ob.data)+1)
		d := append(append([]byte(nil), b.data[:at]...), ob.data[at2:]...)
		add(t, d, "first %d bytes spliced with the bytes from offset %d of value %d", at, at2, modLen(f.Int("m2"), len(vals)))
	case "rand":
		r := kernel.NewRand(kernel.Derive(uint64(f.Int("seed")), "rand"))
		add(t, r.Bytes(modLen(f.Int("n"), 1<<16)), "%d random bytes", modLen(f.Int("n"), 1<<16))
	case "randtail":
		r := kernel.NewRand(kernel.Derive(uint64(f.Int("seed")), "tail"))
		at := modLen(f.Int("at"), n+1)
		d := append(append([]byte(nil), b.data[:at]...), r.Bytes(n-at+r.Intn(16))...)
		add(t, d, "random bytes after the first %d", at)
	case "cross":
		if !v.kind.env {
			return
		}
		other := tNative
		if t == tNative {
			other = tProto
		}
		if ob, ok := v.base(other); ok {
			add(t&1, ob.data, "%s bytes fed to the %s decoder", targetNames[other], targetNames[t&1])
		}
	case "pb":
		pb, ok := v.base(tProto)
		if !ok {
			return
		}
		if d, desc := pbFault(pb.data, f); d != nil {
			add(tProto, d, "protobuf message rebuilt with %s", desc)
		}
	}
	return
}

func decoderName(v *value, t int) string {
	if v.kind.env {
		return targetNames[t] + "/" + v.typ.String()
	}
	return v.kind.name
}
