package persist

import (
	"bytes"
	"context"
	"fmt"
	"math/big"
	"sort"
	"strconv"
	"strings"
	"sync"
	"time"

	simwire "perun.network/go-perun/backend/sim/wire"
	"perun.network/go-perun/channel"
	"perun.network/go-perun/channel/persistence"
	"perun.network/go-perun/channel/persistence/keyvalue"
	"perun.network/go-perun/wallet"
	"perun.network/go-perun/wire"
	"perun.network/go-perun/wire/perunio"
	"polycry.pt/poly-go/sortedkv"

	"verif/sim/gen"
	"verif/sim/kernel"
)

const (
	poolPeers   = 6  // wire identities shared by all channels of a run
	maxChans    = 12 // (more than 6 only in the many-channels runs of C11)
	rankBuckets = 6
	// run modes (Config "mode")
	modeCrash    = 0 // C10: enumerate a crash after every write boundary
	modeWriteErr = 1 // C10 relaxed: listed write boundaries fail
	modeViews    = 2 // C11: no faults, all restorer views after every operation
)

type peerMap = map[wallet.BackendID]wire.Address

var regOnce sync.Once

// setup registers the payment app so that persisted parameters and states
// that name it can be decoded again.
func setup() {
	regOnce.Do(func() { channel.RegisterApp(gen.App(gen.AppPayment)) })
}

var (
	poolOnce sync.Once
	poolAddr [2][poolPeers]peerMap
	poolKeys [2][poolPeers]string
	// addrStyle selects the pool of a run (Config "addr_style"): 0 = random
	// bytes; 1 = identities whose bytes spell fragments of the store's own key
	// syntax (a wire address is an arbitrary byte string chosen by the peer)
	addrStyle int
)

// storeSyntax are the fragments the key-value persister builds its keys from.
var storeSyntax = []string{":channel:", "Peer:", ":channel:", ":channel:", "Chan:", "staging:sig:"}

// peerAddr is the k-th wire identity of the run's pool (deterministic bytes).
func peerAddr(k int) peerMap {
	poolOnce.Do(func() {
		for st := range poolAddr {
			fill := func(a *simwire.Address, key ...any) {
				copy(a[:], kernel.NewRand(kernel.Derive(0x9ee7, key...)).Bytes(len(a)))
				if st == 1 {
					// a prefix common to all identities, then a store-syntax
					// fragment, then the distinguishing bytes
					i := key[0].(int)
					pre := []byte("hub-0001") // shared
					frag := []byte(storeSyntax[i%len(storeSyntax)])
					copy(a[:], pre)
					copy(a[len(pre):], frag)
				}
			}
			for i := range poolAddr[st] {
				var a simwire.Address
				fill(&a, i)
				poolAddr[st][i] = peerMap{channel.TestBackendID: &a}
				// every other identity is reachable under several backends (one
				// wire address per backend id)
				for b := 1; i%2 == 1 && b <= 1+i/2; b++ {
					var x simwire.Address
					fill(&x, i, b)
					poolAddr[st][i][wallet.BackendID(b)] = &x
				}
				poolKeys[st][i] = peerKey(poolAddr[st][i])
			}
		}
	})
	return poolAddr[addrStyle][k]
}

func poolKey(k int) string { peerAddr(k); return poolKeys[addrStyle][k] }

// peerKey is the harness's own canonical form of a peer.
func peerKey(p peerMap) string {
	ids := make([]int, 0, len(p))
	for b := range p {
		ids = append(ids, int(b))
	}
	sort.Ints(ids)
	var sb strings.Builder
	for _, b := range ids {
		raw, err := p[wallet.BackendID(b)].MarshalBinary()
		if err != nil {
			raw = []byte("unmarshalable:" + err.Error())
		}
		sb.WriteString(strconv.Itoa(b))
		sb.WriteByte(':')
		sb.Write(raw)
		sb.WriteByte(',')
	}
	return sb.String()
}

// ---- snapshots ---------------------------------------------------------------

const (
	fIdx = iota
	fParams
	fPhase
	fCur
	fCurSigs
	fStaged
	fStagedSigs
	fPeers
	fParent
	nFields
)

var fieldNames = [nFields]string{"index", "params", "phase", "current-state", "current-sigs", "staged-state", "staged-sigs", "peers", "parent"}

// snap is the harness's own encoding of everything the property names:
// participant index, parameters (encoding and ID), phase, current transaction,
// staged state with its exact signature slots, peers and parent. It is built
// from the accessor methods only (never from Clone). Signature slots are
// written sparsely (index=bytes for the non-nil ones), which makes a nil slice
// and a slice of nil signatures equal.
type snap struct {
	f [nFields]string
	// stale is set on restored values only: why a restored staging signature
	// does not belong to the restored staged state.
	stale string
	nsig  int            // filled staging signature slots (for messages only)
	slots map[int]string // filled staging signature slots
}

func stateStr(s *channel.State) string {
	if s == nil {
		return "-"
	}
	return "s" + string(gen.EncodeState(s))
}

func sigsStr(sigs []wallet.Sig) string {
	var sb strings.Builder
	for i, s := range sigs {
		if s != nil {
			sb.WriteString(strconv.Itoa(i))
			sb.WriteByte('=')
			sb.WriteString(strconv.Itoa(len(s)))
			sb.WriteByte(':')
			sb.Write(s)
			sb.WriteByte(',')
		}
	}
	return sb.String()
}

func snapOf(src channel.Source, peers []peerMap, parent *channel.ID) *snap {
	s := &snap{}
	s.f[fIdx] = strconv.Itoa(int(src.Idx()))
	var b bytes.Buffer
	p := src.Params()
	if err := perunio.Encode(&b, p); err != nil {
		b.WriteString("unencodable:" + err.Error())
	}
	pid, id := p.ID(), src.ID()
	b.WriteByte('#')
	b.Write(pid[:])
	b.WriteByte('#')
	b.Write(id[:])
	s.f[fParams] = b.String()
	s.f[fPhase] = strconv.Itoa(int(src.Phase()))
	cur, st := src.CurrentTX(), src.StagingTX()
	s.f[fCur], s.f[fCurSigs] = stateStr(cur.State), sigsStr(cur.Sigs)
	s.f[fStaged], s.f[fStagedSigs] = stateStr(st.State), sigsStr(st.Sigs)
	for i, sig := range st.Sigs {
		if sig != nil {
			s.nsig++
			if s.slots == nil {
				s.slots = map[int]string{}
			}
			s.slots[i] = string(sig)
		}
	}
	var sb strings.Builder
	for _, pm := range peers {
		sb.WriteString(peerKey(pm))
		sb.WriteString(";")
	}
	s.f[fPeers] = sb.String()
	if parent == nil {
		s.f[fParent] = "-"
	} else {
		s.f[fParent] = "p" + string(parent[:])
	}
	return s
}

func (s *snap) bytes() []byte {
	if s == nil {
		return []byte("absent")
	}
	return []byte(strings.Join(s.f[:], "|"))
}

func sameSnap(a, b *snap) bool {
	if a == nil || b == nil {
		return a == nil && b == nil
	}
	return a.f == b.f
}

// extraStagingSig reports whether got equals want except that it carries
// staging signatures in slots that are empty in want: signatures that were
// not collected for the staged state the machine has (the property: "staged
// state with exactly the signatures collected for it").
func extraStagingSig(got, want *snap) (slot int, yes bool) {
	if got == nil || want == nil {
		return 0, false
	}
	for i := 0; i < nFields; i++ {
		if i != fStagedSigs && got.f[i] != want.f[i] {
			return 0, false
		}
	}
	slot = -1
	for i, sig := range want.slots {
		if got.slots[i] != sig {
			return 0, false
		}
	}
	for i := range got.slots {
		if _, ok := want.slots[i]; !ok && (slot < 0 || i < slot) {
			slot = i
		}
	}
	return slot, slot >= 0
}

// diffNames lists the fields in which two snapshots differ.
func diffNames(got, want *snap) string {
	switch {
	case got == nil && want == nil:
		return "none"
	case got == nil:
		return "channel absent"
	case want == nil:
		return "channel present"
	}
	var d []string
	for i := 0; i < nFields; i++ {
		if got.f[i] != want.f[i] {
			d = append(d, fieldNames[i])
		}
	}
	if len(d) == 0 {
		return "none"
	}
	return strings.Join(d, ",")
}

func phaseName(p channel.Phase) string {
	if int(p) > channel.LastPhase {
		return fmt.Sprintf("Phase(%d)", p)
	}
	return p.String()
}

func (s *snap) brief() string {
	if s == nil {
		return "absent"
	}
	ph, _ := strconv.Atoi(s.f[fPhase])
	return fmt.Sprintf("{%s staged=%v sigs=%d cur=%v}", phaseName(channel.Phase(ph)), s.f[fStaged] != "-", s.nsig, s.f[fCur] != "-")
}

// ---- world -------------------------------------------------------------------

// chn is one channel of a run: the real machine, its persisting wrapper once
// it has been created in the store, and the reference knowledge about it.
type chn struct {
	i           int
	n, own, app int
	accs        []*gen.Acc
	params      *channel.Params
	id          channel.ID
	m           *channel.StateMachine
	psm         persistence.StateMachine

	created bool // ChannelCreated was called (from then on operations persist)
	removed bool // SetWithdrawn removed it from the store
	dead    bool // a write failed during an operation: store and machine diverged, no further operations
	peers   []peerMap
	pkeys   map[string]bool
	parent  *channel.ID
	ref     *snap // reference snapshot while created && !removed

	prevStaged *channel.State // last state that was staged before the current one
	discSigned bool           // the last discard dropped a state that had signatures
}

func (c *chn) live() bool { return c.created && !c.removed && !c.dead }

func (c *chn) lists(p peerMap) bool { return c.pkeys[peerKey(p)] }

type world struct {
	prop  string
	store int
	mode  int
	check bool // false while generating
	res   *kernel.Result
	trace bool
	step  int
	ctx   context.Context
	// doneCtx>0: every doneCtx-th operation is called with a context that is already done
	doneCtx int
	// iterPM>0 (C11): per mille of the steps around which a RestoreAll iteration is left open
	iterPM int
	onPrim func(c *chn)

	inner   sortedkv.Database
	fdb     *FaultDB
	pr      *keyvalue.PersistRestorer
	cleanup func()
	chs     []*chn
	byID    map[channel.ID]*chn

	// current operation
	opImages  []image // durable image after each boundary of the running operation
	opFailed  bool    // an injected write error fired during the running operation
	curImage  image   // image after the last completed operation (crash / write-error modes)
	lastBytes map[int][]byte

	// statistics
	removals    int
	sharedPeer  bool
	insideMulti bool
	opBounds    [][2]int // (first, last) boundary of every persisted operation, for the generator
	verified    map[[3]uint64]bool
}

func chanCfg(sc *kernel.Scenario, i int, k string, def int64) int64 {
	return sc.Cfg(fmt.Sprintf("c%d.%s", i, k), def)
}

// newWorld builds stores, machines and channel identities from the scenario's
// configuration. Channel IDs are made to sort in the order given by the
// configured ranks (by searching the nonce), so that the key order in the
// store is a function of the scenario although key material is random per
// process.
func newWorld(sc *kernel.Scenario, res *kernel.Result, trace, check bool) *world {
	setup()
	addrStyle = int(sc.Cfg("addr_style", 0)) & 1
	if addrStyle == 1 {
		res.Count("probe.store-syntax-in-addresses", 1)
	}
	w := &world{prop: sc.Property, store: int(sc.Cfg("store", storeMem)), mode: int(sc.Cfg("mode", modeCrash)),
		check: check, res: res, trace: trace, ctx: context.Background(), byID: map[channel.ID]*chn{}, lastBytes: map[int][]byte{}, verified: map[[3]uint64]bool{}}
	if w.store != storeLDB {
		w.store = storeMem
	}
	w.doneCtx = int(sc.Cfg("done_ctx", 0))
	w.iterPM = int(sc.Cfg("iter_pm", 0))
	w.inner, w.cleanup = newLiveStore(w.store)
	w.fdb = &FaultDB{inner: w.inner, failAt: map[int]struct{}{}}
	if w.mode == modeWriteErr {
		for _, f := range sc.Faults {
			if f.Op == "write-error" && f.Int("at") > 0 {
				w.fdb.failAt[int(f.Int("at"))] = struct{}{}
			}
		}
	}
	w.fdb.hook = func(k int, failed bool) {
		if failed {
			w.opFailed = true
			return
		}
		if w.check && w.mode == modeCrash {
			w.opImages = append(w.opImages, dump(w.inner))
		}
	}
	w.pr = keyvalue.NewPersistRestorer(w.fdb)
	nch := int(sc.Cfg("nch", 1))
	if nch < 1 {
		nch = 1
	}
	if nch > maxChans {
		nch = maxChans
	}
	for i := 0; i < nch; i++ {
		c := &chn{i: i, n: int(chanCfg(sc, i, "n", 2)), own: int(chanCfg(sc, i, "own", 0)), app: int(chanCfg(sc, i, "app", 0))}
		if c.n < 2 || c.n > 70 {
			c.n = 2
		}
		if c.own < 0 || c.own >= c.n {
			c.own = 0
		}
		if c.app != gen.AppPayment {
			c.app = gen.AppNone
		}
		c.accs = gen.Pool(c.n)
		rank := int(chanCfg(sc, i, "rank", int64(i))) % rankBuckets
		if rank < 0 {
			rank = 0
		}
		virtual := chanCfg(sc, i, "virtual", 0) != 0
		base := uint64(i)*1_000_000 + uint64(chanCfg(sc, i, "nonce", 0))%1000*1000
		for k := uint64(0); ; k++ {
			c.params = gen.Params(c.accs, uint64(chanCfg(sc, i, "challenge", 60)), c.app, base+k, !virtual, virtual)
			c.id = c.params.ID()
			if int(c.id[0])*rankBuckets/256 == rank || k > 5000 {
				break
			}
		}
		m, err := channel.NewStateMachine(c.accs[c.own].AccMap, *c.params)
		if err != nil {
			panic(fmt.Sprintf("persist harness: NewStateMachine: %v", err))
		}
		c.m = m
		w.chs = append(w.chs, c)
		w.byID[c.id] = c
	}
	if check && w.mode != modeViews {
		w.curImage = dump(w.inner)
	}
	return w
}

func (w *world) close() { w.cleanup() }

func (w *world) logf(format string, a ...any) {
	if w.trace {
		w.res.Trace = append(w.res.Trace, fmt.Sprintf("%d: ", w.step)+fmt.Sprintf(format, a...))
	}
}

func (w *world) fail(check, format string, a ...any) {
	if w.res.Violation != nil {
		return
	}
	w.res.Fail(w.step, check, format, a...)
	if w.trace {
		w.res.Trace = append(w.res.Trace, fmt.Sprintf("%d: VIOLATION %s: %s", w.step, check, fmt.Sprintf(format, a...)))
	}
}

// method names the Persister method an operation ends in.
func method(op string) string {
	switch op {
	case "create":
		return "ChannelCreated"
	case "set-withdrawn":
		return "ChannelRemoved"
	case "init", "update", "force", "discard", "set-progressing":
		return "Staged"
	case "sig", "addsig":
		return "SigAdded"
	case "enable-init", "enable-update", "enable-final", "set-progressed":
		return "Enabled"
	}
	return "PhaseChanged"
}

// ---- operations --------------------------------------------------------------

func guard(f func() error) (err error, pan any) {
	defer func() {
		if r := recover(); r != nil {
			pan = r
		}
	}()
	return f(), nil
}

// candidate derives the state an update-like operation offers.
func (c *chn) candidate(st *kernel.Step, key string, final, bad bool) (*channel.State, channel.Index) {
	r := kernel.NewRand(kernel.Derive(uint64(st.Int("r")), key))
	cur := c.m.CurrentTX().State
	if cur == nil || !gen.WellFormed(&cur.Allocation) || len(cur.Balances[0]) != c.n {
		return &channel.State{ID: c.id, App: c.params.App, Version: 1, IsFinal: final,
			Allocation: gen.Allocation(r, gen.RandShape(r, c.n)), Data: channel.NoData()}, 0
	}
	su := gen.ValidSuccessor(r, cur, c.n, c.app, final)
	if bad {
		su.State.Version++
	}
	return su.State, su.Actor
}

// reversion gives a state that the machine takes without validation the
// version the step asks for (absent: the successor's).
func (w *world) reversion(c *chn, s *channel.State, st *kernel.Step) {
	cur := c.m.CurrentTX().State
	if cur == nil {
		return
	}
	switch st.Str("ver") {
	case "same":
		s.Version = cur.Version
	case "lower":
		if cur.Version == 0 {
			return
		}
		s.Version = cur.Version - 1
	case "higher":
		s.Version = cur.Version + 5
	default:
		return
	}
	w.res.Count("probe.unvalidated-state-version-"+st.Str("ver"), 1)
}

// exec runs one primitive operation against the bare machine (before the
// channel was created in the store) or the persisting machine (afterwards).
// applicable=false means the step does not apply here and was skipped.
func (w *world) exec(c *chn, op string, st *kernel.Step) (err error, pan any, applicable bool) {
	ctx := w.ctx
	if n := w.doneCtx; n > 0 && w.check && w.step%n == n-1 {
		dctx, cancel := context.WithCancel(w.ctx)
		if w.step%2 == 0 {
			dctx, cancel = context.WithDeadline(w.ctx, time.Unix(1, 0))
		}
		cancel()
		ctx = dctx
		w.res.Count("fault.caller-context-already-done", 1)
	}
	pers := c.created
	run := func(bare, persisted func() error) {
		if pers {
			err, pan = guard(persisted)
		} else {
			err, pan = guard(bare)
		}
	}
	applicable = true
	switch op {
	case "create":
		if c.created {
			return nil, nil, false
		}
		np := int(st.Int("np"))
		if np < 1 {
			np = 2
		}
		if np > 4 {
			np = 4
		}
		seen := map[int]bool{}
		c.peers, c.pkeys = nil, map[string]bool{}
		for k := 0; k < np; k++ {
			pi := int(st.Int("p"+strconv.Itoa(k))) % poolPeers
			if pi < 0 {
				pi = -pi
			}
			for seen[pi] {
				pi = (pi + 1) % poolPeers
			}
			seen[pi] = true
			c.peers = append(c.peers, peerAddr(pi))
			c.pkeys[poolKey(pi)] = true
		}
		c.parent = nil
		if pa := int(st.Int("parent")); st.Has("parent") && pa >= 0 {
			var id channel.ID
			if pa < len(w.chs) && pa != c.i {
				id = w.chs[pa].id
			} else {
				id = gen.SubID(uint64(pa))
			}
			c.parent = &id
		}
		err, pan = guard(func() error { return w.pr.ChannelCreated(ctx, c.m, c.peers, c.parent) })
	case "init":
		r := kernel.NewRand(kernel.Derive(uint64(st.Int("r")), "init"))
		alloc := gen.Allocation(r, gen.RandShape(r, c.n))
		if st.Str("kind") == "bad" {
			alloc.Balances[0][0] = big.NewInt(-1)
		}
		run(func() error { return c.m.Init(alloc, channel.NoData()) },
			func() error { return c.psm.Init(ctx, alloc, channel.NoData()) })
	case "update":
		s, actor := c.candidate(st, "cand", st.Str("kind") == "final", st.Str("kind") == "bad")
		run(func() error { return c.m.Update(s, actor) }, func() error { return c.psm.Update(ctx, s, actor) })
	case "force":
		if c.m.CurrentTX().State == nil {
			return nil, nil, false
		}
		s, actor := c.candidate(st, "cand", st.Str("kind") == "final", false)
		w.reversion(c, s, st)
		run(func() error { return c.m.ForceUpdate(s, actor) }, func() error { return c.psm.ForceUpdate(ctx, s, actor) })
	case "sig":
		run(func() error { _, e := c.m.Sig(); return e }, func() error { _, e := c.psm.Sig(ctx); return e })
	case "addsig":
		idx := int(st.Int("idx")) % c.n
		if idx < 0 {
			idx = 0
		}
		staged := c.m.StagingState()
		r := kernel.NewRand(kernel.Derive(uint64(st.Int("r")), "addsig"))
		var sig wallet.Sig
		switch kind := st.Str("kind"); {
		case staged == nil:
			sig = r.Bytes(64)
		case kind == "wrong-signer":
			sig, _ = channel.Sign(c.accs[(idx+1)%c.n].Acc, staged, channel.TestBackendID)
		case kind == "stale" && c.prevStaged != nil:
			sig, _ = channel.Sign(c.accs[idx].Acc, c.prevStaged, channel.TestBackendID)
		case kind == "random":
			sig = r.Bytes(64)
		default:
			sig, _ = channel.Sign(c.accs[idx].Acc, staged, channel.TestBackendID)
		}
		if sig == nil {
			sig = r.Bytes(64)
		}
		run(func() error { return c.m.AddSig(channel.Index(idx), sig) },
			func() error { return c.psm.AddSig(ctx, channel.Index(idx), sig) })
	case "enable-init":
		run(c.m.EnableInit, func() error { return c.psm.EnableInit(ctx) })
	case "enable-update":
		run(c.m.EnableUpdate, func() error { return c.psm.EnableUpdate(ctx) })
	case "enable-final":
		run(c.m.EnableFinal, func() error { return c.psm.EnableFinal(ctx) })
	case "discard":
		run(c.m.DiscardUpdate, func() error { return c.psm.DiscardUpdate(ctx) })
	case "set-funded":
		run(c.m.SetFunded, func() error { return c.psm.SetFunded(ctx) })
	case "set-registering":
		run(c.m.SetRegistering, func() error { return c.psm.SetRegistering(ctx) })
	case "set-registered":
		run(c.m.SetRegistered, func() error { return c.psm.SetRegistered(ctx) })
	case "set-withdrawing":
		run(c.m.SetWithdrawing, func() error { return c.psm.SetWithdrawing(ctx) })
	case "set-withdrawn":
		run(c.m.SetWithdrawn, func() error { return c.psm.SetWithdrawn(ctx) })
	case "set-progressing":
		s, _ := c.candidate(st, "prog", false, false)
		w.reversion(c, s, st)
		run(func() error { return c.m.SetProgressing(s) }, func() error { return c.psm.SetProgressing(ctx, s) })
	case "set-progressed":
		s, _ := c.candidate(st, "prog", false, false)
		w.reversion(c, s, st)
		ev := channel.NewProgressedEvent(c.id, &channel.ElapsedTimeout{}, s, 0)
		run(func() error { return c.m.SetProgressed(ev) }, func() error { return c.psm.SetProgressed(ctx, ev) })
	default:
		return nil, nil, false
	}
	return err, pan, true
}

func sigMask(tx channel.Transaction) int {
	mask := 0
	for i, s := range tx.Sigs {
		if s != nil {
			mask |= 1 << i
		}
	}
	return mask
}

// prim executes one primitive operation on channel c and evaluates the
// property's checks for it.
func (w *world) prim(c *chn, op string, st *kernel.Step) {
	if w.res.Violation != nil {
		return
	}
	if w.onPrim != nil {
		defer w.onPrim(c)
	}
	if c.removed || c.dead {
		w.logf("ch%d %s skipped (channel %s)", c.i, op, map[bool]string{true: "removed", false: "abandoned after a failed write"}[c.removed])
		return
	}
	wasCreated := c.created
	before := c.ref
	phaseBefore := c.m.Phase()
	stagedBefore := c.m.StagingState()
	maskBefore := sigMask(c.m.StagingTX())
	b0 := w.fdb.n
	w.opImages, w.opFailed = w.opImages[:0], false

	if st != nil && st.Int("failw") > 0 && w.mode == modeViews {
		// C11 under a write error: the failw-th write of this removal fails; the
		// channel is then half removed ("dead": neither live nor removed)
		w.fdb.failRel = int(st.Int("failw"))
	}
	err, pan, applicable := w.exec(c, op, st)
	w.fdb.failRel = 0
	if !applicable {
		w.logf("ch%d %s skipped (not applicable)", c.i, op)
		return
	}
	kernel.Progress()
	w.res.Count("op."+op, 1)
	b1 := w.fdb.n
	if pan != nil {
		w.logf("ch%d %s panicked: %v", c.i, op, pan)
		w.fail(w.prop+".panic@"+op, "%s on channel %d panicked: %v", op, c.i, pan)
		return
	}

	// bookkeeping for probes (observations of the real machine only)
	if staged := c.m.StagingState(); staged != stagedBefore {
		if stagedBefore != nil {
			c.prevStaged = stagedBefore
		}
		if staged != nil && (op == "update" || op == "force" || op == "set-progressing") && wasCreated {
			if c.discSigned {
				w.res.Count("probe.restage-after-signed-discard", 1)
			}
			if maskBefore != 0 && stagedBefore != nil {
				w.res.Count("probe.restage-over-signed", 1)
			}
		}
		c.discSigned = false
	}
	if op == "discard" && err == nil && wasCreated {
		c.discSigned = maskBefore != 0
		if c.discSigned {
			w.res.Count("probe.discard-after-sign", 1)
		}
	}
	if err != nil && !w.opFailed {
		w.res.Count("probe.refused-op", 1)
	}

	// reference after the operation
	var after *snap
	switch {
	case op == "create":
		after = snapOf(c.m, c.peers, c.parent)
		c.created = true
		c.psm = persistence.FromStateMachine(c.m, w.pr)
		if !wasCreated && c.m.Phase() != channel.InitActing {
			w.res.Count("probe.late-create", 1)
		}
		if c.parent != nil {
			w.res.Count("probe.create-with-parent", 1)
		}
	case !wasCreated:
		// bare operation before creation: nothing is persisted, nothing to check
		w.logf("ch%d %s (not yet created) -> %v, phase %v", c.i, op, err, c.m.Phase())
		return
	case op == "set-withdrawn" && phaseBefore == channel.Withdrawing && c.m.Phase() == channel.Withdrawn:
		after = nil
	default:
		after = snapOf(c.m, c.peers, c.parent)
	}
	w.opBounds = append(w.opBounds, [2]int{b0 + 1, b1})
	if b1-b0 >= 2 {
		w.res.Count("probe.multi-write-op", 1)
	}
	w.logf("ch%d %s -> err=%v, writes %d..%d, %s => %s", c.i, op, err, b0+1, b1, before.brief(), after.brief())

	if w.opFailed {
		w.res.Count("fault.write-error", 1)
	}
	if w.check {
		switch w.mode {
		case modeCrash:
			w.checkCrashPoints(c, op, err, before, after, b0, b1)
		case modeWriteErr:
			w.checkAfterWriteErr(c, op, before, after, err)
			if w.opFailed && w.res.Violation == nil && c.created && op != "create" && op != "close" {
				// the caller repeats the call that failed. Most operations are then
				// refused by the machine (it has moved on in memory); the idempotent
				// ones (Sig, the phase setters that allow a self-transition, a forced
				// update) go through - and once the repeated call returns nil the
				// operation has completed: the store must hold exactly the live state
				rerr, rpan, _ := w.exec(c, op, st)
				w.res.Count("probe.op-repeated-after-write-error", 1)
				if rpan == nil && rerr == nil {
					w.res.Count("probe.repeated-op-succeeded@"+op, 1)
					live := snapOf(c.m, c.peers, c.parent)
					w.checkImage(c, op+" (repeated after a write error)", dump(w.inner), live, live, true, 0, 0)
					if w.res.Violation == nil {
						// healed: the channel carries on
						w.opFailed = false
						after = live
						w.curImage = dump(w.inner)
					}
				}
			}
		case modeViews:
			// reference first: the views are compared with the state after the operation
			if w.opFailed && err == nil && pan == nil {
				// a store write failed, yet the operation reported success: it has
				// completed, and the views must show its result
				w.res.Count("probe.op-succeeded-despite-write-error", 1)
				w.opFailed = false
			}
			if w.opFailed {
				// an injected write error interrupted the operation: the channel is
				// abandoned; every other channel must be unaffected
				c.dead, c.ref = true, nil
				w.res.Count("probe.half-"+map[bool]string{true: "created", false: "removed"}[op == "create"], 1)
			} else {
				c.ref = after
				if after == nil {
					c.removed = true
				}
			}
			w.checkViews(c, op)
		}
	}
	// commit the reference
	if w.opFailed {
		c.dead = true
		c.ref = nil
		return
	}
	c.ref = after
	if after == nil && !c.removed {
		c.removed = true
	}
	if after == nil {
		w.removals++
		w.res.Count("probe.removed", 1)
		if c.parent != nil {
			w.res.Count("probe.removed-with-parent", 1)
		}
	}
	st2 := c.m.StagingTX()
	w.res.States = append(w.res.States, kernel.Derive(5, int(c.m.Phase()), sigMask(st2), b2i(st2.State != nil),
		b2i(c.m.CurrentTX().State != nil), b2i(c.parent != nil), b2i(c.removed), c.n))
	w.noteSharing()
}

func b2i(b bool) int {
	if b {
		return 1
	}
	return 0
}

func (w *world) noteSharing() {
	if w.sharedPeer {
		return
	}
	seen := map[string]int{}
	for _, c := range w.chs {
		if !c.live() {
			continue
		}
		for _, p := range c.peers {
			k := peerKey(p)
			if _, ok := seen[k]; ok {
				w.sharedPeer = true
				w.res.Count("probe.shared-peer", 1)
				return
			}
		}
		for _, p := range c.peers {
			seen[peerKey(p)] = c.i
		}
	}
}

// do executes one scenario step: a primitive operation or a composite that
// expands, from the machine's actual state, into primitive operations (each of
// which is checked on its own).
func (w *world) do(st *kernel.Step) {
	ci := int(st.Int("ch"))
	if ci < 0 || ci >= len(w.chs) {
		w.logf("%s skipped (no channel %d)", st.Op, ci)
		return
	}
	c := w.chs[ci]
	sub := func(op string, kv ...any) {
		s := kernel.St(op, kv...)
		w.prim(c, op, &s)
	}
	signing := func() bool {
		ph := c.m.Phase()
		return (ph == channel.InitSigning || ph == channel.Signing) && c.m.StagingState() != nil
	}
	advance := func() {
		if !signing() {
			return
		}
		for i := 0; i < c.n; i++ {
			if sigs := c.m.StagingTX().Sigs; i < len(sigs) && sigs[i] != nil {
				continue
			}
			if i == c.own {
				sub("sig")
			} else {
				sub("addsig", "idx", i, "kind", "correct")
			}
		}
		switch {
		case c.m.Phase() == channel.InitSigning:
			sub("enable-init")
			sub("set-funded")
		case c.m.StagingState() != nil && c.m.StagingState().IsFinal:
			sub("enable-final")
		default:
			sub("enable-update")
		}
	}
	switch st.Op {
	case "recreate":
		// the removed channel is opened again with the same parameters (hence
		// the same ID): a new machine, and new peers and parent from the step
		if !c.removed || c.dead {
			w.logf("ch%d recreate skipped (not removed)", c.i)
			return
		}
		m, err := channel.NewStateMachine(c.accs[c.own].AccMap, *c.params)
		if err != nil {
			panic(fmt.Sprintf("persist harness: NewStateMachine: %v", err))
		}
		c.m, c.psm = m, persistence.StateMachine{}
		c.created, c.removed, c.ref, c.prevStaged, c.discSigned = false, false, nil, nil, false
		delete(w.lastBytes, c.i)
		w.res.Count("probe.channel-created-again-after-removal", 1)
		w.prim(c, "create", st)
	case "advance":
		advance()
	case "open":
		if c.m.Phase() == channel.InitActing {
			sub("init", "r", st.Int("r"))
		}
		advance()
	case "close":
		ph := c.m.Phase()
		if ph < channel.Funding {
			w.logf("ch%d close skipped (phase %v)", c.i, ph)
			return
		}
		if ph != channel.Final && ph != channel.Registered && ph != channel.Progressed && ph != channel.Withdrawing {
			sub("set-registered")
		}
		if c.m.Phase() != channel.Withdrawing {
			sub("set-withdrawing")
		}
		sub("set-withdrawn", "failw", st.Int("failw"))
	default:
		w.prim(c, st.Op, st)
	}
}

// interleaved runs one step of the history while a RestoreAll iteration is
// under way: the iterator is opened, a drawn number of channels is taken from
// it, the step runs, the rest is taken. Operations on one channel must not
// change what is restored for another: every channel that was live when the
// iterator was opened and still is must come out exactly once, with the data
// it had at the opening or has now (the step's own channel: with the data it
// had after any operation of the step); nothing comes out twice; the
// iteration ends without an error. Nothing is judged when a write failure
// has left a half-removed channel behind.
func (w *world) interleaved(st *kernel.Step) {
	anyDead := func() bool {
		for _, y := range w.chs {
			if y.dead {
				return true
			}
		}
		return false
	}
	if anyDead() || !w.check {
		w.do(st)
		return
	}
	okRefs, liveAtOpen := map[channel.ID][]*snap{}, map[channel.ID]bool{}
	nOpen := 0
	for _, y := range w.chs {
		if y.live() {
			okRefs[y.id], liveAtOpen[y.id] = []*snap{y.ref}, true
			nOpen++
		}
	}
	var it persistence.ChannelIterator
	if err, pan := guard(func() (e error) { it, e = w.pr.RestoreAll(); return }); pan != nil || err != nil || it == nil {
		w.fail("C11.restoreall-error", "RestoreAll could not be opened before %s: %v %v", st.Op, err, pan)
		return
	}
	seen := map[channel.ID]*snap{}
	var order []channel.ID
	exhausted, dup := false, false
	take := func(max int) (pan any) {
		defer func() {
			if r := recover(); r != nil {
				pan = r
			}
		}()
		for n := 0; n < max && !exhausted; n++ {
			if !it.Next(w.ctx) {
				exhausted = true
				break
			}
			ch := it.Channel()
			sn, p := w.restoredSnap(ch)
			if p != nil {
				return p
			}
			id := ch.ID()
			if _, ok := seen[id]; ok {
				dup = true
			}
			seen[id] = sn
			order = append(order, id)
		}
		return nil
	}
	k := int(kernel.Derive(uint64(w.step), "iter-take", int64(nOpen)) % uint64(nOpen+1))
	pan := take(k)
	w.onPrim = func(c *chn) {
		if c.ref != nil {
			okRefs[c.id] = append(okRefs[c.id], c.ref)
		}
	}
	w.do(st)
	w.onPrim = nil
	if pan == nil {
		pan = take(64)
	}
	var cerr error
	if _, p := guard(func() error { cerr = it.Close(); return nil }); p != nil && pan == nil {
		pan = p
	}
	w.res.Count("fault.restoreall-iteration-interleaved-with-step", 1)
	w.res.Evals++
	if w.res.Violation != nil || anyDead() {
		return
	}
	what := fmt.Sprintf("a RestoreAll iteration was opened over %d live channels, %d channels were taken, then %s ran on channel %d, then the rest was taken", nOpen, k, st.Op, st.Int("ch"))
	switch {
	case pan != nil:
		w.fail("C11.panic@restore", "%s: panic: %v", what, pan)
		return
	case dup:
		w.fail("C11.restoreall-interleaved@duplicate", "%s: a channel came out twice", what)
		return
	case cerr != nil:
		w.fail("C11.restoreall-interleaved@error", "%s: the iteration ended with an error: %v (%d channels came out)", what, cerr, len(order))
		return
	}
	for _, id := range order {
		y := w.byID[id]
		if y == nil {
			w.fail("C11.restoreall-interleaved@unknown-channel", "%s: a channel came out that was never created", what)
			return
		}
		got, ok := seen[id], false
		for _, r := range okRefs[id] {
			ok = ok || (got.stale == "" && got.f == r.f)
		}
		if !ok {
			ref := y.ref
			if ref == nil && len(okRefs[id]) > 0 {
				ref = okRefs[id][0]
			}
			d := ""
			if ref != nil {
				d = diffNames(got, ref)
			}
			w.fail("C11.restoreall-interleaved@mismatch", "%s: channel %d came out with data it had neither when the iterator was opened nor after any operation since (differs from its state in [%s]) %s", what, y.i, d, got.stale)
			return
		}
	}
	for _, y := range w.chs {
		if liveAtOpen[y.id] && y.live() {
			if _, ok := seen[y.id]; !ok {
				w.fail("C11.restoreall-interleaved@missing", "%s: live channel %d did not come out (%d of %d did)", what, y.i, len(order), nOpen)
				return
			}
		}
	}
}

// ---- restoring ---------------------------------------------------------------

// restoredSnap is the snapshot of a restored channel, including the explicit
// check that every restored staging signature verifies for the restored
// staged state under the key of the participant whose slot it is in.
func (w *world) restoredSnap(ch *persistence.Channel) (s *snap, pan any) {
	defer func() {
		if r := recover(); r != nil {
			s, pan = nil, r
		}
	}()
	s = snapOf(ch, ch.PeersV, ch.Parent)
	c := w.byID[ch.ID()]
	tx := ch.StagingTX()
	for i, sig := range tx.Sigs {
		if sig == nil {
			continue
		}
		switch {
		case tx.State == nil:
			s.stale = fmt.Sprintf("signature slot %d is filled although no state is staged", i)
		case c == nil || i >= c.n:
			s.stale = fmt.Sprintf("signature slot %d does not belong to a participant", i)
		default:
			// (participant, state encoding, signature bytes) -> verdict, memoised per run
			key := [3]uint64{uint64(c.i)<<8 | uint64(i), kernel.HashString(s.f[fStaged]), kernel.HashBytes(sig)}
			good, known := w.verified[key]
			if !known {
				ok, err := channel.Verify(c.accs[i].Addr[channel.TestBackendID], tx.State, sig)
				good = err == nil && ok
				w.verified[key] = good
			}
			if !good {
				s.stale = fmt.Sprintf("signature in slot %d does not verify for the restored staged state (version %d)", i, tx.State.Version)
			}
		}
		if s.stale != "" {
			break
		}
	}
	return s, nil
}

type viewResult struct {
	s   *snap
	err error
	pan any
}

func (w *world) restoreChannel(pr *keyvalue.PersistRestorer, id channel.ID) (v viewResult) {
	defer func() {
		if r := recover(); r != nil {
			v = viewResult{pan: r}
		}
	}()
	ch, err := pr.RestoreChannel(w.ctx, id)
	if err != nil || ch == nil {
		if err == nil {
			err = fmt.Errorf("RestoreChannel returned neither a channel nor an error")
		}
		return viewResult{err: err}
	}
	s, pan := w.restoredSnap(ch)
	return viewResult{s: s, pan: pan}
}

type listResult struct {
	ids   []channel.ID
	snaps map[channel.ID]*snap
	dup   bool
	err   error
	pan   any
}

func (w *world) drain(open func() (persistence.ChannelIterator, error)) (l listResult) {
	l.snaps = map[channel.ID]*snap{}
	defer func() {
		if r := recover(); r != nil {
			l.pan = r
		}
	}()
	it, err := open()
	if err != nil {
		l.err = err
		return l
	}
	for n := 0; it.Next(w.ctx) && n < 64; n++ {
		ch := it.Channel()
		s, pan := w.restoredSnap(ch)
		if pan != nil {
			l.pan = pan
			break
		}
		id := ch.ID()
		if _, ok := l.snaps[id]; ok {
			l.dup = true
		}
		l.ids = append(l.ids, id)
		l.snaps[id] = s
	}
	l.err = it.Close()
	return l
}

func (w *world) restorePeer(pr *keyvalue.PersistRestorer, p peerMap) listResult {
	return w.drain(func() (persistence.ChannelIterator, error) { return pr.RestorePeer(p) })
}

func (w *world) restoreAll(pr *keyvalue.PersistRestorer) listResult {
	return w.drain(pr.RestoreAll)
}

func chanPrefix(id channel.ID) string { return "Chan:" + string(id[:]) }

func hasChanKeys(img image, id channel.ID) bool {
	p := chanPrefix(id)
	for k := range img {
		if strings.HasPrefix(k, p) {
			return true
		}
	}
	return false
}

// ---- C10 -----------------------------------------------------------------------

// checkCrashPoints enumerates a crash after every write boundary of the
// operation that just ran.
func (w *world) checkCrashPoints(c *chn, op string, err error, before, after *snap, b0, b1 int) {
	nb := b1 - b0
	if len(w.opImages) != nb {
		panic(fmt.Sprintf("persist harness: %d images for %d boundaries", len(w.opImages), nb))
	}
	if nb == 0 {
		// No write. Then the store still describes the state before the
		// operation, which must be the state after it as well.
		if !sameSnap(before, after) {
			w.checkImage(c, op, w.curImage, before, after, true, 0, 0)
		}
		return
	}
	if err != nil && !w.curImage.equal(w.opImages[nb-1]) {
		w.fail("C10.refused-op-wrote@"+op, "%s on channel %d returned an error (%v) but changed the store (%d write boundaries)", op, c.i, err, nb)
		return
	}
	for k := 1; k <= nb && w.res.Violation == nil; k++ {
		w.res.Count("fault.crash", 1)
		if k < nb {
			w.insideMulti = true
			w.res.Count("probe.crash-inside-operation", 1)
		}
		w.checkImage(c, op, w.opImages[k-1], before, after, k == nb, k, nb)
	}
	if w.res.Violation == nil {
		w.logf("  crash after each of the writes %d..%d: RestoreChannel and RestorePeer yield the state before or after %s (after it at write %d); other live channels unchanged", b0+1, b1, op, b1)
	}
	w.curImage = w.opImages[nb-1]
}

// checkAfterWriteErr is the relaxed configuration: after an operation hit by
// an injected write error, restoring must not yield a mixture.
func (w *world) checkAfterWriteErr(c *chn, op string, before, after *snap, err error) {
	img := dump(w.inner)
	if w.opFailed && err == nil {
		// a store write failed and the operation nevertheless reported success:
		// it has completed, so only its result may be restored
		w.res.Count("probe.op-succeeded-despite-write-error", 1)
		w.checkImage(c, op+" (which returned nil although a store write failed)", img, after, after, true, 0, 0)
	} else if w.opFailed {
		w.checkImage(c, op, img, before, after, false, -1, -1)
	} else if !sameSnap(before, after) || !img.equal(w.curImage) {
		w.checkImage(c, op, img, before, after, true, 0, 0)
	}
	w.curImage = img
}

// residueOf reports whether img holds keys under the prefix of a channel that
// was removed, is being removed, or was abandoned in the middle of a removal.
func (w *world) residueOf(img image, removing *chn) string {
	for _, y := range w.chs {
		if !(y.removed || y == removing || (y.dead && y.m.Phase() == channel.Withdrawn)) || !y.created {
			continue
		}
		p := chanPrefix(y.id) + ":"
		for _, k := range img.keys() {
			if strings.HasPrefix(k, p) {
				return fmt.Sprintf("channel %d left key %q", y.i, k[len(p):])
			}
		}
	}
	return ""
}

// checkImage opens a fresh restorer on a copy of img and compares what it
// restores with the reference snapshots. last: the operation has completed at
// this image (only the after state is acceptable).
func (w *world) checkImage(c *chn, op string, img image, before, after *snap, last bool, k, of int) {
	db, cleanup := openImage(w.store, img)
	defer cleanup()
	pr := keyvalue.NewPersistRestorer(db)
	where := fmt.Sprintf("crash after write %d of %d of %s on channel %d", k, of, op, c.i)
	switch {
	case k == 0 && w.mode == modeWriteErr:
		where = fmt.Sprintf("after %s on channel %d completed", op, c.i)
	case k == 0:
		where = fmt.Sprintf("after %s on channel %d completed without a write", op, c.i)
	case k < 0:
		where = fmt.Sprintf("after %s on channel %d failed with an injected write error", op, c.i)
	}
	removal := op == "set-withdrawn" && !sameSnap(before, after)

	judge := func(view string, got *snap, verr error, broken bool) {
		w.res.Evals++
		if got != nil && got.stale != "" {
			w.fail("C10.stale-staging-sig@"+method(op), "%s: %s: %s (differs from the state after the operation in: %s)", where, view, got.stale, diffNames(got, after))
			return
		}
		eq := func(want *snap) bool {
			if want == nil {
				// absent. A failing restore that still finds keys of the channel is
				// "absent" only for a removal (what is left behind is C11's subject).
				return got == nil && (!broken || removal)
			}
			return got != nil && got.f == want.f
		}
		if eq(after) || (!last && eq(before)) {
			return
		}
		detail := fmt.Sprintf("%s: %s yields %s (error: %v); before the operation: %s, after it: %s; differs from before in [%s], from after in [%s]",
			where, view, got.brief(), verr, before.brief(), after.brief(), diffNames(got, before), diffNames(got, after))
		slot, extra := extraStagingSig(got, after)
		switch {
		case extra:
			w.fail("C10.stale-staging-sig@"+method(op), "signature slot %d is restored filled although the machine has collected no signature in it for the staged state: %s", slot, detail)
		case last && eq(before):
			w.fail("C10.lost-write@"+op, "the operation completed but the state before it is restored: %s", detail)
		case got == nil:
			w.fail("C10.restore-error@"+op, "the channel cannot be restored: %s", detail)
		default:
			w.fail("C10.mixture@"+op, "neither the state before nor the state after the operation: %s", detail)
		}
	}

	// view 1: RestoreChannel
	v := w.restoreChannel(pr, c.id)
	if v.pan != nil {
		w.fail("C10.panic@restore", "%s: RestoreChannel panicked: %v", where, v.pan)
		return
	}
	judge("RestoreChannel", v.s, v.err, v.err != nil && hasChanKeys(img, c.id))
	if w.res.Violation != nil {
		return
	}

	// view 2: RestorePeer for one of the channel's peers
	if len(c.peers) > 0 {
		pk := w.step + k
		if pk < 0 {
			pk = w.step
		}
		peer := c.peers[pk%len(c.peers)]
		l := w.restorePeer(pr, peer)
		if l.pan != nil {
			w.fail("C10.panic@restore", "%s: RestorePeer panicked: %v", where, l.pan)
			return
		}
		judge("RestorePeer", l.snaps[c.id], l.err, l.err != nil)
		if w.res.Violation != nil {
			return
		}
		for _, y := range w.chs {
			if y == c || !y.live() || !y.lists(peer) {
				continue
			}
			w.res.Evals++
			got, ok := l.snaps[y.id]
			switch {
			case !ok:
				site := op
				if r := w.residueOf(img, map[bool]*chn{true: c}[removal]); r != "" && l.err != nil {
					site = "removed-channel-residue"
					where += " (" + r + ")"
				}
				w.fail("C10.other-channel-lost@"+site, "%s: RestorePeer does not yield channel %d, which lists the peer and was not touched (iterator error: %v)", where, y.i, l.err)
				return
			case got.stale != "" || got.f != y.ref.f:
				w.fail("C10.other-channel@"+op, "%s: RestorePeer yields channel %d differing from its state in [%s] %s", where, y.i, diffNames(got, y.ref), got.stale)
				return
			}
		}
		for _, id := range l.ids {
			if y := w.byID[id]; id != c.id && (y == nil || (!y.live() && !y.dead)) {
				w.fail("C10.restorepeer-extra@"+op, "%s: RestorePeer yields channel %x which is not a live channel", where, id[:4])
				return
			}
		}
	}

	// every other live channel is restored as it is
	for _, y := range w.chs {
		if y == c || !y.live() {
			continue
		}
		w.res.Evals++
		vy := w.restoreChannel(pr, y.id)
		if vy.pan != nil {
			w.fail("C10.panic@restore", "%s: RestoreChannel of channel %d panicked: %v", where, y.i, vy.pan)
			return
		}
		if vy.s == nil || vy.s.stale != "" || vy.s.f != y.ref.f {
			w.fail("C10.other-channel@"+op, "%s: RestoreChannel of untouched channel %d yields %s (error %v), differing in [%s]", where, y.i, vy.s.brief(), vy.err, diffNames(vy.s, y.ref))
			return
		}
	}
}

// ---- C11 -----------------------------------------------------------------------

// mismatchClass names what is wrong with a restored value.
func mismatchClass(got, want *snap) string {
	if got != nil && got.stale != "" {
		return "stale-staging-sig"
	}
	if got == nil || want == nil {
		return "presence"
	}
	if _, extra := extraStagingSig(got, want); extra {
		return "stale-staging-sig"
	}
	for i := 0; i < nFields; i++ {
		if got.f[i] != want.f[i] {
			return fieldNames[i]
		}
	}
	return "none"
}

// checkViews compares all views of the live restorer with the reference set
// of live channels (after an operation op on channel c).
func (w *world) checkViews(c *chn, op string) {
	pr := w.pr
	img := dump(w.inner)

	// 1. nothing of a removed channel is left in the raw key set
	for _, y := range w.chs {
		if !y.removed {
			continue
		}
		w.res.Evals++
		pfx := chanPrefix(y.id)
		for _, k := range img.keys() {
			if strings.HasPrefix(k, pfx) {
				name := strings.TrimPrefix(k[len(pfx):], ":")
				if strings.HasPrefix(name, "staging:sig:") {
					name = "staging:sig"
				}
				all := w.restoreAll(pr)
				w.fail("C11.key-left-behind@"+name, "removed channel %d (parent set: %v) still has key %q in the store after %s on channel %d; RestoreAll now yields %d channels and error: %v",
					y.i, y.parent != nil, name, op, c.i, len(all.ids), all.err)
				return
			}
			if strings.HasPrefix(k, "Peer:") && strings.HasSuffix(k, ":channel:"+string(y.id[:])) {
				w.fail("C11.peer-index-left-behind", "removed channel %d still has a peer-index entry after %s on channel %d", y.i, op, c.i)
				return
			}
		}
	}

	// 2. RestoreChannel: live ones equal their snapshot, removed ones fail;
	//    channels other than c are byte-identical to what was restored before
	for _, y := range w.chs {
		if !y.created {
			continue
		}
		w.res.Evals++
		v := w.restoreChannel(pr, y.id)
		if v.pan != nil {
			w.fail("C11.panic@restore", "RestoreChannel of channel %d panicked after %s on channel %d: %v", y.i, op, c.i, v.pan)
			return
		}
		if y.dead {
			continue // half removed after an injected write error: may or may not be restorable
		}
		if y.removed {
			if v.s != nil {
				w.fail("C11.removed-restorable", "removed channel %d can still be restored (%s) after %s on channel %d", y.i, v.s.brief(), op, c.i)
				return
			}
			delete(w.lastBytes, y.i)
			continue
		}
		if v.s == nil {
			w.fail("C11.restore-error@"+op, "live channel %d cannot be restored after %s on channel %d: %v", y.i, op, c.i, v.err)
			return
		}
		gb := v.s.bytes()
		if prev, ok := w.lastBytes[y.i]; ok && y != c && !bytes.Equal(prev, gb) {
			w.fail("C11.interference@"+op, "%s on channel %d changed what is restored for channel %d (fields now differing from its state: [%s])", op, c.i, y.i, diffNames(v.s, y.ref))
			return
		}
		w.lastBytes[y.i] = gb
		if v.s.stale != "" || v.s.f != y.ref.f {
			w.fail("C11.restore-mismatch@"+mismatchClass(v.s, y.ref), "after %s on channel %d: RestoreChannel of live channel %d differs from its state in [%s] %s", op, c.i, y.i, diffNames(v.s, y.ref), v.s.stale)
			return
		}
	}

	// 3. RestorePeer for every identity of the pool
	wantPeers := map[string]bool{}
	for pi := 0; pi < poolPeers; pi++ {
		p := peerAddr(pi)
		w.res.Evals++
		l := w.restorePeer(pr, p)
		if l.pan != nil {
			w.fail("C11.panic@restore", "RestorePeer panicked after %s on channel %d: %v", op, c.i, l.pan)
			return
		}
		if l.err != nil {
			w.fail("C11.restorepeer-error", "after %s on channel %d: RestorePeer(peer %d) fails: %v", op, c.i, pi, l.err)
			return
		}
		if l.dup {
			w.fail("C11.restorepeer-duplicate", "after %s on channel %d: RestorePeer(peer %d) yields a channel twice", op, c.i, pi)
			return
		}
		want := 0
		for _, y := range w.chs {
			if !y.live() || !y.lists(p) {
				continue
			}
			want++
			wantPeers[peerKey(p)] = true
			got, ok := l.snaps[y.id]
			if !ok {
				w.fail("C11.restorepeer-missing", "after %s on channel %d: RestorePeer(peer %d) does not yield live channel %d", op, c.i, pi, y.i)
				return
			}
			if got.stale != "" || got.f != y.ref.f {
				w.fail("C11.restorepeer-mismatch@"+mismatchClass(got, y.ref), "after %s on channel %d: RestorePeer(peer %d) yields channel %d differing in [%s] %s", op, c.i, pi, y.i, diffNames(got, y.ref), got.stale)
				return
			}
		}
		for _, y := range w.chs {
			if y.dead && y.lists(p) {
				wantPeers["may:"+peerKey(p)] = true
				if _, ok := l.snaps[y.id]; ok {
					want++ // a half-removed channel may still be listed
				}
			}
		}
		if len(l.ids) != want {
			w.fail("C11.restorepeer-extra", "after %s on channel %d: RestorePeer(peer %d) yields %d channels, %d live channels list this peer", op, c.i, pi, len(l.ids), want)
			return
		}
	}

	// 4. ActivePeers
	w.res.Evals++
	var active []peerMap
	aerr, apan := guard(func() (e error) { active, e = pr.ActivePeers(w.ctx); return e })
	if apan != nil {
		w.fail("C11.panic@restore", "ActivePeers panicked after %s on channel %d: %v", op, c.i, apan)
		return
	}
	if aerr != nil {
		w.fail("C11.activepeers-error", "after %s on channel %d: ActivePeers fails: %v", op, c.i, aerr)
		return
	}
	gotPeers := map[string]bool{}
	for _, p := range active {
		k := peerKey(p)
		if gotPeers[k] {
			w.fail("C11.activepeers-duplicate", "after %s on channel %d: ActivePeers lists a peer twice", op, c.i)
			return
		}
		if !wantPeers[k] && wantPeers["may:"+k] {
			continue // peer of a half-removed channel only
		}
		gotPeers[k] = true
		if !wantPeers[k] {
			w.fail("C11.activepeers-extra", "after %s on channel %d: ActivePeers lists a peer of no live channel", op, c.i)
			return
		}
	}
	nWant := 0
	for k := range wantPeers {
		if !strings.HasPrefix(k, "may:") {
			nWant++
		}
	}
	if len(gotPeers) != nWant {
		w.fail("C11.activepeers-missing", "after %s on channel %d: ActivePeers lists %d peers, the live channels have %d", op, c.i, len(gotPeers), nWant)
		return
	}

	// 5. RestoreAll
	w.res.Evals++
	all := w.restoreAll(pr)
	if all.pan != nil {
		w.fail("C11.panic@restore", "RestoreAll panicked after %s on channel %d: %v", op, c.i, all.pan)
		return
	}
	if all.err != nil {
		w.fail("C11.restoreall-error", "after %s on channel %d: RestoreAll fails after %d channels: %v", op, c.i, len(all.ids), all.err)
		return
	}
	if all.dup {
		w.fail("C11.restoreall-duplicate", "after %s on channel %d: RestoreAll yields a channel twice", op, c.i)
		return
	}
	want := 0
	for _, y := range w.chs {
		if !y.live() {
			continue
		}
		want++
		got, ok := all.snaps[y.id]
		if !ok {
			w.fail("C11.restoreall-missing", "after %s on channel %d: RestoreAll does not yield live channel %d", op, c.i, y.i)
			return
		}
		if got.stale != "" || got.f != y.ref.f {
			w.fail("C11.restoreall-mismatch@"+mismatchClass(got, y.ref), "after %s on channel %d: RestoreAll yields channel %d differing in [%s] %s", op, c.i, y.i, diffNames(got, y.ref), got.stale)
			return
		}
	}
	for _, y := range w.chs {
		if _, ok := all.snaps[y.id]; ok && y.dead {
			want++ // a half-removed channel may still be listed
		}
	}
	if len(all.ids) != want {
		w.fail("C11.restoreall-extra", "after %s on channel %d: RestoreAll yields %d channels, %d are live", op, c.i, len(all.ids), want)
	}
}
