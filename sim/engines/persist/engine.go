package persist

import (
	"fmt"
	"testing"

	"perun.network/go-perun/channel"

	"verif/sim/kernel"
)

// Engine implements kernel.Engine for C10 and C11.
type Engine struct{}

func (Engine) Name() string { return "persist" }

// c10Kind maps a run index to (store, mode). quick: per 15 runs 10 crash
// enumerations on memorydb, 1 on LevelDB, 4 write-error runs (every fourth of
// the last slot on LevelDB); thorough: per 27 runs 20 / 1 / 6.
func c10Kind(tier string, run int) (store, mode int) {
	period, mem := 15, 10
	if tier == "thorough" {
		period, mem = 27, 20
	}
	r := run % period
	switch {
	case r < mem:
		return storeMem, modeCrash
	case r == mem:
		return storeLDB, modeCrash
	case r == period-1 && (run/period)%4 == 0:
		return storeLDB, modeWriteErr
	}
	return storeMem, modeWriteErr
}

func (Engine) Plan(prop, tier string) kernel.Plan {
	runs := map[string]int{
		"C10/quick": 15 * 40, "C10/thorough": 27 * 3000,
		"C11/quick": 1500, "C11/thorough": 200000,
	}[prop+"/"+tier]
	return kernel.Plan{Runs: runs}
}

func (Engine) Describe(prop string) kernel.Describe {
	d := kernel.Describe{
		Real: []string{
			"channel/persistence.StateMachine (FromStateMachine) over the real channel.StateMachine",
			"channel/persistence/keyvalue.PersistRestorer (persister, restorer, ChannelIterator, PersistedState)",
			"polycry.pt/poly-go sortedkv tables/batches/iterators, sortedkv/memorydb, sortedkv/leveldb + goleveldb on a scratch directory",
			"channel.State/Params/Transaction encoding (wire/perunio), apps/payment, channel.NoApp",
			"backend/sim channel, wallet and wire backends (real ECDSA-P256 signatures; key material random per process)",
		},
		Stub: []string{
			"FaultDB: sortedkv.Database wrapper written for this work; forwards every call to the real store, counts write boundaries (each direct Put/PutBytes/Delete and each Batch.Apply is one), dumps the durable image after each boundary through the store's own iterator, can fail a chosen boundary with an error",
			"the crash: not a killed process but a fresh restorer opened on a copy of the durable image taken at the boundary (memorydb: new database over a copy of the map; LevelDB: image written into a new directory, closed, reopened with leveldb.LoadDatabase)",
			"the client calling the machine (call programs are generated); peers are fixed wire identities from a pool of 6",
		},
	}
	switch prop {
	case "C10":
		d.Rule = "seeded programs (<= 30 steps quick, <= 45 thorough; composite steps expand into primitive operations) over 1-3 interleaved persisted machines (create with/without parent, possibly after operations on the bare machine; init, sig, add-sig incl. refused signatures, the three enables, update incl. refused candidates, discard - in particular after signing, followed by a new update -, forced update, all phase setters, progression, removal by SetWithdrawn). Before and after every operation the harness snapshots the live machine in its own encoding (index, params encoding+ID, phase, current state+sigs, staged state + sparse signature slots, peers, parent). For EVERY write boundary of EVERY operation (enumerated) the durable image at that boundary is opened by a fresh restorer; RestoreChannel(id) and RestorePeer(one of its peers) must each equal the before- or the after-snapshot (creation: absent or complete; removal: as before or absent), the after-snapshot at the operation's last boundary; every restored non-nil staging signature must verify for the restored staged state; every other live channel must be restored unchanged at every boundary; an operation that returns an error must leave the store unchanged. Relaxed configuration (separate runs): 1-2 write boundaries fail with an error; after the failed operation each view must equal the before- or after-snapshot (no mixture), the channel is then abandoned. evaluations = compared restore results. Non-trivial run: a crash point fell strictly inside a multi-write operation (crash runs) or an injected write error fired (write-error runs); distinct = distinct scenario digests."
		d.FaultKinds = []string{"crash (after every write boundary, enumerated)", "write-error (chosen write boundaries return an error and are not applied)", "refused operation (wrong phase, invalid candidate, bad signature)", "caller's context already cancelled or expired (every n-th operation in 30 % of the runs)"}
		d.Assumptions = []string{
			"a crash happens between write boundaries: a direct Put/PutBytes/Delete or a Batch.Apply is atomic (torn batches and file-level LevelDB corruption are out of scope, as the property's quantifier states)",
			"every operation of a persisted machine happens after ChannelCreated and before its removal; after an injected write error no further operation is applied to that channel",
			"for the removal operation a RestoreChannel that fails while keys of the channel are still present counts as 'absent' (what removal leaves behind is C11's subject); for every other operation a failing restore is a violation",
			"signature indices are below the participant count; ForceUpdate only on machines with a current state; states offered to the machine are encodable and have one balance per participant",
			"LevelDB images are rebuilt from the key/value content at the boundary, not from the log files of the crashed process",
		}
	case "C11":
		d.Rule = "seeded histories (<= 40 steps quick, <= 60 thorough) of create (with/without parent, 2-4 peers out of a pool of 6 so that peers are shared), state changes (the C10 alphabet) and removal over 2-6 channels in any order, no faults, memorydb (95%) or LevelDB (5%). After every primitive operation the live restorer is compared with the reference set of live channels: RestoreChannel(id) equals the harness snapshot for live ids and fails for removed ones; RestorePeer(p) for all 6 identities yields exactly the live channels listing p, each with its own data, without error; ActivePeers is exactly the set of peers of live channels; RestoreAll yields exactly the live channels without error; the raw key set (dump of the store) holds no key under a removed channel's prefix and no peer-index entry for it; the restored value of every channel other than the one operated on is byte-identical to what was restored before the operation. evaluations = compared views. Non-trivial run: at least one removal and two live channels sharing a peer; distinct = distinct scenario digests."
		d.FaultKinds = []string{"refused operations (wrong phase, invalid candidate, bad signature) are part of the histories", "failing first/second write of a creation, removal or state change", "caller's context already done",
			"RestoreAll iteration left open around a step (runs with 8-12 channels)", "removed channel created again under the same ID with other peers"}
		d.Assumptions = []string{
			"no operation is applied to a channel after its removal, and a channel ID is created at most once",
			"a channel lists a peer at most once; peer maps have a single backend entry",
			"signature indices are below the participant count; ForceUpdate only on machines with a current state",
		}
	}
	return d
}

// ---- generation ----------------------------------------------------------------

var allOps = []string{"init", "update", "force", "sig", "addsig", "enable-init", "enable-update", "enable-final", "discard",
	"set-funded", "set-registering", "set-registered", "set-withdrawing", "set-withdrawn", "set-progressing", "set-progressed",
	"advance", "open", "close"}

// likely lists, per phase, operations that tend to make progress.
var likely = map[channel.Phase][]string{
	channel.InitActing:  {"init", "init", "open", "open", "open"},
	channel.InitSigning: {"sig", "addsig", "addsig", "enable-init", "advance", "advance"},
	channel.Funding:     {"set-funded", "set-funded", "set-funded", "set-registering"},
	channel.Acting:      {"update", "update", "update", "update", "update-final", "force", "set-registering", "set-registered", "close"},
	channel.Signing:     {"sig", "sig", "sig", "addsig", "addsig", "addsig", "enable-update", "enable-final", "discard", "discard", "discard", "discard", "advance", "advance", "force", "update", "set-registered"},
	channel.Final:       {"set-registering", "set-registered", "set-withdrawing", "set-withdrawing", "close"},
	channel.Registering: {"set-registered", "set-registered", "set-registering"},
	channel.Registered:  {"set-progressing", "set-progressing", "set-progressed", "set-withdrawing", "set-withdrawing", "close"},
	channel.Progressing: {"sig", "addsig", "set-progressed", "set-progressed", "set-progressing"},
	channel.Progressed:  {"set-withdrawing", "set-withdrawing", "set-progressing", "set-progressed", "close"},
	channel.Withdrawing: {"set-withdrawn", "set-withdrawn", "set-withdrawn", "set-withdrawing"},
	channel.Withdrawn:   {"set-registering", "set-withdrawn"},
}

func rnd(r *kernel.Rand) int64 { return int64(r.Uint64() >> 2) }

// verMode picks the version of a state that the machine takes without
// validation (forced update, progression): mostly the successor's, but the
// machine also accepts the current version again (the client forces the final
// form of the current state when a virtual channel is settled), an older or a
// much later one.
func verMode(rv int64) string {
	vr := kernel.NewRand(kernel.Derive(uint64(rv), "ver"))
	if !vr.Bool(0.3) {
		return "next"
	}
	return []string{"same", "same", "lower", "higher"}[vr.Intn(4)]
}

func mkStep(r *kernel.Rand, prop, op string, c *chn, nch int) kernel.Step {
	ch := c.i
	switch op {
	case "create":
		lo := 2
		if prop == "C10" {
			lo = 1
		}
		np := r.Range(lo, 4)
		kv := []any{"ch", ch, "np", np}
		for k := 0; k < np; k++ {
			kv = append(kv, fmt.Sprintf("p%d", k), r.Intn(poolPeers))
		}
		parent := -1
		switch x := r.Intn(10); {
		case x < 3 && nch > 1:
			parent = (ch + 1 + r.Intn(nch-1)) % nch
		case x < 5:
			parent = 100 + r.Intn(3)
		}
		kv = append(kv, "parent", parent)
		return kernel.St("create", kv...)
	case "init":
		k := "valid"
		if r.Bool(0.1) {
			k = "bad"
		}
		return kernel.St("init", "ch", ch, "kind", k, "r", rnd(r))
	case "update", "update-final":
		k := []string{"valid", "valid", "valid", "valid", "final", "bad"}[r.Intn(6)]
		if op == "update-final" {
			k = "final"
		}
		return kernel.St("update", "ch", ch, "kind", k, "r", rnd(r))
	case "force":
		k := "valid"
		if r.Bool(0.15) {
			k = "final"
		}
		rv := rnd(r)
		return kernel.St("force", "ch", ch, "kind", k, "r", rv, "ver", verMode(rv))
	case "addsig":
		k := "correct"
		if r.Bool(0.25) {
			k = []string{"wrong-signer", "stale", "random"}[r.Intn(3)]
		}
		idx := r.Intn(c.n)
		if k == "correct" && r.Bool(0.8) {
			sigs := c.m.StagingTX().Sigs
			for i := 0; i < c.n; i++ {
				j := (idx + i) % c.n
				if j != c.own && (j >= len(sigs) || sigs[j] == nil) {
					idx = j
					break
				}
			}
		}
		return kernel.St("addsig", "ch", ch, "idx", idx, "kind", k, "r", rnd(r))
	case "set-progressing", "set-progressed":
		rv := rnd(r)
		return kernel.St(op, "ch", ch, "r", rv, "ver", verMode(rv))
	case "open":
		return kernel.St(op, "ch", ch, "r", rnd(r))
	}
	return kernel.St(op, "ch", ch)
}

func (e Engine) Generate(prop, tier string, run int, seed uint64) *kernel.Scenario {
	r := kernel.NewRand(seed)
	sc := &kernel.Scenario{Property: prop, Config: map[string]int64{}}
	var nch, length int
	var wrongPhase, stick float64
	if kernel.NewRand(kernel.Derive(seed, "addr-style")).Bool(0.3) {
		sc.Config["addr_style"] = 1 // wire identities that spell store-key syntax
	}
	if dr := kernel.NewRand(kernel.Derive(seed, "done-ctx")); dr.Bool(0.3) {
		// callers whose context has already expired or been cancelled (clean-up
		// after a peer that never answered): every done_ctx-th operation gets
		// one. The store has no use for the context; what is in memory and
		// what is stored must agree all the same.
		sc.Config["done_ctx"] = int64(dr.Range(2, 5))
	}
	switch prop {
	case "C10":
		store, mode := c10Kind(tier, run)
		sc.Config["store"], sc.Config["mode"] = int64(store), int64(mode)
		nch = 1 + r.Weighted([]int{4, 4, 3})
		maxLen := 30
		if tier == "thorough" {
			maxLen = 45
		}
		length = r.Range(3, maxLen)
		if r.Bool(0.3) {
			length = r.Range(3, 10) // short programs are favoured
		}
		wrongPhase, stick = 0.12, 0.65
	case "C11":
		store := storeMem
		if run%20 == 7 {
			store = storeLDB
		}
		sc.Config["store"], sc.Config["mode"] = int64(store), modeViews
		nch = r.Range(2, maxChans)
		maxLen := 40
		if tier == "thorough" {
			maxLen = 60
		}
		length = r.Range(5, maxLen)
		wrongPhase, stick = 0.08, 0.5
	default:
		return nil
	}
	if prop == "C11" && kernel.NewRand(kernel.Derive(seed, "recreate")).Bool(0.3) {
		sc.Config["recreate"] = 1
	}
	if mr := kernel.NewRand(kernel.Derive(seed, "many-channels")); prop == "C11" && mr.Bool(0.25) {
		// many channels (the channel table outgrows whatever an iterator may
		// hold at once) and RestoreAll iterations left open around some steps
		nch = mr.Range(8, maxChans)
		sc.Config["iter_pm"] = int64([]int{150, 300, 600}[mr.Intn(3)])
	}
	sc.Config["nch"] = int64(nch)
	ranks := append(r.Perm(rankBuckets), kernel.NewRand(kernel.Derive(seed, "ranks-beyond-six")).Perm(rankBuckets)...)
	for i := 0; i < nch; i++ {
		n := 2 + r.Weighted([]int{7, 3, 1})
		set := func(k string, v int) { sc.Config[fmt.Sprintf("c%d.%s", i, k)] = int64(v) }
		own := r.Intn(n)
		if wr := kernel.NewRand(kernel.Derive(seed, "wide", i)); wr.Bool(0.08) {
			// many participants, around the count at which the signature slots'
			// keys get a digit more
			n = []int{9, 10, 10, 11}[wr.Intn(4)]
			if wr.Bool(0.25) {
				// so many participants that one persister call writes more keys than
				// a small batch holds
				n = []int{62, 64, 65}[wr.Intn(3)]
			}
			own = wr.Intn(n)
		}
		set("n", n)
		set("own", own)
		set("app", r.Intn(2))
		set("rank", ranks[i])
		set("nonce", r.Intn(1000))
		set("virtual", b2i(r.Bool(0.2)))
	}

	// The program is generated against the real machines (memorydb, no
	// checks), so that most operations are applicable where they stand.
	gsc := *sc
	gsc.Config = map[string]int64{}
	for k, v := range sc.Config {
		gsc.Config[k] = v
	}
	gsc.Config["store"], gsc.Config["mode"] = storeMem, modeCrash
	w := newWorld(&gsc, &kernel.Result{}, false, false)
	defer w.close()
	cur := r.Intn(nch)
	for tries := 0; len(sc.Steps) < length && tries < 6*length; tries++ {
		var open []*chn
		for _, c := range w.chs {
			if !c.removed {
				open = append(open, c)
			}
		}
		if len(open) == 0 {
			break
		}
		c := w.chs[cur]
		if c.removed || !r.Bool(stick) {
			c = open[r.Intn(len(open))]
			cur = c.i
		}
		if sc.Config["recreate"] == 1 && r.Bool(0.2) {
			// a removed channel is created again: same parameters and ID, a new
			// machine, newly drawn peers and parent
			var gone []*chn
			for _, y := range w.chs {
				if y.removed && !y.dead {
					gone = append(gone, y)
				}
			}
			if len(gone) > 0 {
				y := gone[r.Intn(len(gone))]
				st := mkStep(r, prop, "create", y, nch)
				st.Op = "recreate"
				sc.Steps = append(sc.Steps, st)
				w.step = len(sc.Steps) - 1
				w.do(&st)
				cur = y.i
				continue
			}
		}
		var op string
		ph := c.m.Phase()
		switch {
		case !c.created && r.Bool(0.85):
			op = "create"
		case prop == "C11" && c.created && ph >= channel.Funding && r.Bool(0.10):
			op = "close"
		case prop == "C11" && ph == channel.InitActing && r.Bool(0.5):
			op = "open"
		case r.Bool(wrongPhase):
			op = allOps[r.Intn(len(allOps))]
		default:
			l := likely[ph]
			op = l[r.Intn(len(l))]
		}
		if op == "force" && c.m.CurrentTX().State == nil {
			continue
		}
		st := mkStep(r, prop, op, c, nch)
		if prop == "C11" && op == "create" && r.Bool(0.12) {
			// fault: the first or the second write of the creation fails
			st.A["failw"] = int64(1 + r.Intn(2))
		}
		if prop == "C11" && op == "close" && r.Bool(0.25) {
			// fault: the first or the second write of the removal fails
			st.A["failw"] = int64(1 + r.Intn(2))
		}
		if prop == "C11" && op != "create" && op != "close" && kernel.NewRand(kernel.Derive(seed, "failw", len(sc.Steps))).Bool(0.04) {
			// fault: the (first) write of a state change fails
			st.A["failw"] = 1
		}
		sc.Steps = append(sc.Steps, st)
		w.step = len(sc.Steps) - 1
		w.do(&st)
	}
	if prop == "C10" && sc.Config["mode"] == modeWriteErr && w.fdb.n > 0 {
		// one or two failing write boundaries; the second boundary of two-batch
		// operations is favoured
		var second []int
		for _, b := range w.opBounds {
			if b[1] > b[0] {
				second = append(second, b[0]+1)
			}
		}
		k := 1 + r.Intn(w.fdb.n)
		if len(second) > 0 && r.Bool(0.4) {
			k = second[r.Intn(len(second))]
		}
		sc.Faults = append(sc.Faults, kernel.St("write-error", "at", k))
		if k < w.fdb.n && r.Bool(0.3) {
			sc.Faults = append(sc.Faults, kernel.St("write-error", "at", k+1+r.Intn(w.fdb.n-k)))
		}
	}
	return sc
}

// ---- execution -----------------------------------------------------------------

func (e Engine) Execute(t *testing.T, sc *kernel.Scenario, trace bool) *kernel.Result {
	res := &kernel.Result{}
	if _, ok := sc.Config["mode"]; !ok && sc.Property == "C11" {
		c := map[string]int64{"mode": modeViews}
		for k, v := range sc.Config {
			c[k] = v
		}
		cp := *sc
		cp.Config = c
		sc = &cp
	}
	w := newWorld(sc, res, trace, true)
	defer w.close()
	for i := range sc.Steps {
		w.step = i
		if w.mode == modeViews && w.iterPM > 0 && int(kernel.Derive(sc.Seed, "iter-around-step", i)%1000) < w.iterPM {
			w.interleaved(&sc.Steps[i])
		} else {
			w.do(&sc.Steps[i])
		}
		if res.Violation != nil {
			break
		}
	}
	switch w.mode {
	case modeCrash:
		res.NonTrivial = w.insideMulti
	case modeWriteErr:
		res.NonTrivial = w.fdb.fired > 0
	case modeViews:
		res.NonTrivial = w.removals >= 1 && w.sharedPeer
	}
	if trace {
		res.Trace = append(res.Trace, fmt.Sprintf("end: store=%s mode=%d channels=%d write boundaries=%d injected write errors=%d restore comparisons=%d",
			map[int]string{storeMem: "memorydb", storeLDB: "leveldb"}[w.store], w.mode, len(w.chs), w.fdb.n, w.fdb.fired, res.Evals))
	}
	return res
}
