// Package persist is the history-kernel engine for the persisting channel
// machine over the key-value persistence backend (properties C10 and C11):
// seeded programs over 1..6 persisted channel machines on a fault-injecting
// sortedkv.Database (memorydb or LevelDB underneath), crash enumeration at
// every write boundary, failing writes, and a reference set of live channels.
package persist

import (
	"fmt"
	"os"
	"sort"

	"github.com/pkg/errors"
	"polycry.pt/poly-go/sortedkv"
	"polycry.pt/poly-go/sortedkv/leveldb"
	"polycry.pt/poly-go/sortedkv/memorydb"
)

// store kinds
const (
	storeMem = 0
	storeLDB = 1
)

var errInjected = errors.New("faultdb: injected write error")

// FaultDB is a sortedkv.Database that forwards to an inner database, counts
// write boundaries (each direct Put/PutBytes/Delete and each Batch.Apply is
// one atomic boundary), reports every boundary to a hook (the harness then
// dumps the durable image, which is the state a crash right after this write
// would leave), and can fail chosen boundaries with an error (the write is
// then not forwarded).
type FaultDB struct {
	inner   sortedkv.Database
	n       int              // boundaries attempted so far (1-based numbering)
	failAt  map[int]struct{} // boundaries that fail
	failRel int              // >0: the failRel-th boundary from now fails (then disarmed)
	fired   int
	hook    func(k int, failed bool)
}

var _ sortedkv.Database = (*FaultDB)(nil)

func (d *FaultDB) boundary(apply func() error) error {
	d.n++
	k := d.n
	rel := false
	if d.failRel > 0 {
		d.failRel--
		rel = d.failRel == 0
	}
	if _, f := d.failAt[k]; f || rel {
		d.fired++
		if d.hook != nil {
			d.hook(k, true)
		}
		return errors.Wrapf(errInjected, "write boundary %d", k)
	}
	err := apply()
	if d.hook != nil {
		d.hook(k, false)
	}
	return err
}

// Reader.
func (d *FaultDB) Has(key string) (bool, error)        { return d.inner.Has(key) }
func (d *FaultDB) Get(key string) (string, error)      { return d.inner.Get(key) }
func (d *FaultDB) GetBytes(key string) ([]byte, error) { return d.inner.GetBytes(key) }

// Writer: every direct write is one boundary.
func (d *FaultDB) Put(key, value string) error {
	return d.boundary(func() error { return d.inner.Put(key, value) })
}

func (d *FaultDB) PutBytes(key string, value []byte) error {
	return d.boundary(func() error { return d.inner.PutBytes(key, value) })
}

func (d *FaultDB) Delete(key string) error {
	return d.boundary(func() error { return d.inner.Delete(key) })
}

// Batcher: a batch collects in the inner database's own batch type; Apply is
// one boundary.
func (d *FaultDB) NewBatch() sortedkv.Batch { return &faultBatch{db: d, b: d.inner.NewBatch()} }

// Iterable.
func (d *FaultDB) NewIterator() sortedkv.Iterator { return d.inner.NewIterator() }
func (d *FaultDB) NewIteratorWithRange(start, end string) sortedkv.Iterator {
	return d.inner.NewIteratorWithRange(start, end)
}
func (d *FaultDB) NewIteratorWithPrefix(prefix string) sortedkv.Iterator {
	return d.inner.NewIteratorWithPrefix(prefix)
}

// Close closes the inner database.
func (d *FaultDB) Close() error { return d.inner.Close() }

type faultBatch struct {
	db *FaultDB
	b  sortedkv.Batch
}

func (b *faultBatch) Put(key, value string) error             { return b.b.Put(key, value) }
func (b *faultBatch) PutBytes(key string, value []byte) error { return b.b.PutBytes(key, value) }
func (b *faultBatch) Delete(key string) error                 { return b.b.Delete(key) }
func (b *faultBatch) Reset()                                  { b.b.Reset() }
func (b *faultBatch) Apply() error                            { return b.db.boundary(b.b.Apply) }

// image is the durable content of a store: key -> value.
type image map[string]string

// dump reads the complete content of a database through its own iterator.
func dump(db sortedkv.Database) image {
	img := image{}
	it := db.NewIterator()
	for it.Next() {
		img[it.Key()] = it.Value()
	}
	if err := it.Close(); err != nil {
		panic(fmt.Sprintf("persist harness: dumping the store: %v", err))
	}
	return img
}

func (img image) keys() []string {
	ks := make([]string, 0, len(img))
	for k := range img {
		ks = append(ks, k)
	}
	sort.Strings(ks)
	return ks
}

func (img image) equal(o image) bool {
	if len(img) != len(o) {
		return false
	}
	for k, v := range img {
		if w, ok := o[k]; !ok || w != v {
			return false
		}
	}
	return true
}

func scratchDir() string {
	base := os.Getenv("VERIF_TMP")
	if base == "" {
		base = "/var/tmp"
	}
	d, err := os.MkdirTemp(base, "persist-ldb-")
	if err != nil {
		panic(fmt.Sprintf("persist harness: scratch directory: %v", err))
	}
	return d
}

// newLiveStore opens the store a run writes to. cleanup closes it and removes
// the scratch directory.
func newLiveStore(kind int) (db sortedkv.Database, cleanup func()) {
	if kind == storeLDB {
		dir := scratchDir()
		l, err := leveldb.LoadDatabase(dir)
		if err != nil {
			_ = os.RemoveAll(dir)
			panic(fmt.Sprintf("persist harness: opening LevelDB: %v", err))
		}
		return l, func() { _ = l.Close(); _ = os.RemoveAll(dir) }
	}
	m := memorydb.NewDatabase()
	return m, func() { _ = m.Close() }
}

// openImage gives a fresh database holding exactly img, as a process started
// after a crash would find it. memorydb: a new database over a copy of the
// map. LevelDB: the image is written into a new database directory, the
// database is closed and then reopened through leveldb.LoadDatabase, so that
// goleveldb's own recovery, iterators and prefix ranges are what the restorer
// sees.
func openImage(kind int, img image) (db sortedkv.Database, cleanup func()) {
	if kind != storeLDB {
		cp := make(map[string]string, len(img))
		for k, v := range img {
			cp[k] = v
		}
		m := memorydb.FromData(cp)
		return m, func() { _ = m.Close() }
	}
	dir := scratchDir()
	fail := func(what string, err error) {
		_ = os.RemoveAll(dir)
		panic(fmt.Sprintf("persist harness: %s: %v", what, err))
	}
	l, err := leveldb.LoadDatabase(dir)
	if err != nil {
		fail("creating LevelDB image", err)
	}
	b := l.NewBatch()
	for _, k := range img.keys() {
		if err := b.PutBytes(k, []byte(img[k])); err != nil {
			fail("filling LevelDB image", err)
		}
	}
	if err := b.Apply(); err != nil {
		fail("writing LevelDB image", err)
	}
	if err := l.Close(); err != nil {
		fail("closing LevelDB image", err)
	}
	l2, err := leveldb.LoadDatabase(dir)
	if err != nil {
		fail("reopening LevelDB image", err)
	}
	return l2, func() { _ = l2.Close(); _ = os.RemoveAll(dir) }
}
