package machine

import (
	"fmt"
	"testing"

	"perun.network/go-perun/channel"

	"verif/sim/gen"
	"verif/sim/kernel"
)

// Engine implements kernel.Engine for C01, C02 and C09.
type Engine struct{}

func (Engine) Name() string { return "machine" }

// canonical alphabet of C09 (fixed representative arguments).
func canonical(n int) []kernel.Step {
	a := []kernel.Step{
		kernel.St("init", "kind", "valid", "r", 11),
		kernel.St("init", "kind", "neg", "r", 12),
		kernel.St("update", "kind", "valid", "r", 13),
		kernel.St("update", "kind", "mut", "m", "ver+2", "r", 14),
		kernel.St("update", "kind", "final", "r", 15),
		kernel.St("force", "kind", "valid", "r", 16),
		kernel.St("sig"),
	}
	for i := 0; i < n; i++ {
		a = append(a, kernel.St("addsig", "idx", i, "kind", "correct", "r", 17))
		a = append(a, kernel.St("addsig", "idx", i, "kind", "random", "r", 18))
	}
	for _, op := range []string{"enable-init", "enable-update", "enable-final", "discard", "set-funded",
		"set-registering", "set-registered", "set-withdrawing", "set-withdrawn"} {
		a = append(a, kernel.St(op))
	}
	a = append(a, kernel.St("set-progressing", "r", 19), kernel.St("set-progressed", "r", 20))
	return a
}

// prefixes bring a fresh machine to interesting phases before the enumerated
// suffix starts ("advance" is the composite sign-all-and-enable operation).
var prefixes = [][]kernel.Step{
	{},
	{kernel.St("init", "kind", "valid", "r", 1)},
	{kernel.St("init", "kind", "valid", "r", 1), kernel.St("advance")},
	{kernel.St("init", "kind", "valid", "r", 1), kernel.St("advance"), kernel.St("update", "kind", "valid", "r", 2)},
	{kernel.St("init", "kind", "valid", "r", 1), kernel.St("advance"), kernel.St("update", "kind", "final", "r", 3)},
	{kernel.St("init", "kind", "valid", "r", 1), kernel.St("advance"), kernel.St("update", "kind", "final", "r", 3), kernel.St("advance")},
	{kernel.St("init", "kind", "valid", "r", 1), kernel.St("advance"), kernel.St("set-registered")},
	{kernel.St("init", "kind", "valid", "r", 1), kernel.St("advance"), kernel.St("set-registered"), kernel.St("set-progressing", "r", 4)},
}

func depth(prop, tier string) int {
	switch {
	case prop == "C09" && tier == "thorough":
		return 4
	case prop == "C09":
		return 3
	case prop == "C01" && tier == "thorough":
		return 3
	}
	return 0
}

func (Engine) Plan(prop, tier string) kernel.Plan {
	p := kernel.Plan{}
	d := depth(prop, tier)
	if d > 0 {
		p.Exhaustive = len(prefixes) * 2 * len(canonical(2))
		p.ExhaustiveNote = fmt.Sprintf("all call sequences of length %d over the %d-operation canonical alphabet, after each of %d prefixes, for both participant indices of a two-party channel", d, len(canonical(2)), len(prefixes))
	}
	random := map[string]int{"C01/quick": 3000, "C01/thorough": 150000, "C02/quick": 4000, "C02/thorough": 400000,
		"C09/quick": 3000, "C09/thorough": 200000}[prop+"/"+tier]
	p.Runs = p.Exhaustive + random
	return p
}

func (Engine) Describe(prop string) kernel.Describe {
	d := kernel.Describe{
		Real: []string{"channel.StateMachine / machine (channel/machine.go, statemachine.go)", "channel.State/Allocation/Params/Transaction",
			"apps/payment", "channel.NoApp", "backend/sim channel+wallet (real ECDSA-P256 signatures, random per process)"},
		Stub:        []string{"the caller of the machine (call programs are generated)", "the network delivering signatures (hostile: wrong, foreign, replayed, duplicated, malformed)"},
		Assumptions: []string{"signature indices are below the participant count (larger ones are documented to panic)", "ForceUpdate and CheckUpdate are applied only to machines that already have a current state", "the payment app is never offered foreign app data (documented panic)"},
	}
	switch prop {
	case "C01":
		d.Rule = "seeded call programs over the full operation alphabet with hostile signature deliveries; after every call the current transaction (unless adopted from a progression event) must carry one signature per participant that verifies and that the harness's own ledger knows as 'made by participant i over exactly this state encoding'; staged signature slots likewise. A run is non-trivial if at least one state was enabled and at least one bad signature was offered; distinct = distinct scenario digests."
		d.FaultKinds = []string{"sig.other-signer", "sig.other-state", "sig.replay", "sig.duplicate", "sig.random", "sig.empty", "sig.nil", "sig.short", "wrong-phase call"}
	case "C02":
		d.Rule = "reach a current state by accepted updates, then offer valid successors, single-condition mutants and multi-condition mutants to Update and CheckUpdate (and allocations to Init); err==nil must equal an independent reference predicate written from the property statement; refusals leave the machine unchanged and unsigned. Evaluations = candidate checks. Non-trivial run = at least one accepted and one refused candidate at a reached state; distinct = distinct scenario digests."
		d.FaultKinds = append([]string{"slow app callback vs. caller's deadline through the persisting wrapper (4 % of the runs, synctest bubble)"}, gen.Mutations...)
	case "C09":
		d.Rule = "reference automaton written from the doc comments (precondition on phase, signature slots, final flag; resulting phase); after each call err==nil iff the precondition holds, phase/staged/current as documented, byte-identical snapshot on error. Enumerated part: all sequences of a fixed length over the canonical alphabet after 8 prefixes for both indices; seeded part: model-guided random programs with wrong-phase calls. Non-trivial run = reached at least 4 distinct abstract states; distinct = distinct scenario digests."
		d.FaultKinds = []string{"wrong-phase call", "invalid candidate", "bad signature", "duplicate signature"}
	}
	return d
}

// ---- generation ------------------------------------------------------------

var sigKinds = []string{"correct", "other-signer", "other-state", "replay", "duplicate", "random", "empty", "nil", "short"}
var initKinds = []string{"valid", "parts-short", "parts-long", "neg", "no-assets", "asset-mismatch", "locked-dim", "locked-neg", "data"}
var allOps = []string{"init", "update", "check", "force", "sig", "addsig", "enable-init", "enable-update", "enable-final", "discard",
	"set-funded", "set-registering", "set-registered", "set-withdrawing", "set-withdrawn", "set-progressing", "set-progressed", "clone", "advance"}

// likely lists, per phase, operations that tend to make progress.
var likely = map[channel.Phase][]string{
	channel.InitActing:  {"init", "init", "init"},
	channel.InitSigning: {"sig", "addsig", "addsig", "enable-init", "advance"},
	channel.Funding:     {"set-funded", "set-funded", "force"},
	channel.Acting:      {"update", "update", "update", "check", "force", "set-registering", "set-registered"},
	channel.Signing:     {"sig", "addsig", "addsig", "enable-update", "enable-final", "discard", "advance", "advance"},
	channel.Final:       {"set-registering", "set-registered", "set-withdrawing", "update"},
	channel.Registering: {"set-registered", "set-registering"},
	channel.Registered:  {"set-progressing", "set-progressed", "set-withdrawing"},
	channel.Progressing: {"sig", "addsig", "set-progressed", "set-progressing"},
	channel.Progressed:  {"set-withdrawing", "set-progressing", "set-progressed"},
	channel.Withdrawing: {"set-withdrawn", "set-withdrawing"},
	channel.Withdrawn:   {"set-registering", "force"},
}

func mkStep(r *kernel.Rand, op string, h *harness, hostile float64) kernel.Step {
	switch op {
	case "init":
		k := "valid"
		if r.Bool(0.3) {
			k = initKinds[r.Intn(len(initKinds))]
		}
		return kernel.St("init", "kind", k, "r", int64(r.Uint64()>>2))
	case "update", "check", "force":
		k := []string{"valid", "valid", "valid", "final", "mut", "mut", "multi"}[r.Intn(7)]
		if op == "update" && r.Bool(0.12) {
			// the very object that passed the last CheckUpdate, possibly after the
			// machine has moved on or after the object was changed (touch=1)
			k = "rechecked"
		}
		rv := int64(r.Uint64() >> 2)
		if k != "rechecked" && op != "force" && kernel.NewRand(kernel.Derive(uint64(rv), "inplace")).Bool(0.12) {
			k = "inplace"
		}
		st := kernel.St(op, "kind", k, "r", rv)
		if k == "rechecked" {
			st.A["touch"] = int64(r.Intn(2))
		}
		if k == "mut" {
			st.S["m"] = gen.Mutations[r.Intn(len(gen.Mutations))]
		}
		return st
	case "addsig":
		k := "correct"
		if r.Bool(hostile) {
			k = sigKinds[r.Intn(len(sigKinds))]
		}
		idx := r.Intn(h.n)
		if k == "correct" && r.Bool(0.8) {
			// prefer an empty foreign slot
			for i := 0; i < h.n; i++ {
				j := (idx + i) % h.n
				if h.stagedSigs != nil && !h.stagedSigs[j] && j != h.own {
					idx = j
					break
				}
			}
		}
		return kernel.St("addsig", "idx", idx, "kind", k, "r", int64(r.Uint64()>>2))
	case "set-progressing", "set-progressed":
		return kernel.St(op, "r", int64(r.Uint64()>>2))
	}
	return kernel.St(op)
}

func genProgram(r *kernel.Rand, prop string, n, own, app, length int, wrongPhase, hostile float64) []kernel.Step {
	res := &kernel.Result{}
	h := newHarness("gen", n, own, app, res, false)
	var steps []kernel.Step
	for len(steps) < length {
		var op string
		if r.Bool(wrongPhase) {
			op = allOps[r.Intn(len(allOps))]
		} else {
			l := likely[h.ph]
			op = l[r.Intn(len(l))]
		}
		if (op == "force" || op == "check") && h.cur == nil {
			continue // restricted by the property's quantifier
		}
		st := mkStep(r, op, h, hostile)
		steps = append(steps, st)
		h.do(&st)
	}
	return steps
}

// genC02 builds a program: reach states by accepted updates, offer candidates.
func genC02(r *kernel.Rand, tier string) []kernel.Step {
	var steps []kernel.Step
	// a few init attempts first (refused ones keep the machine in InitActing)
	for i := r.Intn(4); i > 0; i-- {
		steps = append(steps, kernel.St("init", "kind", initKinds[r.Intn(len(initKinds))], "r", int64(r.Uint64()>>2)))
	}
	steps = append(steps, kernel.St("init", "kind", "valid", "r", int64(r.Uint64()>>2)), kernel.St("advance"))
	reach := r.Range(1, 6)
	for s := 0; s < reach; s++ {
		for c := r.Range(3, 10); c > 0; c-- {
			op := "update"
			if r.Bool(0.35) {
				op = "check"
			}
			k := []string{"valid", "mut", "mut", "mut", "mut", "multi", "final"}[r.Intn(7)]
			if op == "update" && r.Bool(0.15) {
				// the very object that passed an earlier CheckUpdate: the machine may
				// have moved on since, or the object is changed first (touch=1)
				k = "rechecked"
			} else if op == "check" && r.Bool(0.5) {
				k = "valid" // candidates that pass, to be offered again later
			}
			rv := int64(r.Uint64() >> 2)
			if k != "rechecked" && kernel.NewRand(kernel.Derive(uint64(rv), "inplace")).Bool(0.12) {
				k = "inplace"
			}
			st := kernel.St(op, "kind", k, "r", rv)
			if k == "mut" {
				st.S["m"] = gen.Mutations[r.Intn(len(gen.Mutations))]
			}
			if k == "rechecked" {
				st.A["touch"] = int64(r.Intn(2))
			}
			steps = append(steps, st)
			if op == "update" {
				// if it was accepted: sometimes take it, sometimes discard it
				if r.Bool(0.3) && k != "final" {
					steps = append(steps, kernel.St("advance"))
				} else {
					steps = append(steps, kernel.St("discard"))
				}
			}
		}
		k := "valid"
		if s == reach-1 && r.Bool(0.4) {
			k = "final" // candidates after a final state
		}
		steps = append(steps, kernel.St("update", "kind", k, "r", int64(r.Uint64()>>2)), kernel.St("advance"))
	}
	for c := r.Range(2, 6); c > 0; c-- {
		st := kernel.St([]string{"update", "check"}[r.Intn(2)], "kind", []string{"valid", "mut", "final"}[r.Intn(3)], "r", int64(r.Uint64()>>2))
		if st.S["kind"] == "mut" {
			st.S["m"] = gen.Mutations[r.Intn(len(gen.Mutations))]
		}
		steps = append(steps, st)
	}
	return steps
}

func (e Engine) Generate(prop, tier string, run int, seed uint64) *kernel.Scenario {
	plan := e.Plan(prop, tier)
	sc := &kernel.Scenario{Config: map[string]int64{}}
	if run < plan.Exhaustive {
		alpha := canonical(2)
		k := run
		first := k % len(alpha)
		k /= len(alpha)
		own := k % 2
		k /= 2
		sc.Config["n"], sc.Config["own"], sc.Config["app"] = 2, int64(own), int64(k%2)
		sc.Config["enum_depth"] = int64(depth(prop, tier))
		sc.Steps = append(append([]kernel.Step{}, prefixes[k]...), alpha[first])
		sc.Config["prefix_len"] = int64(len(prefixes[k]))
		return sc
	}
	r := kernel.NewRand(seed)
	n := 2
	if r.Bool(0.3) {
		n = 3
	}
	own := r.Intn(n)
	app := r.Intn(2)
	if wr := kernel.NewRand(kernel.Derive(seed, "wide-channel")); wr.Bool(0.03) {
		// a big channel: many participants and assets, states of several KiB
		n = []int{16, 64, 64}[wr.Intn(3)]
		own = wr.Intn(n)
		sc.Config["wide_assets"] = 8
	}
	wideAssets = int(sc.Config["wide_assets"])
	defer func() { wideAssets = 0 }()
	sc.Config["n"], sc.Config["own"], sc.Config["app"] = int64(n), int64(own), int64(app)
	maxLen := map[string]int{"C01/quick": 40, "C01/thorough": 120, "C09/quick": 40, "C09/thorough": 150}[prop+"/"+tier]
	switch prop {
	case "C01":
		sc.Steps = genProgram(r, prop, n, own, app, r.Range(3, maxLen), 0.15, 0.5)
	case "C09":
		sc.Steps = genProgram(r, prop, n, own, app, r.Range(3, maxLen), 0.25, 0.3)
	case "C02":
		sc.Steps = genC02(r, tier)
		if sr := kernel.NewRand(kernel.Derive(seed, "slow-app")); sr.Bool(0.04) {
			// the regular update path as the client walks it: through the
			// persisting wrapper, with deadlines, against an app that takes time
			sc.Config["slow_app"] = 1
			sc.Steps = genSlowApp(sr)
			return sc
		}
	}
	// a marathon: far more promotions than any history buffer or counter of the
	// machine is likely to be sized for, before the drawn program goes on
	if sc.Config["wide_assets"] > 0 && len(sc.Steps) > 30 {
		sc.Steps = sc.Steps[:30] // (64 signatures per state: keep big channels short)
	}
	if mr := kernel.NewRand(kernel.Derive(seed, "marathon")); sc.Config["wide_assets"] == 0 && mr.Bool(0.04) {
		pre := []kernel.Step{kernel.St("init", "kind", "valid", "r", int64(mr.Uint64()>>2)), kernel.St("advance")}
		for k := mr.Range(130, 180); k > 0; k-- {
			pre = append(pre, kernel.St("update", "kind", "valid", "r", int64(mr.Uint64()>>2)), kernel.St("advance"))
		}
		sc.Steps = append(pre, sc.Steps...)
		sc.Config["marathon"] = 1
	}
	// restarts: at a few points the machine is rebuilt from itself
	rr := kernel.NewRand(kernel.Derive(seed, "restore"))
	if rr.Bool(0.4) {
		for k := rr.Range(1, 3); k > 0; k-- {
			pos := rr.Intn(len(sc.Steps) + 1)
			sc.Steps = append(sc.Steps[:pos], append([]kernel.Step{kernel.St("restore")}, sc.Steps[pos:]...)...)
		}
	}
	return sc
}

// ---- execution --------------------------------------------------------------

func (e Engine) Execute(t *testing.T, sc *kernel.Scenario, trace bool) *kernel.Result {
	res := &kernel.Result{}
	n, own, app := int(sc.Cfg("n", 2)), int(sc.Cfg("own", 0)), int(sc.Cfg("app", 0))
	if d := int(sc.Cfg("enum_depth", 0)); d > 0 {
		e.enumerate(sc, res, n, own, app, d, trace)
		return res
	}
	if sc.Cfg("slow_app", 0) == 1 {
		e.runSlowApp(t, sc, res, trace)
		return res
	}
	wideAssets = int(sc.Cfg("wide_assets", 0))
	defer func() { wideAssets = 0 }()
	e.runSeq(sc.Property, n, own, app, sc.Steps, res, trace)
	return res
}

func (Engine) runSeq(prop string, n, own, app int, steps []kernel.Step, res *kernel.Result, trace bool) {
	h := newHarness(prop, n, own, app, res, trace)
	enabled, refused, accepted, badSig := 0, 0, 0, 0
	seen := map[uint64]struct{}{}
	for i := range steps {
		h.step = i
		st := &steps[i]
		if (st.Op == "force" || st.Op == "check") && h.m.CurrentTX().State == nil {
			continue
		}
		curBefore := h.cur
		h.do(st)
		res.Evals++
		res.Count("op."+st.Op, 1)
		if st.Op == "addsig" && st.Str("kind") != "correct" {
			badSig++
			res.Count("fault.sig."+st.Str("kind"), 1)
		}
		if string(curBefore) != string(h.cur) {
			enabled++
		}
		if st.Op == "update" || st.Op == "check" {
			if h.m.Phase() == channel.Signing && st.Op == "update" {
				accepted++
			} else {
				refused++
			}
		}
		if res.Violation != nil {
			return
		}
	}
	for _, s := range res.States {
		seen[s] = struct{}{}
	}
	switch prop {
	case "C01":
		res.NonTrivial = enabled >= 1 && badSig >= 1
	case "C02":
		res.NonTrivial = accepted >= 1 && refused >= 1
	case "C09":
		res.NonTrivial = len(seen) >= 4
	}
}

// enumerate runs all sequences prefix+first+suffix with |first+suffix| = depth.
func (e Engine) enumerate(sc *kernel.Scenario, res *kernel.Result, n, own, app, depth int, trace bool) {
	alpha := canonical(n)
	base := sc.Steps
	idx := make([]int, depth-1)
	seq := make([]kernel.Step, len(base)+depth-1)
	copy(seq, base)
	states := map[uint64]struct{}{}
	for {
		for i, k := range idx {
			seq[len(base)+i] = alpha[k]
		}
		r := &kernel.Result{}
		e.runSeq(sc.Property, n, own, app, seq, r, false)
		res.Evals++
		for _, s := range r.States {
			states[s] = struct{}{}
		}
		if r.Violation != nil {
			// report the explicit failing sequence
			r2 := &kernel.Result{}
			e.runSeq(sc.Property, n, own, app, seq, r2, true)
			res.Violation = r.Violation
			res.Trace = r2.Trace
			ex := *sc
			ex.Config = map[string]int64{"n": int64(n), "own": int64(own), "app": int64(app)}
			ex.Steps = append([]kernel.Step{}, seq...)
			res.Explicit = &ex
			return
		}
		// next index vector
		i := len(idx) - 1
		for ; i >= 0; i-- {
			idx[i]++
			if idx[i] < len(alpha) {
				break
			}
			idx[i] = 0
		}
		if i < 0 {
			break
		}
		if res.Evals%256 == 0 {
			kernel.Progress()
		}
	}
	for s := range states {
		res.States = append(res.States, s)
	}
	res.NonTrivial = true
	if trace {
		res.Trace = []string{fmt.Sprintf("enumerated %d sequences after prefix %v", res.Evals, base)}
	}
}
