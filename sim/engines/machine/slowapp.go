package machine

// C02 through the persisting wrapper, with time: the app's transition check
// is user code and may take long, and the callers of the wrapper pass
// contexts with deadlines. The scenario runs in a synctest bubble (fake
// clock). Candidates are offered through persistence.StateMachine.Update
// with a context that expires before, while or after the app decides. The
// caller is sequential, as the client is (it holds the channel's machine
// lock around every call). Oracle, from the property statement: a candidate
// whose Update returned an error is never staged and never signed - not at
// once and not later; a candidate whose Update returned nil is exactly the
// staged state and satisfies the reference predicate; between two calls of
// the harness the machine does not change by itself.

import (
	"bytes"
	"context"
	"fmt"
	"math/big"
	"sync"
	"testing"
	"testing/synctest"
	"time"

	"perun.network/go-perun/apps/payment"
	"perun.network/go-perun/channel"
	"perun.network/go-perun/channel/persistence"
	"perun.network/go-perun/wallet"

	"verif/sim/gen"
	"verif/sim/kernel"
)

// slowApp is the payment app whose transition check takes time for marked
// versions and may refuse after having taken that time.
type slowApp struct {
	*payment.App
	mu     sync.Mutex
	delay  map[uint64]time.Duration // by version of the candidate
	refuse map[uint64]bool
	calls  int
}

// mark sets how the app treats candidates of a version from now on (calls
// that are already under way keep what they started with).
func (a *slowApp) mark(v uint64, d time.Duration, refuse bool) {
	a.mu.Lock()
	defer a.mu.Unlock()
	delete(a.delay, v)
	delete(a.refuse, v)
	if d > 0 {
		a.delay[v] = d
	}
	if refuse {
		a.refuse[v] = true
	}
}

func (a *slowApp) ValidTransition(p *channel.Params, from, to *channel.State, actor channel.Index) error {
	a.mu.Lock()
	a.calls++
	d, refuse := a.delay[to.Version], a.refuse[to.Version]
	a.mu.Unlock()
	if d > 0 {
		time.Sleep(d)
	}
	if refuse {
		return fmt.Errorf("slow app: refused")
	}
	return a.App.ValidTransition(p, from, to, actor)
}

func genSlowApp(r *kernel.Rand) []kernel.Step {
	var steps []kernel.Step
	for i, n := 0, r.Range(2, 6); i < n; i++ {
		steps = append(steps, kernel.St("slow-update",
			"delay_ms", []int{0, 20, 100, 600, 2500}[r.Intn(5)],
			"ctx_ms", []int{0, 1, 50, 300, 5000}[r.Intn(5)], // 0: no deadline
			"refuse", r.Weighted([]int{3, 1}),
			"then", r.Intn(3), // what the caller does after a refused candidate: 0 nothing, 1 another (prompt) update that is enabled, 2 a prompt final update that is enabled
			"wait_ms", []int{0, 700, 3000}[r.Intn(3)],
			"amt", 1+r.Intn(3)))
	}
	return steps
}

func (Engine) runSlowApp(t *testing.T, sc *kernel.Scenario, res *kernel.Result, trace bool) {
	step := 0
	logf := func(format string, a ...any) {
		if trace {
			res.Trace = append(res.Trace, fmt.Sprintf("%d: ", step)+fmt.Sprintf(format, a...))
		}
	}
	fail := func(check, format string, a ...any) {
		if res.Violation == nil {
			res.Fail(step, check, format, a...)
			logf("VIOLATION %s: %s", check, res.Violation.Detail)
		}
	}
	defer func() {
		// (a goroutine left behind in the bubble after a reported violation is
		// part of that violation; without one it is trouble of the harness)
		if p := recover(); p != nil && res.Violation == nil {
			panic(p)
		}
	}()
	synctest.Test(t, func(t *testing.T) {
		start := time.Now()
		// whatever a call has left running gets the time to finish before the bubble ends
		defer time.Sleep(20 * time.Second)
		const n = 2
		own := int(sc.Cfg("own", 0)) & 1
		accs := gen.Pool(n)
		pay, ok := gen.PaymentApp(0).(*payment.App)
		if !ok {
			panic("machine: gen.PaymentApp is not a *payment.App")
		}
		app := &slowApp{App: pay, delay: map[uint64]time.Duration{}, refuse: map[uint64]bool{}}
		params := gen.Params(accs, 60, gen.AppPayment, 4711, true, false)
		params.App = app
		m, err := channel.NewStateMachine(accs[own].AccMap, *params)
		if err != nil {
			panic(err)
		}
		psm := persistence.FromStateMachine(m, persistence.NonPersistRestorer)
		bg := context.Background()
		snapshot := func() []byte {
			var b bytes.Buffer
			fmt.Fprintf(&b, "phase=%v|", m.Phase())
			for _, tx := range []channel.Transaction{m.CurrentTX(), m.StagingTX()} {
				if tx.State == nil {
					b.WriteString("nil|")
					continue
				}
				b.Write(gen.EncodeState(tx.State))
				for _, sg := range tx.Sigs {
					fmt.Fprintf(&b, "/%x", []byte(sg))
				}
				b.WriteString("|")
			}
			return b.Bytes()
		}
		// every state ever refused, by encoding: none of them may ever be staged or current
		refused := map[string]string{}
		checkRefused := func(when string) {
			for _, tx := range []channel.Transaction{m.CurrentTX(), m.StagingTX()} {
				if tx.State == nil {
					continue
				}
				if what, bad := refused[string(gen.EncodeState(tx.State))]; bad {
					signed := tx.Sigs != nil && own < len(tx.Sigs) && tx.Sigs[own] != nil
					fail("C02.refused-candidate-staged-later", "%s: the machine holds a candidate whose Update had returned an error (%s); phase %v, own signature on it: %v", when, what, m.Phase(), signed)
					return
				}
			}
		}
		// signAll collects every signature for the staged state and enables it
		signAll := func(final bool) bool {
			if _, err := psm.Sig(bg); err != nil {
				fail("C02.harness", "Sig on an accepted candidate failed: %v", err)
				return false
			}
			st := m.StagingState()
			for i := 0; i < n; i++ {
				if i == own {
					continue
				}
				sg, err := channel.Sign(accs[i].Acc, st, channel.TestBackendID)
				if err != nil {
					panic(err)
				}
				if err := psm.AddSig(bg, channel.Index(i), sg); err != nil {
					fail("C02.harness", "AddSig of a correct signature failed: %v", err)
					return false
				}
			}
			if m.Phase() == channel.InitSigning {
				if err := psm.EnableInit(bg); err != nil {
					fail("C02.harness", "EnableInit failed: %v", err)
					return false
				}
				return psm.SetFunded(bg) == nil
			}
			if final {
				err = psm.EnableFinal(bg)
			} else {
				err = psm.EnableUpdate(bg)
			}
			if err != nil {
				fail("C02.harness", "enabling a fully signed update failed: %v", err)
				return false
			}
			return true
		}
		alloc := channel.Allocation{Assets: []channel.Asset{gen.Asset(0)}, Backends: []wallet.BackendID{channel.TestBackendID},
			Balances: channel.Balances{{big.NewInt(1000), big.NewInt(1000)}}}
		if err := psm.Init(bg, alloc, channel.NoData()); err != nil {
			panic(fmt.Sprintf("machine: slow-app scenario: Init: %v", err))
		}
		if !signAll(false) {
			return
		}
		// candidate: actor pays amt to the other participant
		candidate := func(actor int, amt int64, final bool) *channel.State {
			s := m.State().Clone()
			s.Version++
			s.IsFinal = final
			s.Balances[0][actor] = new(big.Int).Sub(s.Balances[0][actor], big.NewInt(amt))
			s.Balances[0][1-actor] = new(big.Int).Add(s.Balances[0][1-actor], big.NewInt(amt))
			return s
		}
		for i := range sc.Steps {
			step = i
			st := &sc.Steps[i]
			if st.Op != "slow-update" || res.Violation != nil {
				continue
			}
			if m.Phase() != channel.Acting {
				break // (final: nothing follows)
			}
			res.Evals++
			res.Count("op.slow-update", 1)
			actor := i & 1
			// (every candidate of a run is a different state: a refused one is identified by its encoding)
			cand := candidate(actor, st.Int("amt")+20*int64(i), false)
			delay := time.Duration(st.Int("delay_ms")) * time.Millisecond
			app.mark(cand.Version, delay, st.Int("refuse") == 1)
			ctx, cancel := bg, context.CancelFunc(func() {})
			if ms := st.Int("ctx_ms"); ms > 0 {
				ctx, cancel = context.WithTimeout(bg, time.Duration(ms)*time.Millisecond)
				if time.Duration(ms)*time.Millisecond < delay {
					res.Count("fault.context-expires-while-app-decides", 1)
				}
			}
			before := snapshot()
			t0 := time.Now()
			err := psm.Update(ctx, cand, channel.Index(actor))
			cancel()
			logf("update v%d (app takes %v, refuses=%v, deadline %dms) -> %v after %v", cand.Version, delay, st.Int("refuse") == 1, st.Int("ctx_ms"), err, time.Since(t0))
			// from here on the app answers promptly for this version
			app.mark(cand.Version, 0, false)
			if err == nil {
				if st.Int("refuse") == 1 {
					fail("C02.accepted-invalid@app-rule", "a candidate the app refuses was accepted by Update")
					return
				}
				if ss := m.StagingState(); m.Phase() != channel.Signing || ss == nil || !bytes.Equal(gen.EncodeState(ss), gen.EncodeState(cand)) {
					fail("C02.accepted-not-staged", "Update returned nil but the staged state is not the candidate (phase %v)", m.Phase())
					return
				}
				if i%2 == 0 {
					if !signAll(false) {
						return
					}
				} else if err := psm.DiscardUpdate(bg); err != nil {
					fail("C02.harness", "DiscardUpdate of an accepted candidate failed: %v", err)
					return
				}
				continue
			}
			// refused: the machine is as before, and stays so
			refused[string(gen.EncodeState(cand))] = fmt.Sprintf("version %d, error: %v", cand.Version, err)
			if !bytes.Equal(before, snapshot()) {
				fail("C02.refused-changed-machine", "Update returned an error (%v) and the machine differs from before the call", err)
				return
			}
			res.Count("probe.slow-candidate-refused", 1)
			switch st.Int("then") {
			case 1, 2:
				// the channel moves on: another candidate of the same version, prompt, enabled
				other := candidate(1-actor, st.Int("amt")+20*int64(i)+7, st.Int("then") == 2)
				if err := psm.Update(bg, other, channel.Index(1-actor)); err != nil {
					fail("C02.refused-valid", "a valid prompt candidate after a refused one was refused: %v", err)
					return
				}
				if !signAll(st.Int("then") == 2) {
					return
				}
			}
			mid := snapshot()
			if w := st.Int("wait_ms"); w > 0 {
				time.Sleep(time.Duration(w) * time.Millisecond)
			}
			checkRefused("some time after the refusal")
			if res.Violation == nil && !bytes.Equal(mid, snapshot()) {
				fail("C02.machine-changed-by-itself", "%d ms after the last call the machine differs from what that call left (phase %v)", st.Int("wait_ms"), m.Phase())
			}
		}
		if res.Violation == nil {
			end := snapshot()
			time.Sleep(5 * time.Second)
			checkRefused("5 s after the last call")
			if res.Violation == nil && !bytes.Equal(end, snapshot()) {
				fail("C02.machine-changed-by-itself", "5 s after the last call the machine differs from what that call left (phase %v)", m.Phase())
			}
		}
		res.Count("sim.seconds", int64(time.Since(start)/time.Second))
		res.NonTrivial = app.calls > 0
	})
}
