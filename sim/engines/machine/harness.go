// Package machine is the history-kernel engine for the channel state machine
// (properties C01, C02, C09): seeded and enumerated call programs against the
// real channel.StateMachine, a hostile signature delivery, a signature ledger,
// a reference transition predicate and a reference phase automaton.
package machine

import (
	"bytes"
	"fmt"
	"math/big"

	"perun.network/go-perun/channel"
	"perun.network/go-perun/wallet"

	"verif/sim/gen"
	"verif/sim/kernel"
)

type sigRec struct {
	signer int
	state  uint64 // hash of the state's encoding the signature was made for
	sig    wallet.Sig
}

// harness drives one real machine and the reference model side by side.
type harness struct {
	noMoreCandidates bool                  // C01: a state with another participant count was force-staged
	other            *channel.StateMachine // the machine left behind by the last clone op: must never change again
	otherSnap        []byte
	refCur           *channel.State // own deep copy of the current state, taken before a candidate is derived
	lastChecked      gen.Succ       // the last candidate that passed CheckUpdate (same object)
	prop             string
	n, own           int
	appKind          int
	accs             []*gen.Acc
	params           *channel.Params
	m                *channel.StateMachine
	res              *kernel.Result
	trace            bool
	step             int

	// reference automaton (written from the doc comments of the operations)
	ph         channel.Phase
	staged     []byte // encoding of the staged state, nil if none
	stagedFin  bool
	stagedSigs []bool
	cur        []byte // encoding of the current state, nil if none
	curFinal   bool
	curVersion uint64
	curForced  bool // current state adopted from a progression event

	// signature ledger: everything that was ever signed in this run
	ledger   map[[3]uint64]struct{}
	recorded []sigRec
	// states seen (for "signature over another state")
	otherStates []*channel.State
	lastAdded   *sigRec
}

// wideAssets > 0 (Config "wide_assets"): initial allocations of the run have
// that many assets (big channels whose states take several KiB).
var wideAssets int

func newHarness(prop string, n, own, appKind int, res *kernel.Result, trace bool) *harness {
	h := &harness{prop: prop, n: n, own: own, appKind: appKind, res: res, trace: trace,
		accs: gen.Pool(n), ledger: map[[3]uint64]struct{}{}}
	h.params = gen.Params(h.accs, 60, appKind, 7, true, false)
	m, err := channel.NewStateMachine(h.accs[own].AccMap, *h.params)
	if err != nil {
		panic(err)
	}
	h.m = m
	h.ph = channel.InitActing
	return h
}

func (h *harness) logf(format string, a ...any) {
	if h.trace {
		h.res.Trace = append(h.res.Trace, fmt.Sprintf("%d: ", h.step)+fmt.Sprintf(format, a...))
	}
}

func (h *harness) fail(check, format string, a ...any) {
	h.res.Fail(h.step, check, format, a...)
	if h.trace {
		h.res.Trace = append(h.res.Trace, fmt.Sprintf("%d: VIOLATION %s: %s", h.step, check, fmt.Sprintf(format, a...)))
	}
}

func (h *harness) signingPhase() bool {
	return h.ph == channel.InitSigning || h.ph == channel.Signing || h.ph == channel.Progressing
}

// sign produces signer's signature over s and records it in the ledger.
// A state that cannot be encoded cannot be signed; then a fixed garbage
// signature is returned (ok=false).
func (h *harness) sign(signer int, s *channel.State) (sig wallet.Sig, ok bool) {
	sig, err := channel.Sign(h.accs[signer].Acc, s, channel.TestBackendID)
	if err != nil {
		return bytes.Repeat([]byte{0x5a}, 64), false
	}
	h.record(signer, s, sig)
	return sig, true
}

func (h *harness) record(signer int, s *channel.State, sig wallet.Sig) {
	sh := gen.StateHash(s)
	h.ledger[[3]uint64{uint64(signer), sh, kernel.HashBytes(sig)}] = struct{}{}
	h.recorded = append(h.recorded, sigRec{signer, sh, sig})
}

func (h *harness) inLedger(signer int, stateEnc []byte, sig wallet.Sig) bool {
	_, ok := h.ledger[[3]uint64{uint64(signer), kernel.HashBytes(stateEnc), kernel.HashBytes(sig)}]
	return ok
}

// snapshot is the harness's own encoding of everything observable.
func (h *harness) snapshot() []byte { return h.snapshotOf(h.m) }

func (h *harness) snapshotOf(m *channel.StateMachine) []byte {
	var b bytes.Buffer
	fmt.Fprintf(&b, "ph=%d|", m.Phase())
	wtx := func(tx channel.Transaction) {
		if tx.State == nil {
			b.WriteString("nil|")
		} else {
			b.Write(gen.EncodeState(tx.State))
			b.WriteString("|")
		}
		fmt.Fprintf(&b, "%d:", len(tx.Sigs))
		for _, s := range tx.Sigs {
			if s == nil {
				b.WriteString("-,")
			} else {
				fmt.Fprintf(&b, "%x,", []byte(s))
			}
		}
		b.WriteString("|")
	}
	wtx(m.StagingTX())
	wtx(m.CurrentTX())
	return b.Bytes()
}

// abstract is the abstract state counted in the evidence.
func (h *harness) abstract() uint64 {
	mask := 0
	for i, s := range h.m.StagingTX().Sigs {
		if s != nil {
			mask |= 1 << i
		}
	}
	st := h.m.StagingTX().State
	cu := h.m.CurrentTX().State
	return kernel.Derive(3, int(h.m.Phase()), mask, b2i(st != nil), b2i(st != nil && st.IsFinal), b2i(cu != nil), b2i(cu != nil && cu.IsFinal), h.own)
}

func b2i(b bool) int {
	if b {
		return 1
	}
	return 0
}

// call runs f against the real machine, turning a panic into an error value
// the oracles can see.
func (h *harness) call(f func() error) (err error, panicked bool) {
	defer func() {
		if r := recover(); r != nil {
			err, panicked = fmt.Errorf("panic: %v", r), true
		}
	}()
	return f(), false
}

// ---- oracles -------------------------------------------------------------

// checkC01 is evaluated after every call.
func (h *harness) checkC01() {
	cur := h.m.CurrentTX()
	if cur.State != nil && h.curForced && !bytes.Equal(gen.EncodeState(cur.State), h.cur) {
		// the only current states without every signature are those adopted from
		// an on-chain progression event: exactly the event's state
		h.fail("C01.unsigned-current-not-from-event", "after a progression event the current state v%d is not the state the event carried", cur.Version)
		return
	}
	if cur.State != nil && !h.curForced {
		enc := gen.EncodeState(cur.State)
		if len(cur.Sigs) != h.n {
			h.fail("C01.sig-count", "current state v%d has %d signature slots, want %d", cur.Version, len(cur.Sigs), h.n)
			return
		}
		for i, sig := range cur.Sigs {
			if sig == nil {
				h.fail("C01.missing-sig", "current state v%d lacks signature of participant %d", cur.Version, i)
				return
			}
			ok, err := channel.Verify(h.accs[i].Addr[channel.TestBackendID], cur.State, sig)
			if err != nil || !ok {
				h.fail("C01.invalid-sig", "current state v%d: signature %d does not verify (%v)", cur.Version, i, err)
				return
			}
			if !h.inLedger(i, enc, sig) {
				h.fail("C01.unledgered-sig", "current state v%d: signature %d was never produced by participant %d over this state", cur.Version, i, i)
				return
			}
		}
		req := h.m.AdjudicatorReq()
		if req.Tx.State != cur.State || len(req.Tx.Sigs) != len(cur.Sigs) {
			h.fail("C01.adjreq", "AdjudicatorReq does not carry the current transaction")
			return
		}
	}
	st := h.m.StagingTX()
	if st.State != nil {
		enc := gen.EncodeState(st.State)
		for i, sig := range st.Sigs {
			if sig == nil {
				continue
			}
			ok, err := channel.Verify(h.accs[i].Addr[channel.TestBackendID], st.State, sig)
			if err != nil || !ok {
				h.fail("C01.staged-invalid-sig", "staged state v%d: slot %d holds a signature that does not verify (%v)", st.Version, i, err)
				return
			}
			if !h.inLedger(i, enc, sig) {
				h.fail("C01.staged-unledgered-sig", "staged state v%d: slot %d holds a signature never made by %d over it", st.Version, i, i)
				return
			}
		}
	}
}

// checkModel compares the real machine with the reference automaton (C09).
func (h *harness) checkModel(op string) {
	if h.m.Phase() != h.ph {
		h.fail("C09.phase", "after %s: phase %v, documented %v", op, h.m.Phase(), h.ph)
		return
	}
	st := h.m.StagingTX()
	var got []byte
	if st.State != nil {
		got = gen.EncodeState(st.State)
	}
	if !bytes.Equal(got, h.staged) {
		h.fail("C09.staged", "after %s: staged state differs from the documented one (have=%v want=%v)", op, got != nil, h.staged != nil)
		return
	}
	if st.State != nil {
		for i := 0; i < h.n; i++ {
			have := i < len(st.Sigs) && st.Sigs[i] != nil
			if have != h.stagedSigs[i] {
				h.fail("C09.staged-sigs", "after %s: signature slot %d set=%v, documented %v", op, i, have, h.stagedSigs[i])
				return
			}
		}
	}
	cu := h.m.CurrentTX()
	got = nil
	if cu.State != nil {
		got = gen.EncodeState(cu.State)
	}
	if !bytes.Equal(got, h.cur) {
		h.fail("C09.current", "after %s: current state differs from the documented one", op)
	}
}

// outcome checks err==nil iff the reference precondition holds, and atomicity
// on error.
func (h *harness) outcome(op string, want bool, err error, panicked bool, before []byte) bool {
	if panicked {
		h.fail(h.prop+".panic@"+op, "%s panicked: %v", op, err)
		return false
	}
	ok := err == nil
	if h.prop == "C09" {
		if ok != want {
			if ok {
				h.fail("C09.accepted@"+op, "%s succeeded in phase %v although its documented precondition does not hold", op, h.ph)
			} else {
				h.fail("C09.refused@"+op, "%s failed in phase %v although its documented precondition holds: %v", op, h.ph, err)
			}
			return ok
		}
		if !ok && !bytes.Equal(before, h.snapshot()) {
			h.fail("C09.not-atomic@"+op, "%s returned an error but changed phase/staged/current", op)
		}
	}
	return ok
}

// ---- operations ------------------------------------------------------------

func (h *harness) setStagedModel(s *channel.State, ph channel.Phase) {
	h.staged = gen.EncodeState(s)
	h.stagedFin = s.IsFinal
	h.stagedSigs = make([]bool, h.n)
	h.ph = ph
	h.otherStates = append(h.otherStates, s)
	if len(h.otherStates) > 8 {
		h.otherStates = h.otherStates[1:]
	}
}

func (h *harness) enableModel(to channel.Phase) {
	h.cur, h.curFinal = h.staged, h.stagedFin
	h.staged, h.stagedSigs = nil, nil
	h.curForced = false
	h.ph = to
}

func (h *harness) allSigned() bool {
	if h.staged == nil {
		return false
	}
	for _, b := range h.stagedSigs {
		if !b {
			return false
		}
	}
	return true
}

// candidate derives a candidate successor of the machine's current state.
// kind: "valid", "final", "mut", "multi".
func (h *harness) candidate(st *kernel.Step) (gen.Succ, bool) {
	c, ok := h.candidateRaw(st)
	if ok && c.State != nil && gen.BalanceOverLimit(&c.State.Allocation) {
		// a balance beyond the 128 bytes of its encoding is outside the documented
		// limits (the machine stages such a state and then cannot sign it): the
		// candidate only advances the version instead
		cur := h.m.CurrentTX().State
		s := gen.CloneState(cur)
		s.Version = cur.Version + 1
		h.res.Count("probe.candidate-over-size-limit-replaced", 1)
		return gen.Succ{State: s, Actor: c.Actor, Valid: true, Mut: "version-only"}, true
	}
	return c, ok
}

func (h *harness) candidateRaw(st *kernel.Step) (gen.Succ, bool) {
	cur := h.m.CurrentTX().State
	if cur == nil {
		return gen.Succ{}, false
	}
	r := kernel.NewRand(kernel.Derive(uint64(st.Int("r")), "cand"))
	h.refCur = gen.CloneState(cur)
	su := gen.ValidSuccessor(r, cur, h.n, h.appKind, st.Str("kind") == "final" || (st.Str("kind") != "valid" && r.Bool(0.1)))
	switch st.Str("kind") {
	case "valid", "final":
		return su, true
	case "rechecked":
		// same pointer and actor as the last candidate that CheckUpdate let
		// through; with touch=1 its content is changed in place first
		if h.lastChecked.State == nil {
			return su, true
		}
		c := h.lastChecked
		c.Mut = "rechecked"
		if st.Int("touch") == 1 && len(c.State.Balances) > 0 && len(c.State.Balances[0]) > 0 {
			c.State.Balances[0][0] = new(big.Int).Add(c.State.Balances[0][0], big.NewInt(1000))
			c.Mut = "rechecked+touched"
		}
		return c, true
	case "inplace":
		// the way a caller of the library builds a candidate (client.Channel.Update
		// does exactly this): clone the machine's state with the library's own
		// Clone and edit the clone in place. The reference judges the candidate
		// against the harness's own deep copy of the current state taken before.
		var c *channel.State
		if err, pan := h.call(func() error { c = h.m.State().Clone(); return nil }); err != nil || pan || c == nil || !gen.WellFormed(&c.Allocation) {
			return su, true
		}
		c.Version = cur.Version + 1
		out := gen.Succ{State: c, Actor: su.Actor, Mut: "inplace:version-only"}
		delta := big.NewInt(int64(r.Range(1, 1000)))
		a := r.Intn(len(c.Balances))
		switch x := r.Intn(4); {
		case x == 0 && len(c.Balances[a]) > 0:
			// funds created in a participant's balance
			b := c.Balances[a][r.Intn(len(c.Balances[a]))]
			b.Add(b, delta)
			out.Mut = "inplace:participant-balance+"
		case x <= 2 && len(c.Locked) > 0:
			// funds created (or destroyed) in a locked sub-allocation
			l := c.Locked[r.Intn(len(c.Locked))]
			if a < len(l.Bals) && l.Bals[a] != nil {
				if x == 2 && l.Bals[a].Cmp(delta) >= 0 {
					l.Bals[a].Sub(l.Bals[a], delta)
					out.Mut = "inplace:locked-balance-"
				} else {
					l.Bals[a].Add(l.Bals[a], delta)
					out.Mut = "inplace:locked-balance+"
				}
			}
		}
		h.res.Count("probe.candidate-edited-in-place", 1)
		return out, true
	case "mut":
		out, ok := safeMutate(r, st.Str("m"), cur, su, h.n, h.appKind)
		if !ok {
			return su, true
		}
		return out, true
	case "multi":
		out := su
		k := r.Range(2, 3)
		for i := 0; i < k; i++ {
			m := gen.Mutations[r.Intn(len(gen.Mutations))]
			if o, ok := safeMutate(r, m, cur, out, h.n, h.appKind); ok {
				o.Mut = out.Mut + "+" + m
				out = o
			}
		}
		return out, true
	}
	return su, true
}

// safeMutate applies a mutation; on irregular states (force-staged or adopted
// from a progression event) a mutation may not be applicable at all.
func safeMutate(r *kernel.Rand, m string, cur *channel.State, su gen.Succ, n, app int) (o gen.Succ, ok bool) {
	defer func() {
		if recover() != nil {
			ok = false
		}
	}()
	return gen.Mutate(r, m, cur, su, n, app)
}

func (h *harness) refValid(c gen.Succ) (bool, string) {
	cur := h.m.CurrentTX().State
	if h.refCur != nil && cur != nil {
		cur = h.refCur // the harness's own copy, made before the candidate was derived
	}
	return gen.RefValidSuccessor(h.params.ID(), h.params.App, h.n, cur, c.State, c.Actor)
}

func (h *harness) do(st *kernel.Step) {
	h.doOp(st)
	if h.other != nil && st.Op != "clone" && h.res.Violation == nil {
		if !bytes.Equal(h.otherSnap, h.snapshotOf(h.other)) {
			h.fail(h.prop+".operation-changed-another-machine", "%s on one machine changed the machine it was cloned from (or its clone)", st.Op)
		}
	}
}

func (h *harness) doOp(st *kernel.Step) {
	before := h.snapshot()
	op := st.Op
	switch op {
	case "init":
		r := kernel.NewRand(kernel.Derive(uint64(st.Int("r")), "init"))
		sh := gen.RandShape(r, h.n)
		if wideAssets > 0 {
			sh.Assets, sh.Huge = wideAssets, false
		}
		alloc := gen.Allocation(r, sh)
		var data channel.Data = channel.NoData()
		kind := st.Str("kind")
		switch kind {
		case "parts-short":
			k := r.Intn(len(alloc.Balances))
			alloc.Balances[k] = alloc.Balances[k][:h.n-1]
		case "parts-long":
			for k := range alloc.Balances {
				alloc.Balances[k] = append(alloc.Balances[k], big.NewInt(1))
			}
		case "neg":
			alloc.Balances[r.Intn(len(alloc.Balances))][r.Intn(h.n)] = big.NewInt(-1)
		case "no-assets":
			alloc.Assets, alloc.Backends, alloc.Balances = nil, nil, nil
			alloc.Locked = nil
		case "asset-mismatch":
			alloc.Assets = append(alloc.Assets, gen.Asset(9))
			alloc.Backends = append(alloc.Backends, channel.TestBackendID)
		case "locked-dim":
			alloc.Locked = append(alloc.Locked, *channel.NewSubAlloc(gen.SubID(3), make([]channel.Bal, 0), nil))
		case "locked-neg":
			b := make([]channel.Bal, len(alloc.Assets))
			for i := range b {
				b[i] = big.NewInt(-2)
			}
			alloc.Locked = append(alloc.Locked, *channel.NewSubAlloc(gen.SubID(4), b, nil))
		case "data":
			if h.appKind == gen.AppNone {
				data = channel.NewMockOp(channel.OpValid)
			} else {
				kind = "valid" // the payment app documents a panic for foreign data
			}
		}
		refOK, why := gen.RefValidInit(h.n, &alloc, channel.IsNoData(data))
		want := h.ph == channel.InitActing && refOK
		err, pan := h.call(func() error { return h.m.Init(alloc, data) })
		h.logf("init kind=%s shape=%+v -> %v (ref: %v %s)", kind, sh, err, refOK, why)
		if h.prop == "C02" && !pan && h.ph == channel.InitActing {
			if (err == nil) != refOK {
				h.fail("C02.init@"+kind+"/"+why, "Init returned %v, reference says acceptable=%v (%s)", err, refOK, why)
			}
			if err != nil && h.res.Violation == nil {
				// a refused initial state is not staged and is never signed
				if !bytes.Equal(before, h.snapshot()) {
					h.fail("C02.refusal-mutates@init", "a refused Init changed the machine (phase %v, staged=%v)", h.m.Phase(), h.m.StagingState() != nil)
				} else if sig, serr := h.m.Sig(); serr == nil && sig != nil {
					h.fail("C02.signed-refused@init", "Sig() produced a signature after a refused Init")
				}
			}
		}
		if h.outcome(op, want, err, pan, before) {
			s := h.m.StagingState()
			if s == nil {
				h.fail(h.prop+".init-nostaging", "Init succeeded without a staged state")
				return
			}
			if h.prop == "C02" {
				if s.Version != 0 || s.ID != h.params.ID() || s.IsFinal {
					h.fail("C02.init-state", "initial state has version %d / foreign id / final=%v", s.Version, s.IsFinal)
				}
				if !bytes.Equal(gen.EncodeState(&channel.State{ID: h.params.ID(), App: h.params.App, Allocation: alloc, Data: data}), gen.EncodeState(s)) {
					h.fail("C02.init-state", "initial state is not the given allocation and data")
				}
			}
			h.setStagedModel(s, channel.InitSigning)
		}
	case "update", "check", "force":
		if h.noMoreCandidates {
			h.logf("%s skipped (a state with another participant count was forced earlier)", op)
			return
		}
		c, ok := h.candidate(st)
		if !ok {
			h.logf("%s skipped (no current state)", op)
			return
		}
		refOK, why := h.refValid(c)
		h.res.Count("cand."+why, 1)
		switch op {
		case "check":
			// signature by the first other participant over the candidate
			signer := (h.own + 1) % h.n
			sig, _ := h.sign(signer, c.State)
			err, pan := h.call(func() error { return h.m.CheckUpdate(c.State, c.Actor, sig, channel.Index(signer)) })
			h.logf("check %s mut=%q actor=%d -> %v (ref %v %s)", st.Str("kind"), c.Mut, c.Actor, err, refOK, why)
			if pan {
				h.fail(h.prop+".panic@check/"+mutClass(c.Mut), "CheckUpdate panicked: %v", err)
				return
			}
			if h.prop == "C02" && (err == nil) != refOK {
				h.fail("C02.check@"+mutClass(c.Mut)+"/"+why, "CheckUpdate(%s) returned %v, reference says acceptable=%v (%s)", c.Mut, err, refOK, why)
			}
			if err == nil {
				h.lastChecked = c
			}
			if !bytes.Equal(before, h.snapshot()) {
				h.fail(h.prop+".check-mutates", "CheckUpdate changed the machine")
			}
		case "update":
			want := h.ph == channel.Acting && refOK
			err, pan := h.call(func() error { return h.m.Update(c.State, c.Actor) })
			if err == nil && c.State == h.lastChecked.State {
				h.lastChecked = gen.Succ{} // the machine owns the object now: it must not be changed any more
			}
			h.logf("update %s mut=%q actor=%d v=%d -> %v (ref %v %s)", st.Str("kind"), c.Mut, c.Actor, c.State.Version, err, refOK, why)
			if pan {
				h.fail(h.prop+".panic@update/"+mutClass(c.Mut), "Update panicked: %v", err)
				return
			}
			if h.prop == "C02" && h.ph == channel.Acting {
				if (err == nil) != refOK {
					h.fail("C02.update@"+mutClass(c.Mut)+"/"+why, "Update(%s) returned %v, reference says acceptable=%v (%s)", c.Mut, err, refOK, why)
				}
				if err != nil {
					if !bytes.Equal(before, h.snapshot()) {
						h.fail("C02.refusal-mutates", "refused Update changed the machine")
					}
					// a refused candidate is never signed
					sig, serr := h.m.Sig()
					if serr == nil && sig != nil {
						if ok, _ := channel.Verify(h.accs[h.own].Addr[channel.TestBackendID], c.State, sig); ok {
							h.fail("C02.signed-refused", "Sig() signed the refused candidate")
						}
						if st := h.m.StagingState(); st != nil {
							h.record(h.own, st, sig)
						}
					}
				} else if h.m.StagingState() != c.State && !bytes.Equal(gen.EncodeState(h.m.StagingState()), gen.EncodeState(c.State)) {
					h.fail("C02.staged-other", "accepted Update staged a different state")
				}
			}
			if h.outcome(op, want, err, pan, before) {
				h.setStagedModel(c.State, channel.Signing)
			}
		case "force":
			if h.prop == "C01" && gen.WellFormed(&c.State.Allocation) && len(c.State.Balances) > 0 && len(c.State.Balances[0]) != h.n && len(c.State.Balances[0]) > 0 {
				// C01 only: a forced state with balance columns for another number of
				// participants than the channel has (a state of another channel). It
				// still needs every participant's signature. No further candidates
				// are offered afterwards (apps index balances by participant).
				h.noMoreCandidates = true
				h.res.Count("probe.forced-other-participant-count", 1)
			} else if !gen.WellFormed(&c.State.Allocation) || len(c.State.Balances[0]) != h.n {
				// an unencodable state cannot be signed by anyone; the library
				// only force-stages states it received in encoded form
				c, _ = h.candidate(&kernel.Step{Op: "force", A: st.A, S: map[string]string{"kind": "valid"}})
			}
			err, pan := h.call(func() error { return h.m.ForceUpdate(c.State, c.Actor) })
			h.logf("force mut=%q v=%d -> %v", c.Mut, c.State.Version, err)
			if h.outcome(op, true, err, pan, before) {
				h.setStagedModel(c.State, channel.Signing)
			}
		}
	case "sig":
		want := h.signingPhase()
		var sig wallet.Sig
		err, pan := h.call(func() (e error) { sig, e = h.m.Sig(); return e })
		h.logf("sig -> %v", err)
		if h.outcome(op, want, err, pan, before) {
			st := h.m.StagingState()
			if st == nil || sig == nil {
				h.fail(h.prop+".sig-nostate", "Sig succeeded without staged state or signature")
				return
			}
			// what Sig documents: own signature on the currently staged state
			ok, verr := channel.Verify(h.accs[h.own].Addr[channel.TestBackendID], st, sig)
			if verr != nil || !ok {
				h.fail(h.prop+".sig-not-over-staged", "Sig() returned a signature that is not the own signature over the staged state")
				return
			}
			h.record(h.own, st, sig)
			if h.stagedSigs != nil {
				h.stagedSigs[h.own] = true
			}
		} else if err == nil && !pan && sig != nil && !want {
			// signature produced outside a signing phase
			h.fail(h.prop+".sig-outside-phase", "Sig() produced a signature in phase %v", h.ph)
		}
	case "addsig":
		idx := int(st.Int("idx")) % h.n
		staged := h.m.StagingState()
		var sig wallet.Sig
		valid := false
		kind := st.Str("kind")
		r := kernel.NewRand(kernel.Derive(uint64(st.Int("r")), "addsig"))
		switch kind {
		case "correct":
			if staged != nil {
				sig, valid = h.sign(idx, staged)
			} else {
				sig = r.Bytes(64)
			}
		case "other-signer":
			if staged != nil {
				sig, _ = h.sign((idx+1)%h.n, staged)
			} else {
				sig = r.Bytes(64)
			}
		case "other-state":
			// signature of idx over a different state: previous staged, current, or a one-field variant
			var o *channel.State
			switch r.Intn(3) {
			case 0:
				if len(h.otherStates) > 1 {
					o = h.otherStates[r.Intn(len(h.otherStates)-1)]
				}
			case 1:
				o = h.m.CurrentTX().State
			}
			if o == nil && staged != nil {
				c := *staged
				c.Version++
				o = &c
			}
			if o != nil {
				var sok bool
				sig, sok = h.sign(idx, o)
				valid = sok && staged != nil && bytes.Equal(gen.EncodeState(o), gen.EncodeState(staged))
			} else {
				sig = r.Bytes(64)
			}
		case "replay":
			if len(h.recorded) > 0 {
				rec := h.recorded[r.Intn(len(h.recorded))]
				sig = rec.sig
				valid = staged != nil && rec.signer == idx && rec.state == gen.StateHash(staged)
			} else {
				sig = r.Bytes(64)
			}
		case "duplicate":
			if h.lastAdded != nil {
				sig = h.lastAdded.sig
				valid = staged != nil && h.lastAdded.signer == idx && h.lastAdded.state == gen.StateHash(staged)
			} else {
				sig = r.Bytes(64)
			}
		case "random":
			sig = r.Bytes(64)
		case "empty":
			sig = wallet.Sig{}
		case "nil":
			sig = nil
		case "short":
			sig = r.Bytes(r.Range(1, 63))
		default:
			sig = r.Bytes(64)
		}
		want := h.signingPhase() && h.stagedSigs != nil && !h.stagedSigs[idx] && valid
		err, pan := h.call(func() error { return h.m.AddSig(channel.Index(idx), sig) })
		h.logf("addsig idx=%d kind=%s valid=%v -> %v", idx, kind, valid, err)
		if h.prop == "C01" && !pan && err == nil && !valid {
			h.fail("C01.accepted-bad-sig@"+kind, "AddSig accepted a %s signature for slot %d", kind, idx)
		}
		if h.outcome("addsig/"+kind, want, err, pan, before) {
			if h.stagedSigs != nil {
				h.stagedSigs[idx] = true
			}
			if staged != nil {
				h.lastAdded = &sigRec{idx, gen.StateHash(staged), sig}
			}
		}
	case "enable-init":
		want := h.ph == channel.InitSigning && h.allSigned() && !h.stagedFin
		err, pan := h.call(h.m.EnableInit)
		h.logf("enable-init -> %v", err)
		if h.outcome(op, want, err, pan, before) {
			h.enableModel(channel.Funding)
		}
	case "enable-update":
		want := h.ph == channel.Signing && h.allSigned() && !h.stagedFin
		err, pan := h.call(h.m.EnableUpdate)
		h.logf("enable-update -> %v", err)
		if h.outcome(op, want, err, pan, before) {
			h.enableModel(channel.Acting)
		}
	case "enable-final":
		want := h.ph == channel.Signing && h.allSigned() && h.stagedFin
		err, pan := h.call(h.m.EnableFinal)
		h.logf("enable-final -> %v", err)
		if h.outcome(op, want, err, pan, before) {
			h.enableModel(channel.Final)
		}
	case "discard":
		want := h.ph == channel.Signing
		err, pan := h.call(h.m.DiscardUpdate)
		h.logf("discard -> %v", err)
		if h.outcome(op, want, err, pan, before) {
			h.staged, h.stagedSigs = nil, nil
			h.ph = channel.Acting
		}
	case "set-funded":
		h.setter(op, h.ph == channel.Funding, channel.Acting, h.m.SetFunded, before)
	case "set-registering":
		h.setter(op, h.ph >= channel.Funding, channel.Registering, h.m.SetRegistering, before)
	case "set-registered":
		h.setter(op, h.ph >= channel.Funding, channel.Registered, h.m.SetRegistered, before)
	case "set-withdrawing":
		h.setter(op, h.ph == channel.Final || h.ph == channel.Registered || h.ph == channel.Progressed || h.ph == channel.Withdrawing,
			channel.Withdrawing, h.m.SetWithdrawing, before)
	case "set-withdrawn":
		h.setter(op, h.ph == channel.Withdrawing, channel.Withdrawn, h.m.SetWithdrawn, before)
	case "set-progressing", "set-progressed":
		// the on-chain progression state: a successor of the current state if any
		var s *channel.State
		if c, ok := h.candidate(&kernel.Step{Op: "x", A: st.A, S: map[string]string{"kind": "valid"}}); ok {
			s = c.State
		} else {
			r := kernel.NewRand(kernel.Derive(uint64(st.Int("r")), "prog"))
			s = &channel.State{ID: h.params.ID(), App: h.params.App, Version: 1,
				Allocation: gen.Allocation(r, gen.RandShape(r, h.n)), Data: channel.NoData()}
		}
		// Neither operation validates the state (the chain decides what the
		// progressed state is): besides a successor it may carry the current
		// version with other content (the peer progressed an older registered
		// state to a rival of ours), be the current state once more (an event
		// delivered twice, late) or lie several versions ahead.
		switch pv := kernel.Derive(uint64(st.Int("r")), "prog-ver", h.step) % 100; {
		case pv < 15 && s.Version > 0:
			s.Version--
			h.res.Count("probe.progress-to-rival-of-current-version", 1)
		case pv < 27:
			var c *channel.State
			if _, pan := h.call(func() error {
				if cs := h.m.State(); cs != nil {
					c = cs.Clone()
				}
				return nil
			}); !pan && c != nil {
				s = c
				h.res.Count("probe.progress-to-current-state-again", 1)
			}
		case pv < 35:
			s.Version += 1 + pv%5
		}
		if op == "set-progressing" {
			want := h.ph == channel.Registered || h.ph == channel.Progressing || h.ph == channel.Progressed
			err, pan := h.call(func() error { return h.m.SetProgressing(s) })
			h.logf("set-progressing v=%d -> %v", s.Version, err)
			if h.outcome(op, want, err, pan, before) {
				h.setStagedModel(s, channel.Progressing)
			}
		} else {
			// (the event names the participant who progressed: any of them)
			ev := channel.NewProgressedEvent(h.params.ID(), &channel.ElapsedTimeout{}, s, channel.Index(kernel.Derive(uint64(st.Int("r")), "event-idx")%uint64(h.n)))
			err, pan := h.call(func() error { return h.m.SetProgressed(ev) })
			h.logf("set-progressed v=%d -> %v", s.Version, err)
			if h.outcome(op, true, err, pan, before) {
				h.cur, h.curFinal = gen.EncodeState(s), s.IsFinal
				h.staged, h.stagedSigs = nil, nil
				h.curForced = true
				h.ph = channel.Progressed
			}
		}
	case "clone":
		var c *channel.StateMachine
		err, pan := h.call(func() error { c = h.m.Clone(); return nil })
		h.logf("clone -> %v", err)
		if pan {
			h.fail(h.prop+".panic@clone", "Clone panicked: %v", err)
			return
		}
		// the program goes on with one of the two machines; the other one is
		// kept and must never change again (an operation on one machine is an
		// operation on that machine only)
		if kernel.Derive(uint64(h.step), "clone-keeps")%2 == 0 {
			h.other, h.m = h.m, c
		} else {
			h.other = c
		}
		h.otherSnap = h.snapshotOf(h.other)
		if !bytes.Equal(before, h.snapshot()) || !bytes.Equal(before, h.otherSnap) {
			h.fail(h.prop+".clone-differs", "a clone differs observably from its original")
		}
	case "restore":
		// the process restarts: a new machine is built from what the old one
		// held (the library's RestoreStateMachine, as after a client restart).
		// Nothing observable may change, whatever was staged and signed so far.
		var c *channel.StateMachine
		err, pan := h.call(func() (e error) { c, e = channel.RestoreStateMachine(h.accs[h.own].AccMap, h.m); return })
		h.logf("restore -> %v", err)
		if pan || err != nil || c == nil {
			h.fail(h.prop+".restore-failed", "RestoreStateMachine failed on a live machine: %v", err)
			return
		}
		h.m = c
		h.res.Count("fault.restart-restore", 1)
		if !bytes.Equal(before, h.snapshot()) {
			h.fail(h.prop+".restore-differs", "a machine restored from a live one differs observably from it (phase, staged or current transaction)")
		}
	case "advance":
		// composite: collect all signatures for the staged state and enable it
		if !h.signingPhase() || h.m.StagingState() == nil || h.ph == channel.Progressing {
			h.logf("advance skipped")
			return
		}
		for i := 0; i < h.n; i++ {
			if h.stagedSigs[i] {
				continue
			}
			if i == h.own {
				h.do(&kernel.Step{Op: "sig"})
			} else {
				h.do(&kernel.Step{Op: "addsig", A: map[string]int64{"idx": int64(i)}, S: map[string]string{"kind": "correct"}})
			}
		}
		switch {
		case h.ph == channel.InitSigning:
			h.do(&kernel.Step{Op: "enable-init"})
			h.do(&kernel.Step{Op: "set-funded"})
		case h.stagedFin:
			h.do(&kernel.Step{Op: "enable-final"})
		default:
			h.do(&kernel.Step{Op: "enable-update"})
		}
		return
	default:
		h.logf("unknown op %q skipped", op)
		return
	}
	if h.res.Violation != nil {
		return
	}
	switch h.prop {
	case "C01":
		h.checkC01()
	case "C09":
		h.checkModel(op)
	}
	if h.prop != "C09" {
		// Outside C09 the automaton is not the oracle: follow the machine, so
		// that a phase-protocol defect is reported by C09 only.
		h.resync()
	}
	h.res.States = append(h.res.States, h.abstract())
}

// resync copies the machine's observable state into the model.
func (h *harness) resync() {
	h.ph = h.m.Phase()
	st := h.m.StagingTX()
	if st.State != nil {
		h.staged = gen.EncodeState(st.State)
		h.stagedFin = st.IsFinal
		h.stagedSigs = make([]bool, h.n)
		for i := range h.stagedSigs {
			h.stagedSigs[i] = i < len(st.Sigs) && st.Sigs[i] != nil
		}
	} else {
		h.staged, h.stagedSigs, h.stagedFin = nil, nil, false
	}
	cu := h.m.CurrentTX()
	if cu.State != nil {
		h.cur, h.curFinal = gen.EncodeState(cu.State), cu.IsFinal
	} else {
		h.cur, h.curFinal = nil, false
	}
}

func (h *harness) setter(op string, want bool, to channel.Phase, f func() error, before []byte) {
	err, pan := h.call(f)
	h.logf("%s -> %v", op, err)
	if h.outcome(op, want, err, pan, before) {
		h.ph = to
	}
}

// mutClass maps a (possibly composite) mutation name to its class for the
// violation signature.
func mutClass(m string) string {
	if m == "" {
		return "valid"
	}
	return m
}
