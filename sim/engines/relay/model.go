package relay

import (
	"fmt"
	"math/bits"
	"sort"
	"strings"
	"time"

	"github.com/anishathalye/porcupine"

	"verif/sim/kernel"
)

// mstate is the state of the sequential reference relay. All sets are bit
// masks, so states are comparable with ==.
type mstate struct {
	subs   uint8                    // consumers in the subscription list
	closed uint8                    // consumers that have been closed
	cpreds uint8                    // active cache predicates
	recv   [maxConsumers + 2]uint32 // envelopes handed to each consumer
	cached uint32                   // envelopes in the cache
	deflt  uint32                   // envelopes given to the default handler
}

// mctx holds the run's constants the model needs.
type mctx struct {
	pred   [maxConsumers + 2]int // class mask of each consumer's predicate
	pmask  []int                 // class masks of the cache predicates
	tagCls [maxTags]int
}

// step is the sequential specification. It is exactly the property statement:
// a put goes to every subscribed consumer whose predicate matches; if there is
// none and an active cache predicate matches, it is kept; otherwise it goes to
// the default handler. Subscribe takes the matching cached envelopes. A closed
// consumer stays in the subscription list (and is the legal sink of what it is
// handed) until its delete.
func (m *mctx) step(st mstate, o *op) (bool, mstate) {
	switch o.kind {
	case opPut:
		bit := uint32(1) << o.tag
		found := false
		for k := range st.recv {
			if st.subs&(1<<k) != 0 && m.pred[k]&(1<<o.cls) != 0 {
				st.recv[k] |= bit
				found = true
			}
		}
		if found {
			return true, st
		}
		for j, pm := range m.pmask {
			if st.cpreds&(1<<j) != 0 && pm&(1<<o.cls) != 0 {
				st.cached |= bit
				return true, st
			}
		}
		st.deflt |= bit
		return true, st
	case opSubscribe:
		kb := uint8(1) << o.k
		if st.closed&kb != 0 {
			return !o.ok, st // "consumer closed"
		}
		if !o.ok {
			return false, st
		}
		st.subs |= kb
		for t := 0; t < maxTags; t++ {
			if st.cached&(1<<t) != 0 && m.pred[o.k]&(1<<m.tagCls[t]) != 0 {
				st.cached &^= 1 << t
				st.recv[o.k] |= 1 << t
			}
		}
		return true, st
	case opCache:
		st.cpreds |= 1 << o.k
		return true, st
	case opRelease:
		st.cpreds &^= 1 << o.k
		return true, st
	case opClose:
		kb := uint8(1) << o.k
		if o.ok != (st.closed&kb == 0) {
			return false, st // Close fails iff already closed
		}
		st.closed |= kb
		return true, st
	case opDelete:
		kb := uint8(1) << o.k
		if st.closed&kb == 0 {
			return false, st // the removal is triggered by Close
		}
		st.subs &^= kb
		return true, st
	case opCloseRelay:
		return bits.OnesCount32(st.cached) == o.n, st
	case opDrain:
		var have uint32
		if o.k < 0 {
			have = st.deflt
		} else {
			have = st.recv[o.k]
		}
		if o.exact {
			return have == o.mask, st
		}
		return o.mask&^have == 0, st
	}
	return false, st
}

func (m *mctx) model() porcupine.Model {
	return porcupine.Model{
		Init: func() interface{} { return mstate{} },
		Step: func(state, input, output interface{}) (bool, interface{}) {
			ok, ns := m.step(state.(mstate), input.(*op))
			return ok, ns
		},
		Equal: func(a, b interface{}) bool { return a.(mstate) == b.(mstate) },
		Hash: func(s interface{}) uint64 {
			st := s.(mstate)
			x := uint64(st.subs) | uint64(st.closed)<<8 | uint64(st.cpreds)<<16 | uint64(st.cached)<<32
			x = x*0x9e3779b97f4a7c15 ^ uint64(st.deflt)
			for _, r := range st.recv {
				x = (x ^ uint64(r)) * 0xbf58476d1ce4e5b9
			}
			return x ^ x>>29
		},
	}
}

func toMask(tags []int) (mask uint32, dup int) {
	dup = -1
	for _, t := range tags {
		if t < 0 || t >= maxTags {
			continue
		}
		if mask&(1<<t) != 0 && dup < 0 {
			dup = t
		}
		mask |= 1 << t
	}
	return mask, dup
}

// check runs the oracles after the bubble has ended (no goroutine of the run is
// left, so the logs are read without locks; porcupine uses real time).
func (h *harness) check(res *kernel.Result) {
	if h.epilogue != "" {
		defer func() {
			if res.Violation == nil {
				p := strings.SplitN(h.epilogue, "|", 2)
				res.Fail(-1, p[0], "%s", p[1])
			}
		}()
	}
	m := &mctx{pmask: h.pmask, tagCls: h.tagCls}
	name := func(k int) string {
		switch {
		case k < 0:
			return "the default handler"
		case k == h.nc:
			return "the first subscribe-all consumer after quiescence"
		case k == h.nc+1:
			return "the second subscribe-all consumer after quiescence"
		}
		return fmt.Sprintf("consumer k%d (%s, classes %04b)", k, []string{"wire.Receiver", "recorder"}[h.cons[k].kind], h.cons[k].pred)
	}
	obs := make([][]int, len(h.cons))
	masks := make([]uint32, len(h.cons))
	var everywhere uint32
	for k, c := range h.cons {
		m.pred[k] = c.pred
		obs[k] = c.observed()
		var dup int
		masks[k], dup = toMask(obs[k])
		res.Evals++
		if dup >= 0 {
			res.Fail(-1, "C18.duplicate-delivery", "envelope e%d reached %s twice (observed %v)", dup, name(k), obs[k])
		}
		for _, t := range obs[k] {
			if t < 0 || t >= maxTags || !h.tagPut[t] {
				res.Fail(-1, "C18.unknown-envelope", "%s holds envelope %d that was never put", name(k), t)
				continue
			}
			if c.pred&(1<<h.tagCls[t]) == 0 {
				res.Fail(-1, "C18.predicate-violated", "envelope e%d of class %d reached %s whose predicate rejects it", t, h.tagCls[t], name(k))
			}
		}
		everywhere |= masks[k]
		if c.kind == kindRecorder {
			res.Count("probe.handed_to_closed_consumer", int64(c.rec.afterClosed))
		}
	}
	dmask, ddup := toMask(h.deflt.tags)
	res.Evals++
	if ddup >= 0 {
		res.Fail(-1, "C18.duplicate-delivery@default", "envelope e%d reached the default handler twice (observed %v)", ddup, h.deflt.tags)
	}
	if both := dmask & everywhere; both != 0 {
		res.Fail(-1, "C18.default-and-consumer", "envelopes %s reached the default handler and a consumer", maskString(both))
	}

	// history: program operations, removals of closed consumers, drains
	ops := append([]*op{}, h.ops...)
	sort.SliceStable(ops, func(i, j int) bool { return ops[i].call < ops[j].call })
	subOK := map[int]bool{}
	closedOK := map[int]bool{}
	var hist []*op
	seq := h.seq
	for _, o := range ops {
		hist = append(hist, o)
		res.Count("op."+opNames[o.kind], 1)
		switch {
		case o.kind == opSubscribe && o.ok:
			subOK[o.k] = true
		case o.kind == opSubscribe && o.k < h.nc:
			res.Count("probe.subscribe_refused_consumer_closed", 1)
		case o.kind == opClose && o.ok:
			closedOK[o.k] = true
			ret := h.quiescent
			if ret < o.ret {
				ret = o.ret
			}
			hist = append(hist, &op{kind: opDelete, th: 8, k: o.k, call: o.call, ret: ret, stepID: o.stepID})
		}
	}
	var closeRelay *op
	for _, o := range ops {
		if o.kind == opCloseRelay {
			closeRelay = o
		}
	}
	for k := -1; k < len(h.cons); k++ {
		d := &op{kind: opDrain, th: 9, k: k, exact: true, call: seq + 1, ret: seq + 2, stepID: -1}
		seq += 2
		if k < 0 {
			d.mask = dmask
		} else {
			d.mask = masks[k]
			// a closed wire.Receiver drops what it is handed after Close and what
			// its reader had not taken out yet
			d.exact = !(h.cons[k].kind == kindReceiver && closedOK[k])
		}
		hist = append(hist, d)
	}

	// oracle 1: every envelope is accounted for
	lost := uint32(0)
	for t := 0; t < maxTags; t++ {
		if !h.tagPut[t] {
			continue
		}
		var put *op
		for _, o := range ops {
			if o.kind == opPut && o.tag == t {
				put = o
			}
		}
		if put == nil {
			continue // its step was never executed
		}
		res.Evals++
		bit := uint32(1) << t
		switch {
		case everywhere&bit != 0:
			switch {
			case masks[h.nc]&bit != 0:
				res.Count("probe.envelope_still_cached_at_end", 1)
			case masks[h.nc+1]&bit != 0:
			default:
				res.Count("probe.envelope_at_consumer", 1)
			}
			continue
		case dmask&bit != 0:
			res.Count("probe.envelope_at_default_handler", 1)
			continue
		}
		excused := false
		for k := 0; k < h.nc; k++ {
			c := h.cons[k]
			if c.kind == kindReceiver && subOK[k] && closedOK[k] && c.pred&(1<<h.tagCls[t]) != 0 {
				excused = true
			}
		}
		if excused {
			res.Count("probe.envelope_dropped_by_closed_receiver", 1)
			continue
		}
		lost |= bit
	}
	if lost != 0 {
		left := 0
		if closeRelay != nil {
			left = closeRelay.n
		}
		res.Fail(-1, "C18.lost-envelope", "envelopes %s were put into the open relay but are at no consumer, not at the default handler, not in the cache (Relay.Close reported %d cached) and match no closed receiver", maskString(lost), left)
	}
	if res.Violation != nil {
		res.Violation.Detail += ". History: " + histString(hist)
	}

	// non-triviality and abstract state
	overlap := 0
	for i, a := range ops {
		for _, b := range ops[i+1:] {
			if a.th != b.th && a.th < 8 && b.th < 8 && a.call < b.ret && b.call < a.ret {
				overlap++
			}
		}
	}
	res.Count("probe.overlapping_operation_pairs", int64(overlap))
	res.Count("probe.same_instant_events_of_two_threads", h.collisions)
	delivered := uint32(0)
	for k := 0; k < h.nc; k++ {
		delivered |= masks[k]
	}
	if overlap > 0 && delivered != 0 {
		res.NonTrivial = true
	}
	res.States = append(res.States, kernel.Derive(uint64(bits.OnesCount32(delivered)), bits.OnesCount32(dmask), bits.OnesCount32(masks[h.nc]),
		len(subOK), len(closedOK), bits.OnesCount32(lost)))

	if res.Violation != nil {
		return
	}

	// oracle 2: linearizability
	pops := make([]porcupine.Operation, len(hist))
	for i, o := range hist {
		pops[i] = porcupine.Operation{ClientId: o.th, Input: o, Call: o.call, Return: o.ret}
	}
	res.Evals++
	// (the search for a linearisation can take long on a rare history: it is cut
	// off after 15 s - inconclusive, counted - and the watchdog is told that the
	// worker is alive meanwhile)
	alive := make(chan struct{})
	go func() {
		for {
			select {
			case <-alive:
				return
			case <-time.After(2 * time.Second):
				kernel.Progress()
			}
		}
	}()
	verdict := porcupine.CheckOperationsTimeout(m.model(), pops, 15*time.Second)
	close(alive)
	switch verdict {
	case porcupine.Ok:
		res.Count("probe.linearizable", 1)
	case porcupine.Unknown:
		res.Count("probe.porcupine_unknown", 1)
	case porcupine.Illegal:
		res.Fail(-1, "C18.not-linearizable", "no sequential order of the operations (respecting their invoke/return order) lets the reference relay end with the observed distribution. History: %s", histString(hist))
	}
}

func histString(hist []*op) string {
	var b strings.Builder
	for i, o := range hist {
		if i > 0 {
			b.WriteString("; ")
		}
		b.WriteString(o.String())
	}
	d := b.String()
	if len(d) > 3000 {
		d = d[:3000] + " ..."
	}
	return d
}
