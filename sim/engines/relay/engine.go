// Package relay is the simulation engine of property C18: one real wire.Relay
// per run inside a synctest bubble, driven by 2-4 simulated threads, checked by
// distribution invariants and by a linearizability check against a sequential
// reference relay (porcupine). The coordinator additionally rebuilds the engine
// with -race; the burst step gives the race detector truly parallel puts.
package relay

import (
	"fmt"
	"testing"

	"verif/sim/kernel"
)

// Engine implements kernel.Engine for C18.
type Engine struct{}

func (Engine) Name() string { return "relay" }

const (
	maxConsumers = 5  // drawn consumers; two more "final" consumers are added by the harness
	maxPreds     = 3  // cache predicates
	numClasses   = 4  // tag space the predicates range over
	maxTags      = 32 // envelope identifiers per run (bit masks in the model)
	maxPuts      = 12 // envelopes per run (a Receiver buffers 16; DESIGN C18/B)
	maxOps       = 14
	burstClass   = 3
)

// yield sites in wire/relay.go and wire/receiver.go. With a single, non-nested
// relay all of them lie before a lock acquisition (or in a goroutine that holds
// no lock), so parking there is safe (R3).
var yieldSites = []string{"relay.Put", "relay.Subscribe", "relay.Cache", "relay.ReleaseCache", "relay.delete", "relay.cachedDelivery", "receiver.Next"}

func (Engine) Plan(prop, tier string) kernel.Plan {
	runs := map[string]int{"C18/quick": 3000, "C18/thorough": 600000}[prop+"/"+tier]
	// Pin=false: GOMAXPROCS stays > 1 so that the burst step (and the relay's own
	// delivery / delete goroutines) run truly parallel; needed by the -race pass.
	return kernel.Plan{Runs: runs, Pin: false, CrashProne: true}
}

func (Engine) Generate(prop, tier string, run int, seed uint64) *kernel.Scenario {
	if prop != "C18" {
		return nil
	}
	return genC18(kernel.NewRand(seed))
}

func (Engine) Execute(t *testing.T, sc *kernel.Scenario, trace bool) *kernel.Result {
	if sc.Property != "C18" {
		return &kernel.Result{}
	}
	return execC18(t, sc, trace)
}

func genC18(r *kernel.Rand) *kernel.Scenario {
	sc := &kernel.Scenario{Config: map[string]int64{}}
	c := sc.Config
	threads := r.Range(2, 4)
	nc := r.Range(2, maxConsumers)
	np := r.Range(1, maxPreds)
	c["threads"], c["nc"], c["np"] = int64(threads), int64(nc), int64(np)
	c["yield_pct"] = int64([]int{0, 30, 100}[r.Intn(3)])
	c["gap_us"] = int64([]int{0, 5, 40, 200}[r.Intn(4)])
	c["reader_us"] = int64([]int{0, 20, 200}[r.Intn(3)])
	c["impatient_pct"] = int64([]int{0, 0, 30, 60}[r.Intn(4)])
	c["stall_epilogue"] = int64(r.Weighted([]int{2, 1}))
	c["scale_epilogue"] = int64(r.Weighted([]int{4, 1, 1}))
	if kernel.NewRand(kernel.Derive(r.Uint64(), "cache-epilogue")).Bool(0.3) {
		c["cache_epilogue"] = 1
	}
	burst := r.Bool(0.3)
	for k := 0; k < nc; k++ {
		c[fmt.Sprintf("c%d_kind", k)] = int64(r.Intn(2))
		pred := 1 + r.Intn(1<<numClasses-1)
		if r.Bool(0.25) {
			pred = 1<<numClasses - 1
		}
		if burst && r.Bool(0.8) {
			// most consumers of a burst run do not take the burst class, so the
			// burst envelopes go to the cache
			pred &^= 1 << burstClass
			if pred == 0 {
				pred = 1 << r.Intn(burstClass)
			}
		}
		c[fmt.Sprintf("c%d_pred", k)] = int64(pred)
	}
	for j := 0; j < np; j++ {
		m := 1 + r.Intn(1<<numClasses-1)
		if r.Bool(0.2) {
			m = 1<<numClasses - 1
		}
		if burst && j == 0 {
			m |= 1 << burstClass
		}
		c[fmt.Sprintf("p%d_mask", j)] = int64(m)
	}

	// swarm: some runs lack whole operation kinds; the first third of a program
	// favours subscribe / cache so that later puts find consumers and predicates
	wEarly := []int{4, 6, 4, 1, 1} // put subscribe cache release close
	wLate := []int{9, 3, 2, 2, 3}
	for _, i := range []int{2, 3, 4} {
		if r.Bool(0.2) {
			wEarly[i], wLate[i] = 0, 0
		}
	}
	if r.Bool(0.3) {
		wEarly = wLate // no warm-up: puts race with the first subscriptions
	}
	nops := r.Range(3, maxOps)
	putsLeft := maxPuts
	bn, bm := 0, 0
	burstAt := -1
	if burst {
		shape := [][2]int{{2, 2}, {2, 3}, {3, 2}, {3, 3}, {4, 2}}[r.Intn(5)]
		bn, bm = shape[0], shape[1]
		putsLeft -= bn * bm
		if nops < 3 {
			nops = 3
		}
		burstAt = r.Range(1, nops-1)
	}
	tag := 0
	subscribed := make([]bool, nc)
	id := 0
	add := func(st kernel.Step) {
		st.A["id"] = int64(id)
		id++
		sc.Steps = append(sc.Steps, st)
	}
	for i := 0; i < nops; i++ {
		th := r.Intn(threads)
		switch {
		case burst && i == 0:
			// thread 0 first enables the cache predicate that matches the burst class
			add(kernel.St("cache", "th", 0, "p", 0))
			continue
		case burst && i == burstAt:
			add(kernel.St("burst", "th", 0, "n", bn, "m", bm, "cls", burstClass, "tag0", tag))
			tag += bn * bm
			continue
		}
		w := wLate
		if i < nops/3 {
			w = wEarly
		}
		op := r.Weighted(w)
		if op == 1 {
			free := []int{}
			for k := range subscribed {
				if !subscribed[k] {
					free = append(free, k)
				}
			}
			if len(free) == 0 {
				op = 0
			} else {
				k := free[r.Intn(len(free))]
				subscribed[k] = true
				add(kernel.St("subscribe", "th", th, "k", k))
				continue
			}
		}
		if op == 0 && putsLeft == 0 {
			op = 2
		}
		switch op {
		case 0:
			putsLeft--
			add(kernel.St("put", "th", th, "tag", tag, "cls", r.Intn(numClasses)))
			tag++
		case 2:
			add(kernel.St("cache", "th", th, "p", r.Intn(np)))
		case 3:
			add(kernel.St("release", "th", th, "p", r.Intn(np)))
		case 4:
			k := r.Intn(nc)
			if r.Bool(0.7) {
				// prefer a consumer that has (or will have) a subscription
				for tries := 0; tries < 4 && !subscribed[k]; tries++ {
					k = r.Intn(nc)
				}
			}
			add(kernel.St("close", "th", th, "k", k))
		}
	}
	return sc
}

func (Engine) Describe(prop string) kernel.Describe {
	return kernel.Describe{
		Rule: "one real wire.Relay per run in a synctest bubble; 2-4 simulated threads execute a drawn program of at most 14 operations (put of a unique tagged envelope, subscribe of consumer k with its class-set predicate, cache / release of one of up to 3 cache predicates, close of consumer k; in ~30% of the runs a burst of 2-4 goroutines putting 2-3 envelopes each without any delay into a relay whose cache predicate matches them) with keyed delays between a thread's operations and a per-run buggify mask over the yield sites in relay.go/receiver.go. " +
			"Oracle 1 (final distribution, after quiescence, a subscribe-all consumer that takes over the cache, a second one that must stay empty, and Relay.Close): no envelope twice at one consumer or at the default handler; none at a consumer whose predicate rejects it; none both at the default handler and at a consumer; every envelope that was put is at a consumer, at the default handler, was still cached, or matches a receiver that was closed before the put returned. " +
			"Oracle 2 (linearizability): invoke/return of every operation carry a global event number; removal of a closed consumer is an operation whose interval runs from the invocation of Close to quiescence; after quiescence one drain operation per consumer, for the default handler and for the cache returns exactly what was observed there (a closed wire.Receiver may hold a subset: it drops what it is handed after Close); porcupine must find a linearization of the history in the sequential reference relay (subscription list, cache predicate set, cache list). Unknown (30 s) is counted, never reported. " +
			"Oracle 3: the coordinator reruns 1/8 of the runs with a -race build; a data race report is a violation. Non-trivial: at least two operations of different threads overlapped and at least one envelope reached a consumer; distinct = scenario digest x interleaving hash.",
		Assumptions: []string{
			"a consumer is subscribed at most once and the relay is closed only after the program (duplicate subscription panics by contract; puts into a closed relay are outside the statement)",
			"envelopes handed to a consumer between its Close and its asynchronous removal from the relay are legally dropped (the property's only sink); a recording consumer records them, a closed wire.Receiver may drop them",
			"hand-over of cached envelopes is part of Subscribe's effect on the final distribution (it happens in a goroutine after Subscribe returned); order of delivery is not checked (the statement does not mention it)",
			"at most 12 envelopes per run so that Relay.Put can never block on a full Receiver (16 slots) while it holds the read lock (R3)",
			"without -race the burst's truly parallel puts are scheduled by the Go runtime, not by the simulator: a violation seen only there may not replay",
		},
		Real: []string{"wire.Relay (Subscribe, Put, Cache, ReleaseCache, delete, SetDefaultMsgHandler, Close)", "wire.Cache", "wire.Receiver (Put, Next)", "polycry.pt/poly-go/sync.Closer (consumer close callbacks)", "wire.Envelope with backend/sim/wire addresses and wire.PingMsg"},
		Stub: []string{"producers / subscribers -> simulated threads with keyed delays", "readers of the receivers -> goroutines calling Receiver.Next with keyed pauses", "recording wire.Consumer (poly-go Closer + Put that records under its own mutex, never sleeps)",
			"default message handler -> recorder", "time -> testing/synctest fake clock"},
		FaultKinds: []string{"yield hooks before every relay lock acquisition, in the cached-delivery goroutine, at delete and at Receiver.Next (buggify subset, keyed park lengths)",
			"keyed gaps between operations (0..200us)", "slow readers", "consumer close racing with subscribe / put", "burst of parallel puts (real parallelism)", "impatient Receiver.Next contexts",
			"epilogues on a relay of their own: stalled consumer that is closed, 20-80 cached envelopes, 40 consumers closed in a drawn order, caching predicate enabled behind a delivery to a slow (gated) consumer"},
	}
}
