package relay

import (
	"context"
	"fmt"
	"regexp"
	"runtime"
	"strconv"
	stdsync "sync"
	"testing"
	"time"

	simwire "perun.network/go-perun/backend/sim/wire"
	"perun.network/go-perun/wallet"
	"perun.network/go-perun/wire"
	"polycry.pt/poly-go/sync"

	"verif/sim/kernel"
	"verif/sim/world"
)

// ---- envelopes and predicates ----------------------------------------------------

// newEnvelope builds an envelope whose sender address carries (tag, class).
func newEnvelope(tag, cls int) *wire.Envelope {
	var from, to simwire.Address
	from[0], from[1], from[2] = byte(tag), byte(cls), 0xC1
	to[0] = 0xEE
	return &wire.Envelope{
		Sender:    map[wallet.BackendID]wire.Address{0: &from},
		Recipient: map[wallet.BackendID]wire.Address{0: &to},
		Msg:       wire.NewPingMsg(),
	}
}

func tagOf(e *wire.Envelope) (tag, cls int) {
	a, ok := e.Sender[0].(*simwire.Address)
	if !ok {
		return -1, -1
	}
	return int(a[0]), int(a[1])
}

func classPred(mask int) wire.Predicate {
	return func(e *wire.Envelope) bool {
		_, c := tagOf(e)
		return c >= 0 && mask&(1<<c) != 0
	}
}

// ---- consumers ------------------------------------------------------------------------

const (
	kindReceiver = 0
	kindRecorder = 1
)

// got is what one consumer (or the default handler) observed.
type got struct {
	mu          stdsync.Mutex
	tags        []int
	afterClosed int
}

func (g *got) add(tag int) {
	g.mu.Lock()
	g.tags = append(g.tags, tag)
	g.mu.Unlock()
}

// recorder is the simple recording wire.Consumer. Put runs under the relay's
// read lock: it only appends under its own mutex and never sleeps (R3). It
// records also after it has been closed, so it observes exactly what the relay
// handed to it.
type recorder struct {
	sync.Closer
	got
}

func (r *recorder) Put(e *wire.Envelope) {
	tag, _ := tagOf(e)
	closed := r.IsClosed()
	r.mu.Lock()
	r.tags = append(r.tags, tag)
	if closed {
		r.afterClosed++
	}
	r.mu.Unlock()
}

type consumer struct {
	kind int
	pred int // class mask
	c    wire.Consumer
	rcv  *wire.Receiver // kindReceiver
	rec  *recorder      // kindRecorder
	read got            // what the reader goroutine of a receiver took out
}

func (c *consumer) observed() []int {
	g := &c.read
	if c.kind == kindRecorder {
		g = &c.rec.got
	}
	g.mu.Lock()
	defer g.mu.Unlock()
	return append([]int{}, g.tags...)
}

func (c *consumer) close() error {
	if c.kind == kindRecorder {
		return c.rec.Close()
	}
	return c.rcv.Close()
}

// ---- history -------------------------------------------------------------------------

type opKind int

const (
	opPut opKind = iota
	opSubscribe
	opCache
	opRelease
	opClose
	opDelete     // asynchronous removal of a closed consumer (pseudo operation)
	opCloseRelay // Relay.Close after the program; output: number of envelopes still cached
	opDrain      // after quiescence; output: what consumer k (or the default handler: k = -1) holds
)

var opNames = map[opKind]string{opPut: "put", opSubscribe: "subscribe", opCache: "cache", opRelease: "release", opClose: "close",
	opDelete: "delete", opCloseRelay: "closeRelay", opDrain: "drain"}

type op struct {
	kind      opKind
	th        int
	k         int // consumer / predicate index
	tag, cls  int
	call, ret int64
	ok        bool   // subscribe: no error; close: no error
	n         int    // closeRelay: cached envelopes reported
	mask      uint32 // drain: observed tags
	exact     bool   // drain: observed must equal (false: may be a subset)
	stepID    int
}

func (o *op) String() string {
	s := fmt.Sprintf("t%d %s", o.th, opNames[o.kind])
	switch o.kind {
	case opPut:
		s += fmt.Sprintf("(e%d/c%d)", o.tag, o.cls)
	case opSubscribe, opClose:
		s += fmt.Sprintf("(k%d)->%v", o.k, o.ok)
	case opCache, opRelease:
		s += fmt.Sprintf("(p%d)", o.k)
	case opDelete:
		s += fmt.Sprintf("(k%d)", o.k)
	case opCloseRelay:
		s += fmt.Sprintf("->cached=%d", o.n)
	case opDrain:
		s += fmt.Sprintf("(k%d)->%s exact=%v", o.k, maskString(o.mask), o.exact)
	}
	return s + fmt.Sprintf("[%d,%d]", o.call, o.ret)
}

func maskString(m uint32) string {
	s := "{"
	for i := 0; i < maxTags; i++ {
		if m&(1<<i) != 0 {
			if len(s) > 1 {
				s += ","
			}
			s += "e" + strconv.Itoa(i)
		}
	}
	return s + "}"
}

// harness is the per-run state.
type harness struct {
	s     *world.Sim
	relay *wire.Relay
	cons  []*consumer // drawn consumers, then final1, final2
	nc    int         // drawn consumers
	preds []wire.Predicate
	pmask []int
	deflt got

	mu       stdsync.Mutex // never held across a sleep
	seq      int64
	ops      []*op
	done     bool   // body ran to its end
	epilogue string // "check|detail" of a violation found by an epilogue

	lastAt     time.Duration
	lastTh     int
	collisions int64

	tagCls    [maxTags]int
	tagPut    [maxTags]bool
	quiescent int64
}

// seen counts events of two different threads at the same simulated instant:
// their order is then the Go runtime's, not the simulator's (residual replay
// divergence, measured by ./check selftest-determinism).
func (h *harness) seen(th int) {
	if th >= 4 {
		return
	}
	now := h.s.Now()
	h.mu.Lock()
	if h.lastAt == now && h.lastTh != th && h.lastTh >= 0 {
		h.collisions++
	}
	h.lastAt, h.lastTh = now, th
	h.mu.Unlock()
}

func (h *harness) stamp() int64 {
	h.mu.Lock()
	h.seq++
	n := h.seq
	h.mu.Unlock()
	return n
}

// begin stamps the invocation of the given operations (consecutive numbers,
// one lock acquisition) and registers them in the history.
func (h *harness) begin(ops ...*op) {
	h.seen(ops[0].th)
	h.mu.Lock()
	for _, o := range ops {
		h.seq++
		o.call = h.seq
		h.ops = append(h.ops, o)
	}
	h.mu.Unlock()
	for _, o := range ops {
		if o.th >= 4 && o.th < 8 {
			// burst goroutines run truly parallel: their relative order is the Go
			// runtime's, so it is kept out of the interleaving hash
			h.s.Note("t%d %s.inv %s", o.th, opNames[o.kind], h.detail(o, false))
			continue
		}
		h.s.Event("t"+strconv.Itoa(o.th), opNames[o.kind]+".inv", h.detail(o, false))
	}
}

func (h *harness) end(ops ...*op) {
	h.seen(ops[0].th)
	h.mu.Lock()
	for _, o := range ops {
		h.seq++
		o.ret = h.seq
	}
	h.mu.Unlock()
	for _, o := range ops {
		if o.th >= 4 && o.th < 8 {
			h.s.Note("t%d %s.ret %s", o.th, opNames[o.kind], h.detail(o, true))
			continue
		}
		h.s.Event("t"+strconv.Itoa(o.th), opNames[o.kind]+".ret", h.detail(o, true))
	}
}

func (h *harness) detail(o *op, returned bool) string {
	if !h.s.Trace {
		return ""
	}
	if !returned {
		switch o.kind {
		case opPut:
			return fmt.Sprintf("e%d class %d  #%d", o.tag, o.cls, o.call)
		case opSubscribe, opClose:
			return fmt.Sprintf("k%d  #%d", o.k, o.call)
		case opCache, opRelease:
			return fmt.Sprintf("p%d  #%d", o.k, o.call)
		}
		return fmt.Sprintf("#%d", o.call)
	}
	return o.String()
}

var cacheNotEmptyRE = regexp.MustCompile(`cache was not empty \((\d+)\)`)

func execC18(t *testing.T, sc *kernel.Scenario, trace bool) *kernel.Result {
	var h *harness
	res := world.RunBubble(t, sc, trace, func(s *world.Sim) {
		h = newHarness(s)
		h.run()
	})
	if res.Evals == 0 {
		res.Evals = 1
	}
	if h == nil || !h.done {
		// the bubble ended in a deadlock before the program finished: every
		// goroutine durably blocked, i.e. a relay operation never returned
		res.Fail(-1, "C18.deadlock", "the run did not reach quiescence: all goroutines of the bubble were blocked before the program finished")
		return res
	}
	h.check(res)
	return res
}

func newHarness(s *world.Sim) *harness {
	sc := s.Sc
	h := &harness{s: s, relay: wire.NewRelay(), lastTh: -1}
	h.nc = int(sc.Cfg("nc", 2))
	if h.nc < 0 {
		h.nc = 0
	}
	if h.nc > maxConsumers {
		h.nc = maxConsumers
	}
	np := int(sc.Cfg("np", 1))
	if np < 0 {
		np = 0
	}
	if np > maxPreds {
		np = maxPreds
	}
	h.preds = make([]wire.Predicate, np)
	h.pmask = make([]int, np)
	for j := 0; j < np; j++ {
		h.pmask[j] = int(sc.Cfg(fmt.Sprintf("p%d_mask", j), 1)) & (1<<numClasses - 1)
		h.preds[j] = classPred(h.pmask[j])
	}
	mk := func(kind, pred int) *consumer {
		c := &consumer{kind: kind, pred: pred & (1<<numClasses - 1)}
		if kind == kindRecorder {
			c.rec = &recorder{}
			c.c = c.rec
		} else {
			c.rcv = wire.NewReceiver()
			c.c = c.rcv
		}
		return c
	}
	for k := 0; k < h.nc; k++ {
		h.cons = append(h.cons, mk(int(sc.Cfg(fmt.Sprintf("c%d_kind", k), 0))&1, int(sc.Cfg(fmt.Sprintf("c%d_pred", k), 1))))
	}
	// two subscribe-all recorders used after quiescence
	h.cons = append(h.cons, mk(kindRecorder, 1<<numClasses-1), mk(kindRecorder, 1<<numClasses-1))
	h.relay.SetDefaultMsgHandler(func(e *wire.Envelope) {
		// runs under the relay's read lock: record only
		tag, _ := tagOf(e)
		h.deflt.add(tag)
	})
	return h
}

// validSteps filters the scenario's steps so that execution is total on any
// sub-sequence and on edited replay files: indices in range, every tag put at
// most once, every consumer subscribed at most once (a second subscription
// panics by contract), at most maxPuts envelopes.
func (h *harness) validSteps() [][]*kernel.Step {
	sc := h.s.Sc
	threads := int(sc.Cfg("threads", 2))
	if threads < 1 {
		threads = 1
	}
	if threads > 4 {
		threads = 4
	}
	per := make([][]*kernel.Step, threads)
	subscribed := map[int]bool{}
	puts := 0
	useTag := func(tag, cls int) bool {
		if tag < 0 || tag >= maxTags || cls < 0 || cls >= numClasses || h.tagPut[tag] || puts >= maxPuts {
			return false
		}
		h.tagPut[tag], h.tagCls[tag] = true, cls
		puts++
		return true
	}
	for i := range sc.Steps {
		st := &sc.Steps[i]
		th := int(st.Int("th"))
		if th < 0 || th >= threads {
			continue
		}
		k := int(st.Int("k"))
		switch st.Op {
		case "put":
			if !useTag(int(st.Int("tag")), int(st.Int("cls"))) {
				continue
			}
		case "burst":
			n, m := int(st.Int("n")), int(st.Int("m"))
			if n < 1 || m < 1 || n > 4 || m > 4 {
				continue
			}
			okAll := int(st.Int("tag0")) >= 0 && int(st.Int("tag0"))+n*m <= maxTags && puts+n*m <= maxPuts
			if okAll {
				for j := 0; j < n*m; j++ {
					if h.tagPut[int(st.Int("tag0"))+j] {
						okAll = false
					}
				}
			}
			if !okAll {
				continue
			}
			for j := 0; j < n*m; j++ {
				useTag(int(st.Int("tag0"))+j, int(st.Int("cls")))
			}
		case "subscribe":
			if k < 0 || k >= h.nc || subscribed[k] {
				continue
			}
			subscribed[k] = true
		case "close":
			if k < 0 || k >= h.nc {
				continue
			}
		case "cache", "release":
			if p := int(st.Int("p")); p < 0 || p >= len(h.preds) {
				continue
			}
		default:
			continue
		}
		per[th] = append(per[th], st)
	}
	return per
}

func (h *harness) run() {
	s := h.s
	sc := s.Sc
	s.EnableYields(yieldSites, float64(sc.Cfg("yield_pct", 0))/100)
	world.InstallYields(s)
	defer world.RemoveYields()

	gap := time.Duration(sc.Cfg("gap_us", 5)) * time.Microsecond
	readerMax := time.Duration(sc.Cfg("reader_us", 0)) * time.Microsecond
	impatient := float64(sc.Cfg("impatient_pct", 0)) / 100
	per := h.validSteps()

	// readers of the real receivers
	ctx, cancel := context.WithCancel(context.Background())
	var readers stdsync.WaitGroup
	for k := 0; k < h.nc; k++ {
		c := h.cons[k]
		if c.kind != kindReceiver {
			continue
		}
		readers.Add(1)
		go func(k int, c *consumer) {
			defer readers.Done()
			for n := 0; ; n++ {
				// an impatient consumer: some calls come with a context that is
				// already done, others with a deadline that may pass while the call
				// waits; the receiver stays open and the consumer simply calls
				// again. An envelope that was handed to the receiver must still be
				// returned by exactly one call.
				if impatient > 0 && s.Chance("impatient:"+strconv.Itoa(k), impatient) {
					dead, stop := context.WithCancel(ctx)
					stop()
					if e, err := c.rcv.Next(dead); err == nil {
						tag, _ := tagOf(e)
						c.read.add(tag)
						s.Note("r%d read e%d (done context)", k, tag)
					} else if ctx.Err() != nil || c.rcv.IsClosed() {
						return
					}
					s.Count("fault.reader_done_context", 1)
				}
				cctx, stop := ctx, context.CancelFunc(func() {})
				if impatient > 0 && s.Chance("deadline:"+strconv.Itoa(k), impatient) {
					cctx, stop = context.WithTimeout(ctx, s.Delay("deadline:"+strconv.Itoa(k), 0, 4*gap+time.Microsecond))
				}
				e, err := c.rcv.Next(cctx)
				stop()
				if err != nil {
					if ctx.Err() == nil && !c.rcv.IsClosed() && cctx.Err() != nil {
						s.Count("fault.reader_deadline_passed", 1)
						continue
					}
					return
				}
				tag, _ := tagOf(e)
				c.read.add(tag)
				// readers run parallel to the threads (GOMAXPROCS > 1) and never
				// influence them (a receiver never fills up): trace only
				s.Note("r%d read e%d", k, tag)
				if readerMax > 0 {
					s.Sleep("reader:"+strconv.Itoa(k), 0, readerMax)
				}
			}
		}(k, c)
	}

	var wg stdsync.WaitGroup
	for th := range per {
		if len(per[th]) == 0 {
			continue
		}
		wg.Add(1)
		go func(th int, steps []*kernel.Step) {
			defer wg.Done()
			for _, st := range steps {
				// keyed gap, rounded up so that thread th always wakes at an instant
				// = th (mod 4 ns): two threads never leave their gaps at the same
				// instant (with GOMAXPROCS > 1 the runtime, not the simulator, would
				// order them)
				d := s.Delay("gap:"+strconv.FormatInt(st.Int("id"), 10), 0, gap)
				at := s.Now() + d
				d += (time.Duration(th) - at%4 + 4) % 4
				time.Sleep(d)
				h.do(th, st)
			}
		}(th, per[th])
	}
	wg.Wait()

	// quiescence: cached-delivery and delete goroutines finish, readers drain
	time.Sleep(50 * time.Millisecond)
	h.quiescent = h.stamp()

	// a subscribe-all consumer takes over whatever is still cached; a second one
	// must then find the cache empty; Relay.Close reports what is left
	for i := 0; i < 2; i++ {
		o := &op{kind: opSubscribe, th: 9, k: h.nc + i, stepID: -1}
		h.begin(o)
		o.ok = h.relay.Subscribe(h.cons[h.nc+i].c, classPred(1<<numClasses-1)) == nil
		h.end(o)
		time.Sleep(time.Millisecond)
	}
	o := &op{kind: opCloseRelay, th: 9, stepID: -1}
	h.begin(o)
	if err := h.relay.Close(); err != nil {
		o.n = -1
		if m := cacheNotEmptyRE.FindStringSubmatch(err.Error()); m != nil {
			o.n, _ = strconv.Atoi(m[1])
		}
	}
	h.end(o)

	cancel()
	readers.Wait()
	time.Sleep(time.Millisecond)
	if sc.Cfg("stall_epilogue", 0) == 1 {
		h.stalledConsumer()
	}
	if sc.Cfg("scale_epilogue", 0) == 1 && h.epilogue == "" {
		h.bigCache()
	}
	if sc.Cfg("scale_epilogue", 0) == 2 && h.epilogue == "" {
		h.manyConsumers()
	}
	if sc.Cfg("cache_epilogue", 0) == 1 && h.epilogue == "" {
		h.cacheBehindDelivery()
	}
	h.mu.Lock()
	h.done = true
	h.mu.Unlock()
}

func (h *harness) setEpilogue(check, format string, a ...any) {
	h.mu.Lock()
	if h.epilogue == "" {
		h.epilogue = check + "|" + fmt.Sprintf(format, a...)
	}
	h.mu.Unlock()
}

// gated is a consumer that is slow at taking an envelope: Put signals that it
// was entered and returns only when the gate is opened.
type gated struct {
	sync.Closer
	got
	entered, release chan struct{}
}

func (g *gated) Put(e *wire.Envelope) {
	t, _ := tagOf(e)
	select {
	case g.entered <- struct{}{}:
	default:
	}
	<-g.release
	g.add(t)
}

// cacheBehindDelivery is an epilogue on a relay of its own: while an envelope
// is being handed to a slow consumer (the relay is busy), another thread
// enables a caching predicate and, after Cache has returned, puts an envelope
// that only this predicate matches. A consumer subscribing afterwards must
// get it, once, and it must not have reached the default handler. The waiting
// uses neither the clock nor quiescence: a thread blocked in the relay's own
// standard mutex is not blocked in the eyes of the simulated clock (rule R3).
func (h *harness) cacheBehindDelivery() {
	relay := wire.NewRelay()
	var dflt got
	relay.SetDefaultMsgHandler(func(e *wire.Envelope) { t, _ := tagOf(e); dflt.add(t) })
	g := &gated{entered: make(chan struct{}, 1), release: make(chan struct{})}
	if relay.Subscribe(g, classPred(1)) != nil {
		return
	}
	h.s.Count("fault.cache_enabled_behind_slow_delivery", 1)
	p1 := make(chan struct{})
	go func() {
		defer close(p1)
		relay.Put(newEnvelope(0, 0))
	}()
	<-g.entered
	late := classPred(2)
	cDone := make(chan struct{})
	go func() {
		defer close(cDone)
		relay.Cache(&late)
		relay.Put(newEnvelope(1, 1))
	}()
	for i, fin := 0, false; i < 4000 && !fin; i++ {
		runtime.Gosched()
		select {
		case <-cDone:
			fin = true
		default:
		}
	}
	close(g.release)
	<-p1
	<-cDone
	rec := &recorder{}
	if relay.Subscribe(rec, late) != nil {
		return
	}
	time.Sleep(5 * time.Millisecond)
	rec.mu.Lock()
	n := 0
	for _, t := range rec.tags {
		if t == 1 {
			n++
		}
	}
	rec.mu.Unlock()
	dflt.mu.Lock()
	nd := len(dflt.tags)
	dflt.mu.Unlock()
	if n != 1 || nd != 0 {
		h.setEpilogue("C18.lost-envelope@cache-behind-delivery", "a caching predicate was enabled while another envelope was being delivered to a slow consumer; the envelope put after Cache had returned reached the later subscriber %d times and the default handler %d times", n, nd)
		return
	}
	_ = relay.Close()
}

// bigCache is an epilogue on a relay of its own: with a caching predicate
// enabled and nobody subscribed, far more envelopes than a receiver buffers
// are put; the consumer that subscribes afterwards gets every one of them
// exactly once, and nothing went to the default handler.
func (h *harness) bigCache() {
	s := h.s
	relay := wire.NewRelay()
	var dflt got
	relay.SetDefaultMsgHandler(func(e *wire.Envelope) { t, _ := tagOf(e); dflt.add(t) })
	all := func(*wire.Envelope) bool { return true }
	relay.Cache(&all)
	n := 20 + int(s.Delay("bigcache:n", 0, 60*time.Microsecond)/time.Microsecond)
	for i := 0; i < n; i++ {
		relay.Put(newEnvelope(i, 0))
	}
	s.Count("fault.many_cached_envelopes", 1)
	rec := &recorder{}
	if relay.Subscribe(rec, all) != nil {
		return
	}
	time.Sleep(5 * time.Millisecond)
	rec.mu.Lock()
	seen := map[int]int{}
	for _, t := range rec.tags {
		seen[t]++
	}
	rec.mu.Unlock()
	for i := 0; i < n; i++ {
		if seen[i] != 1 {
			dflt.mu.Lock()
			nd := len(dflt.tags)
			dflt.mu.Unlock()
			h.setEpilogue("C18.lost-envelope@big-cache", "%d envelopes were put while a caching predicate matched and nobody was subscribed; the consumer that subscribed afterwards got envelope %d %d times (%d reached the default handler)", n, i, seen[i], nd)
			return
		}
	}
	_ = relay.Close()
}

// manyConsumers is an epilogue on a relay of its own: 40 consumers with
// pairwise disjoint predicates are subscribed, most of them are closed again
// in a drawn order, and then one envelope is put for every consumer. Each open
// consumer gets exactly its own envelope; the envelopes of the closed ones go
// to the default handler.
func (h *harness) manyConsumers() {
	s := h.s
	relay := wire.NewRelay()
	var dflt got
	relay.SetDefaultMsgHandler(func(e *wire.Envelope) { t, _ := tagOf(e); dflt.add(t) })
	const n = 40
	recs := make([]*recorder, n)
	for i := range recs {
		i := i
		recs[i] = &recorder{}
		if relay.Subscribe(recs[i], func(e *wire.Envelope) bool { t, _ := tagOf(e); return t == i }) != nil {
			return
		}
	}
	s.Count("fault.many_consumers", 1)
	// which stay open: 4-10 of them, by keyed coin flips; closing order: a keyed permutation
	order := make([]int, n)
	for i := range order {
		order[i] = i
	}
	for i := n - 1; i > 0; i-- {
		j := int(s.Delay(fmt.Sprintf("many:perm:%d", i), 0, time.Duration(i)*time.Microsecond) / time.Microsecond)
		order[i], order[j] = order[j], order[i]
	}
	keep := 4 + int(s.Delay("many:keep", 0, 6*time.Microsecond)/time.Microsecond)
	open := map[int]bool{}
	for _, i := range order[:keep] {
		open[i] = true
	}
	for _, i := range order[keep:] {
		_ = recs[i].Close()
		time.Sleep(s.Delay(fmt.Sprintf("many:close-gap:%d", i), 0, 30*time.Microsecond))
	}
	time.Sleep(5 * time.Millisecond) // the asynchronous removals have run
	for i := 0; i < n; i++ {
		relay.Put(newEnvelope(i, 0))
	}
	time.Sleep(time.Millisecond)
	for i := 0; i < n; i++ {
		recs[i].mu.Lock()
		tags := append([]int{}, recs[i].tags...)
		recs[i].mu.Unlock()
		if open[i] && (len(tags) != 1 || tags[0] != i) {
			h.setEpilogue("C18.lost-envelope@many-consumers", "of 40 consumers with disjoint predicates %d were closed; open consumer %d then got %v instead of exactly its own envelope", n-keep, i, tags)
			return
		}
	}
	dflt.mu.Lock()
	nd := len(dflt.tags)
	dflt.mu.Unlock()
	if nd != n-keep {
		h.setEpilogue("C18.lost-envelope@many-consumers", "of 40 consumers %d were closed: %d envelopes reached the default handler, %d were expected there", n-keep, nd, n-keep)
	}
	for i := range recs {
		if open[i] {
			_ = recs[i].Close()
		}
	}
	time.Sleep(time.Millisecond)
	_ = relay.Close()
}

// stalledConsumer is an epilogue on a relay of its own (the judged history has
// at most 12 envelopes so that a receiver's 16 slots never fill up): a
// receiver that nobody reads and a recording consumer are subscribed for the
// same envelopes; a producer puts 20 of them and legitimately blocks when the
// receiver is full; then the stalled receiver is closed. The producer must go
// on, and the other consumer gets every envelope exactly once.
func (h *harness) stalledConsumer() {
	s := h.s
	relay := wire.NewRelay()
	relay.SetDefaultMsgHandler(func(*wire.Envelope) {})
	stalled := wire.NewReceiver()
	rec := &recorder{}
	all := func(*wire.Envelope) bool { return true }
	first := s.Chance("stall:order", 0.5)
	subs := []wire.Consumer{stalled, rec}
	if !first {
		subs = []wire.Consumer{rec, stalled}
	}
	for _, c := range subs {
		if relay.Subscribe(c, all) != nil {
			return
		}
	}
	s.Count("fault.consumer_stalls_until_full_then_closes", 1)
	const n = 20
	done := make(chan struct{})
	go func() {
		defer close(done)
		for i := 0; i < n; i++ {
			relay.Put(newEnvelope(i, 0))
		}
	}()
	time.Sleep(s.Delay("stall:before-close", time.Millisecond, 5*time.Millisecond))
	_ = stalled.Close()
	tm := time.NewTimer(10 * time.Second)
	defer tm.Stop()
	select {
	case <-done:
	case <-tm.C:
		h.mu.Lock()
		h.epilogue = "C18.put-stuck-after-consumer-close|an envelope was being handed to a receiver whose queue was full when that receiver was closed: Relay.Put did not return within 10 simulated seconds (it holds the relay's read lock; every later envelope is lost with it)"
		h.mu.Unlock()
		return
	}
	time.Sleep(time.Millisecond)
	rec.mu.Lock()
	tags := append([]int{}, rec.tags...)
	rec.mu.Unlock()
	seen := map[int]int{}
	for _, t := range tags {
		seen[t]++
	}
	for i := 0; i < n; i++ {
		if seen[i] != 1 {
			h.mu.Lock()
			h.epilogue = fmt.Sprintf("C18.lost-envelope@stalled-consumer|envelope %d was handed %d times to a consumer subscribed next to a stalled receiver (20 put, %d received)", i, seen[i], len(tags))
			h.mu.Unlock()
			return
		}
	}
	_ = relay.Close()
}

func (h *harness) do(th int, st *kernel.Step) {
	id := int(st.Int("id"))
	switch st.Op {
	case "put":
		o := &op{kind: opPut, th: th, tag: int(st.Int("tag")), cls: int(st.Int("cls")), stepID: id}
		e := newEnvelope(o.tag, o.cls)
		h.begin(o)
		h.relay.Put(e)
		h.end(o)
	case "burst":
		// n goroutines put m envelopes each, released together and without any
		// delay or harness synchronisation between the puts. The intervals of a
		// goroutine's puts are widened to the goroutine's whole burst, which only
		// makes the linearizability check more permissive (sound).
		n, m, cls, tag0 := int(st.Int("n")), int(st.Int("m")), int(st.Int("cls")), int(st.Int("tag0"))
		start := make(chan struct{})
		var wg stdsync.WaitGroup
		for g := 0; g < n; g++ {
			ops := make([]*op, m)
			envs := make([]*wire.Envelope, m)
			for j := 0; j < m; j++ {
				tag := tag0 + g*m + j
				ops[j] = &op{kind: opPut, th: 4 + g, tag: tag, cls: cls, stepID: id}
				envs[j] = newEnvelope(tag, cls)
			}
			wg.Add(1)
			go func() {
				defer wg.Done()
				<-start
				h.begin(ops...)
				for _, e := range envs {
					h.relay.Put(e)
				}
				h.end(ops...)
			}()
		}
		h.s.Count("op.burst", 1)
		h.s.Event("t"+strconv.Itoa(th), "burst.inv", fmt.Sprintf("%d goroutines x %d puts of class %d", n, m, cls))
		close(start)
		wg.Wait()
		h.s.Event("t"+strconv.Itoa(th), "burst.ret", "")
	case "subscribe":
		k := int(st.Int("k"))
		c := h.cons[k]
		o := &op{kind: opSubscribe, th: th, k: k, stepID: id}
		h.begin(o)
		o.ok = h.relay.Subscribe(c.c, classPred(c.pred)) == nil
		h.end(o)
	case "cache":
		p := int(st.Int("p"))
		o := &op{kind: opCache, th: th, k: p, stepID: id}
		h.begin(o)
		h.relay.Cache(&h.preds[p])
		h.end(o)
	case "release":
		p := int(st.Int("p"))
		o := &op{kind: opRelease, th: th, k: p, stepID: id}
		h.begin(o)
		h.relay.ReleaseCache(&h.preds[p])
		h.end(o)
	case "close":
		k := int(st.Int("k"))
		o := &op{kind: opClose, th: th, k: k, stepID: id}
		h.begin(o)
		o.ok = h.cons[k].close() == nil
		h.end(o)
	}
}
