#!/bin/sh
# Offline setup: warm the Go build cache by building every engine once.
# A failure here is only a warning: every check rebuilds what it needs.
export GOFLAGS=-mod=mod GOPROXY=off GOSUMDB=off GOTOOLCHAIN=local
cd "$(dirname "$0")/sim" || exit 1
T=$(mktemp -d /var/tmp/verif-setup-XXXXXX)
trap 'rm -rf "$T"' EXIT
for e in engines/*/; do
  n=$(basename "$e")
  go1.26.8 test -c -tags verif -o "$T/$n.test" "./engines/$n" || echo "warning: engine $n does not build yet"
done
# race-mode builds used by C18 and C20
for n in relay multi; do
  go1.26.8 test -c -race -tags verif -o "$T/$n.race.test" "./engines/$n" || echo "warning: race build of $n failed"
done
echo "setup ok"
