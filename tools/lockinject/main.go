// Command lockinject instruments a scratch copy of go-perun (never /repo) so
// that a simulator can park goroutines at every lock boundary without
// violating rule R3 (DESIGN 2.1: never park while a standard-library mutex is
// held, because a goroutine blocked on such a mutex is not durably blocked and
// the bubble's fake clock would stop).
//
// It loads the given packages with type information and rewrites
//
//	x.Lock() / x.RLock()        (std sync.Mutex / sync.RWMutex, also promoted)
//	    -> simhook.Yield("auto:<file>:<line>"); x.Lock(); simhook.Held(1)
//	x.Unlock() / x.RUnlock()    -> simhook.Held(-1); x.Unlock(); simhook.Yield("auto:<file>:<line>u")
//	defer x.Unlock()            -> defer func() { simhook.Held(-1); x.Unlock() }()
//	once.Do(f)                  -> simhook.Held(1); once.Do(f); simhook.Held(-1)
//	m.Lock()/LockCtx/TryLockCtx (channel-based poly-go mutex)
//	    -> simhook.Yield(...) before the statement that contains the call
//	m.Unlock() (poly-go)        -> ...; simhook.Yield(...) after it
//
// simhook.Held keeps one global count of standard mutexes held by anybody; the
// simulator's yield handler parks only while the count is zero. Yield sites
// follow the code through refactorings: a critical section that is split in
// two gets yield points in the new window.
//
// usage: lockinject <module dir> <pkg pattern>...
package main

import (
	"bytes"
	"fmt"
	"go/ast"
	"go/format"
	"go/token"
	"go/types"
	"os"
	"path/filepath"
	"strconv"
	"strings"

	"golang.org/x/tools/go/packages"
)

const hookPath = "perun.network/go-perun/simhook"

type kind int

const (
	none kind = iota
	stdLock
	stdUnlock
	stdTry
	onceDo
	polyLock
	polyUnlock
)

type rewriter struct {
	skip  map[ast.Node]bool
	fset  *token.FileSet
	info  *types.Info
	base  string
	sites int
	std   int
	maps  int
	warn  []string
}

// classify returns what kind of synchronisation call e is.
func (r *rewriter) classify(e ast.Expr) kind {
	c, ok := e.(*ast.CallExpr)
	if !ok {
		return none
	}
	sel, ok := c.Fun.(*ast.SelectorExpr)
	if !ok {
		return none
	}
	s := r.info.Selections[sel]
	if s == nil || s.Kind() != types.MethodVal {
		return none
	}
	fn, ok := s.Obj().(*types.Func)
	if !ok || fn.Pkg() == nil {
		return none
	}
	sig := fn.Type().(*types.Signature)
	if sig.Recv() == nil {
		return none
	}
	rt := sig.Recv().Type()
	if p, ok := rt.(*types.Pointer); ok {
		rt = p.Elem()
	}
	named, ok := rt.(*types.Named)
	if !ok {
		return none
	}
	pkg, typ, name := fn.Pkg().Path(), named.Obj().Name(), fn.Name()
	switch {
	case pkg == "sync" && (typ == "Mutex" || typ == "RWMutex"):
		switch name {
		case "Lock", "RLock":
			return stdLock
		case "Unlock", "RUnlock":
			return stdUnlock
		case "TryLock", "TryRLock":
			return stdTry
		}
	case pkg == "sync" && typ == "Once" && name == "Do":
		return onceDo
	case strings.HasSuffix(pkg, "poly-go/sync") && typ == "Mutex":
		switch name {
		case "Lock", "LockCtx", "TryLock", "TryLockCtx":
			return polyLock
		case "Unlock":
			return polyUnlock
		}
	}
	return none
}

// closerHandler reports whether c registers a close handler with a poly-go Closer.
func (r *rewriter) closerHandler(c *ast.CallExpr) bool {
	sel, ok := c.Fun.(*ast.SelectorExpr)
	if !ok {
		return false
	}
	s := r.info.Selections[sel]
	if s == nil || s.Kind() != types.MethodVal {
		return false
	}
	fn, ok := s.Obj().(*types.Func)
	if !ok || fn.Pkg() == nil || !strings.HasSuffix(fn.Pkg().Path(), "poly-go/sync") {
		return false
	}
	return fn.Name() == "OnClose" || fn.Name() == "OnCloseAlways"
}

func call(fn string, arg ast.Expr) ast.Stmt {
	return &ast.ExprStmt{X: &ast.CallExpr{
		Fun:  &ast.SelectorExpr{X: ast.NewIdent("simhook"), Sel: ast.NewIdent(fn)},
		Args: []ast.Expr{arg},
	}}
}

func intLit(v int) ast.Expr {
	if v < 0 {
		return &ast.UnaryExpr{Op: token.SUB, X: &ast.BasicLit{Kind: token.INT, Value: strconv.Itoa(-v)}}
	}
	return &ast.BasicLit{Kind: token.INT, Value: strconv.Itoa(v)}
}

func (r *rewriter) yield(pos token.Pos, suffix string) ast.Stmt {
	r.sites++
	site := fmt.Sprintf("auto:%s:%d%s", r.base, r.fset.Position(pos).Line, suffix)
	return call("Yield", &ast.BasicLit{Kind: token.STRING, Value: strconv.Quote(site)})
}

// containsPolyLock reports whether expression e (a condition, an init
// statement's right-hand side) contains a poly-go lock acquisition.
func (r *rewriter) exprHas(n ast.Node, want kind) bool {
	found := false
	if n == nil {
		return false
	}
	ast.Inspect(n, func(x ast.Node) bool {
		if _, ok := x.(*ast.FuncLit); ok {
			return false
		}
		if e, ok := x.(ast.Expr); ok && r.classify(e) == want {
			found = true
		}
		return !found
	})
	return found
}

// stmts rewrites one statement list.
func (r *rewriter) stmts(list []ast.Stmt) []ast.Stmt {
	var out []ast.Stmt
	for _, st := range list {
		switch s := st.(type) {
		case *ast.ExprStmt:
			switch r.classify(s.X) {
			case stdLock:
				r.std++
				out = append(out, r.yield(s.Pos(), ""), st, call("Held", intLit(1)))
				continue
			case stdUnlock:
				out = append(out, call("Held", intLit(-1)), st, r.yield(s.Pos(), "u"))
				continue
			case onceDo:
				out = append(out, call("Held", intLit(1)), st, call("Held", intLit(-1)))
				continue
			case polyLock:
				out = append(out, r.yield(s.Pos(), ""), st)
				continue
			case polyUnlock:
				out = append(out, st, r.yield(s.Pos(), "u"))
				continue
			case stdTry:
				r.warn = append(r.warn, fmt.Sprintf("%s: result of TryLock discarded", r.fset.Position(s.Pos())))
			}
		case *ast.DeferStmt:
			switch r.classify(s.Call) {
			case stdUnlock:
				blk := &ast.BlockStmt{List: []ast.Stmt{call("Held", intLit(-1)), &ast.ExprStmt{X: s.Call}}}
				r.skip[blk] = true
				s.Call = &ast.CallExpr{Fun: &ast.FuncLit{Type: &ast.FuncType{Params: &ast.FieldList{}}, Body: blk}}
			case stdLock, onceDo:
				r.warn = append(r.warn, fmt.Sprintf("%s: deferred Lock/Do not instrumented", r.fset.Position(s.Pos())))
			}
		case *ast.GoStmt:
			if k := r.classify(s.Call); k == stdLock || k == stdUnlock {
				r.warn = append(r.warn, fmt.Sprintf("%s: go x.Lock() not instrumented", r.fset.Position(s.Pos())))
			}
		case *ast.IfStmt:
			if r.exprHas(s.Init, polyLock) || r.exprHas(s.Cond, polyLock) {
				out = append(out, r.yield(s.Pos(), ""))
			}
		case *ast.AssignStmt:
			for _, rhs := range s.Rhs {
				if r.exprHas(rhs, polyLock) {
					out = append(out, r.yield(s.Pos(), ""))
					break
				}
			}
		case *ast.ReturnStmt:
			for _, rhs := range s.Results {
				if r.exprHas(rhs, polyLock) {
					out = append(out, r.yield(s.Pos(), ""))
					break
				}
			}
		}
		out = append(out, st)
	}
	return out
}

// unsupported finds std lock calls in expression position (not a plain
// statement), which the rewriting above does not cover.
func (r *rewriter) unsupported(f *ast.File) {
	ok := map[ast.Expr]bool{}
	ast.Inspect(f, func(n ast.Node) bool {
		switch s := n.(type) {
		case *ast.ExprStmt:
			ok[s.X] = true
		case *ast.DeferStmt:
			ok[s.Call] = true
		}
		return true
	})
	ast.Inspect(f, func(n ast.Node) bool {
		e, isExpr := n.(ast.Expr)
		if !isExpr || ok[e] {
			return true
		}
		switch r.classify(e) {
		case stdLock, stdUnlock, stdTry, onceDo:
			r.warn = append(r.warn, fmt.Sprintf("%s: standard lock call in expression position", r.fset.Position(e.Pos())))
		}
		return true
	})
}

// mapRange turns `for k, v := range m` over a map into a loop over
// simhook.Keys(m): the runtime's random iteration order becomes an order that
// depends only on the keys and on the simulator's choice. Entries deleted
// while the loop runs are skipped, as the language prescribes; entries added
// meanwhile are not visited (the language leaves that open).
func (r *rewriter) mapRange(s *ast.RangeStmt) {
	tv, ok := r.info.Types[s.X]
	if !ok || tv.Type == nil {
		return
	}
	if _, isMap := tv.Type.Underlying().(*types.Map); !isMap {
		return
	}
	pos := r.fset.Position(s.Pos())
	if s.Tok != token.DEFINE && s.Key != nil {
		r.warn = append(r.warn, fmt.Sprintf("%s: range over a map with '=' not made reproducible", pos))
		return
	}
	simple := func(e ast.Expr) bool {
		for {
			switch x := e.(type) {
			case *ast.Ident:
				return true
			case *ast.SelectorExpr:
				e = x.X
			case *ast.ParenExpr:
				e = x.X
			case *ast.StarExpr:
				e = x.X
			default:
				return false
			}
		}
	}
	if !simple(s.X) {
		r.warn = append(r.warn, fmt.Sprintf("%s: range over a map-valued call not made reproducible", pos))
		return
	}
	blank := func(e ast.Expr) bool {
		id, isID := e.(*ast.Ident)
		return e == nil || (isID && id.Name == "_")
	}
	m := s.X
	key := ast.Expr(ast.NewIdent("simK"))
	if !blank(s.Key) {
		key = s.Key
	}
	var pre []ast.Stmt
	okID := ast.NewIdent("simOK")
	val := ast.Expr(ast.NewIdent("_"))
	if !blank(s.Value) {
		val = s.Value
	}
	// v, simOK := m[k]; if !simOK { continue }
	pre = append(pre,
		&ast.AssignStmt{Lhs: []ast.Expr{val, okID}, Tok: token.DEFINE, Rhs: []ast.Expr{&ast.IndexExpr{X: m, Index: key}}},
		&ast.IfStmt{Cond: &ast.UnaryExpr{Op: token.NOT, X: okID}, Body: &ast.BlockStmt{List: []ast.Stmt{&ast.BranchStmt{Tok: token.CONTINUE}}}})
	s.X = &ast.CallExpr{Fun: &ast.SelectorExpr{X: ast.NewIdent("simhook"), Sel: ast.NewIdent("Keys")}, Args: []ast.Expr{m}}
	s.Key, s.Value, s.Tok = ast.NewIdent("_"), key, token.DEFINE
	s.Body.List = append(pre, s.Body.List...)
	r.maps++
}

func (r *rewriter) file(f *ast.File) {
	r.unsupported(f)
	ast.Inspect(f, func(n ast.Node) bool {
		if n != nil && r.skip[n] {
			return false
		}
		switch b := n.(type) {
		case *ast.CallExpr:
			// handlers registered with a poly-go Closer run under its standard mutex
			if r.closerHandler(b) && len(b.Args) == 1 {
				b.Args[0] = &ast.CallExpr{Fun: &ast.SelectorExpr{X: ast.NewIdent("simhook"), Sel: ast.NewIdent("HeldFn")}, Args: []ast.Expr{b.Args[0]}}
				r.std++
			}
		case *ast.RangeStmt:
			r.mapRange(b)
		case *ast.BlockStmt:
			b.List = r.stmts(b.List)
		case *ast.CaseClause:
			b.Body = r.stmts(b.Body)
		case *ast.CommClause:
			b.Body = r.stmts(b.Body)
		}
		return true
	})
}

func main() {
	if len(os.Args) < 3 {
		fmt.Fprintln(os.Stderr, "usage: lockinject <module dir> <pkg pattern>...")
		os.Exit(2)
	}
	dir := os.Args[1]
	cfg := &packages.Config{
		Mode: packages.NeedName | packages.NeedFiles | packages.NeedCompiledGoFiles | packages.NeedSyntax | packages.NeedTypes | packages.NeedTypesInfo | packages.NeedImports | packages.NeedDeps,
		Dir:  dir, BuildFlags: []string{"-tags", "verif"},
	}
	pkgs, err := packages.Load(cfg, os.Args[2:]...)
	if err != nil {
		fmt.Fprintln(os.Stderr, err)
		os.Exit(1)
	}
	totalSites, totalStd, totalMaps := 0, 0, 0
	var warns []string
	for _, p := range pkgs {
		if len(p.Errors) > 0 {
			fmt.Fprintln(os.Stderr, p.PkgPath, p.Errors)
			os.Exit(1)
		}
		if p.PkgPath == hookPath {
			continue
		}
		for i, f := range p.Syntax {
			path := p.CompiledGoFiles[i]
			if strings.HasSuffix(path, "_test.go") || strings.HasSuffix(path, ".pb.go") {
				continue
			}
			r := &rewriter{skip: map[ast.Node]bool{}, fset: p.Fset, info: p.TypesInfo, base: filepath.Base(filepath.Dir(path)) + "/" + filepath.Base(path)}
			r.file(f)
			warns = append(warns, r.warn...)
			if r.sites == 0 && r.std == 0 && r.maps == 0 {
				continue
			}
			has := false
			for _, im := range f.Imports {
				if im.Path.Value == strconv.Quote(hookPath) {
					has = true
				}
			}
			if !has {
				f.Decls = append([]ast.Decl{&ast.GenDecl{Tok: token.IMPORT, Specs: []ast.Spec{
					&ast.ImportSpec{Path: &ast.BasicLit{Kind: token.STRING, Value: strconv.Quote(hookPath)}}}}}, f.Decls...)
			}
			var buf bytes.Buffer
			if err := format.Node(&buf, p.Fset, f); err != nil {
				fmt.Fprintln(os.Stderr, path, err)
				os.Exit(1)
			}
			if err := os.WriteFile(path, buf.Bytes(), 0o644); err != nil {
				fmt.Fprintln(os.Stderr, err)
				os.Exit(1)
			}
			totalSites += r.sites
			totalStd += r.std
			totalMaps += r.maps
		}
	}
	for _, w := range warns {
		fmt.Println("warning:", w)
	}
	fmt.Printf("lockinject: %d yield points, %d standard lock sites, %d map ranges\n", totalSites, totalStd, totalMaps)
}
