#!/usr/bin/env python3
"""mkcanary.py <name> <props,comma> <file> <old> <new> [note]: writes canaries/<name>.patch and .json (patch against /repo HEAD)"""
import sys, os, subprocess, json, tempfile, shutil
name, props, path, old, new = sys.argv[1:6]
note = sys.argv[6] if len(sys.argv) > 6 else ""
V = os.path.dirname(os.path.dirname(os.path.abspath(__file__)))
wt = tempfile.mkdtemp(prefix="mkcanary-", dir="/tmp"); os.rmdir(wt)
subprocess.run(["git", "-C", "/repo", "worktree", "add", "-q", "--detach", wt, "HEAD"], check=True)
try:
    f = os.path.join(wt, path)
    s = open(f).read()
    if s.count(old) != 1:
        sys.exit("old text occurs %d times in %s" % (s.count(old), path))
    open(f, "w").write(s.replace(old, new))
    d = subprocess.run(["git", "-C", wt, "diff"], stdout=subprocess.PIPE, text=True).stdout
    open(os.path.join(V, "canaries", name + ".patch"), "w").write(d)
    json.dump(dict(properties=props.split(","), note=note, file=path), open(os.path.join(V, "canaries", name + ".json"), "w"), indent=1)
    print("wrote canary", name)
finally:
    subprocess.run(["git", "-C", "/repo", "worktree", "remove", "--force", wt])
    shutil.rmtree(wt, ignore_errors=True)
