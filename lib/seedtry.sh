#!/bin/sh
# seedtry.sh <seeded id> <property> [tier]: run one check against a scratch worktree with the seeded change applied
# (no bookkeeping; evidence files are restored afterwards). For trying out a strengthened check.
cd "$(dirname "$0")/.."
id=$1; prop=$2; tier=${3:-quick}
wt=$(mktemp -u /tmp/seedtry-XXXXXX)
git -C /repo worktree add -q --detach "$wt" HEAD || exit 2
( cd "$wt" && git apply "/verif/seeded/$id/patch.diff" ) || { git -C /repo worktree remove --force "$wt"; exit 2; }
VERIF_REPO="$wt" ./check "$prop" --tier "$tier" 2>&1 | tail -n 12
git -C /repo worktree remove --force "$wt"; rm -rf "$wt"
git checkout -q evidence/ 2>/dev/null
