#!/usr/bin/env python3
"""detdiff.py <prop> <run> [seed]: execute one run index several times (GOMAXPROCS 1,16,4,1) with traces
and print the first differing trace lines - a debugging aid for the determinism self-test."""
import sys, os, subprocess, json, tempfile, shutil, difflib
sys.path.insert(0, os.path.dirname(os.path.abspath(__file__)))
import coord

prop, run = sys.argv[1], int(sys.argv[2])
seed = sys.argv[3] if len(sys.argv) > 3 else "1"
tmp = tempfile.mkdtemp(prefix="verif-detdiff-", dir="/var/tmp")
try:
    info = coord.PROPS[prop]
    b = coord.build(info["engine"], tmp, inject=info.get("inject"))
    traces = []
    for rep, gmp in enumerate((["1", "16", "4", "1"] * int(os.environ.get("DETDIFF_REPS", "1")))):
        td = os.path.join(tmp, "tr%d" % rep)
        os.makedirs(td, exist_ok=True)
        env = coord.env_base()
        env.update(VERIF_MODE="run", VERIF_PROP=prop, VERIF_TIER="quick", VERIF_SEED=seed, VERIF_FROM=str(run), VERIF_TO=str(run + 1),
                   VERIF_STRIDE="1", VERIF_OUT=os.path.join(tmp, "o%d.json" % rep), VERIF_RUNHASH="1", VERIF_SAMPLES="0", VERIF_TRACEDIR=td, GOMAXPROCS=gmp)
        subprocess.run([b, "-test.run", "^TestWorker$", "-test.timeout", "0"], env=env, stdout=subprocess.DEVNULL, stderr=subprocess.DEVNULL, cwd=tmp)
        print(rep, gmp, json.load(open(os.path.join(tmp, "o%d.json" % rep))).get("run_hashes"))
        traces.append(open(os.path.join(td, "run-%d.txt" % run)).read().splitlines())
    shown = 0
    for i in range(1, len(traces)):
        d = list(difflib.unified_diff(traces[0], traces[i], lineterm="", n=3))
        if not d and len(traces) > 4:
            continue
        shown += 1
        if shown > 2:
            break
        print("--- execution 0 vs %d: %d diff lines" % (i, len(d)))
        for l in d[:40]:
            print(l[:200])
finally:
    shutil.rmtree(tmp, ignore_errors=True)
