"""Coordinator: builds the engine test binary from the current /repo tree (hooks on),
runs worker processes, confirms / minimises / reports violations, writes evidence."""
import argparse, json, os, re, shutil, subprocess, sys, tempfile, threading, time
from concurrent.futures import ThreadPoolExecutor

VERIF = os.path.dirname(os.path.dirname(os.path.abspath(__file__)))
SIM = os.path.join(VERIF, "sim")
GO = "go1.26.8"

# property -> engine package, manifest level
# packages whose lock boundaries get automatic yield points in the world engines (tools/lockinject)
LOCKPKGS = dict(packages=["./client", "./watcher/local", "./wire"])

PROPS = {
    "C01": dict(engine="machine", level="exploration"),
    "C02": dict(engine="machine", level="exploration"),
    "C09": dict(engine="machine", level="exploration"),
    "C10": dict(engine="persist", level="fault_enumeration"),
    "C11": dict(engine="persist", level="exploration"),
    "C13": dict(engine="link", level="fault_enumeration", race=True),
    "C14": dict(engine="link", level="exploration"),
    "C16": dict(engine="link", level="fault_enumeration"),
    "C03": dict(engine="world", level="exploration", inject=LOCKPKGS),
    "C04": dict(engine="world", level="exploration", inject=LOCKPKGS),
    "C06": dict(engine="world", level="exploration", inject=LOCKPKGS),
    "C08": dict(engine="world", level="exploration", inject=LOCKPKGS),
    "C07": dict(engine="world", level="exploration", inject=LOCKPKGS),
    "C12": dict(engine="world", level="exploration", hang_is_lockup=True, inject=LOCKPKGS),
    "C05": dict(engine="watcher", level="exploration", inject=LOCKPKGS),
    "C18": dict(engine="relay", level="exploration", race=True, hang_is_lockup=True, inject=["wire/relay.go", "wire/cache.go", "wire/receiver.go"]),
    "C20": dict(engine="multi", level="exploration", race=True),
}


def env_base():
    e = dict(os.environ)
    e.update(GOFLAGS="-mod=mod", GOPROXY="off", GOSUMDB="off", GOTOOLCHAIN="local",
             GODEBUG="asyncpreemptoff=1")
    e.pop("GOMAXPROCS", None)
    # a simulated run takes milliseconds of real time: 25 s without a single seam event is a stalled
    # simulation (a goroutine blocked on a standard mutex stops the bubble's clock), not a slow one
    e.setdefault("VERIF_WATCHDOG_S", "25")
    return e


def repo_path():
    return os.environ.get("VERIF_REPO", "/repo")


def wjson(path, obj, indent=None):
    with open(path, "w") as f:
        json.dump(obj, f, indent=indent)


def log(*a):
    print(*a, flush=True)


class Harness(Exception):
    """exit-2 class trouble"""


def instrumented_copy(tmp, inject):
    """scratch copy of the repository under test with automatically inserted yield points.
    inject is a list of files (cmd/yieldinject: yields before top-level lock calls) or a dict
    {"packages": [...]} (tools/lockinject: type-aware, yields at every lock boundary plus a count of
    held standard mutexes so that the simulator never parks under one)"""
    dst = os.path.join(tmp, "repo-inst")
    if os.path.exists(dst):
        return dst
    p = subprocess.run(["rsync", "-a", "--exclude", ".git", repo_path().rstrip("/") + "/", dst + "/"], stdout=subprocess.PIPE, stderr=subprocess.STDOUT, text=True)
    if p.returncode != 0:
        raise Harness("copying the repository failed: " + p.stdout)
    if isinstance(inject, dict):
        tool = os.path.join(tmp, "lockinject")
        tdir = os.path.join(VERIF, "tools", "lockinject")
        p = subprocess.run([GO, "build", "-o", tool, "."], cwd=tdir, env=env_base(), stdout=subprocess.PIPE, stderr=subprocess.STDOUT, text=True)
        if p.returncode != 0:
            raise Harness("building lockinject failed: " + p.stdout)
        p = subprocess.run([tool, dst] + inject["packages"], env=env_base(), stdout=subprocess.PIPE, stderr=subprocess.STDOUT, text=True)
        if p.returncode != 0:
            log(p.stdout)
            raise Harness("lock injection failed")
        warn = [l for l in p.stdout.splitlines() if l.startswith("warning:")]
        mapcalls = [l for l in warn if "map-valued call" in l]
        log("instrumented copy: " + p.stdout.strip().splitlines()[-1] + (" (%d ranges over map-valued calls left as they are)" % len(mapcalls) if mapcalls else ""))
        for l in warn:
            if l not in mapcalls:
                log("    lockinject " + l)
        return dst
    files = inject
    tool = os.path.join(tmp, "yieldinject")
    p = subprocess.run([GO, "build", "-o", tool, "./cmd/yieldinject"], cwd=SIM, env=env_base(), stdout=subprocess.PIPE, stderr=subprocess.STDOUT, text=True)
    if p.returncode != 0:
        raise Harness("building yieldinject failed: " + p.stdout)
    p = subprocess.run([tool] + [os.path.join(dst, f) for f in files if os.path.exists(os.path.join(dst, f))], stdout=subprocess.PIPE, stderr=subprocess.STDOUT, text=True)
    if p.returncode != 0:
        log(p.stdout)
        raise Harness("yield injection failed")
    log("instrumented copy: " + " ".join(l.split(": ")[1] for l in p.stdout.strip().splitlines() if ": " in l))
    return dst


def build(engine, tmp, race=False, inject=None):
    repo = repo_path()
    if inject:
        repo = instrumented_copy(tmp, inject)
    mod = open(os.path.join(SIM, "go.mod")).read()
    mod = re.sub(r"replace perun.network/go-perun => .*", "replace perun.network/go-perun => " + repo, mod)
    modfile = os.path.join(tmp, "go.mod")
    open(modfile, "w").write(mod)
    sums = set(open(os.path.join(SIM, "go.sum")).read().splitlines())
    rs = os.path.join(repo, "go.sum")
    if os.path.exists(rs):
        sums |= set(open(rs).read().splitlines())
    open(os.path.join(tmp, "go.sum"), "w").write("\n".join(sorted(s for s in sums if s)) + "\n")
    out = os.path.join(tmp, engine + (".race" if race else "") + ".test")
    # -trimpath: build cache keys do not depend on the scratch directory, so repeated checks re-use the cache
    # instead of adding every package of every scratch copy to it (it had grown to 100 GB)
    cmd = [GO, "test", "-c", "-trimpath", "-tags", "verif", "-modfile=" + modfile, "-o", out]
    if race:
        cmd.append("-race")
    cmd.append("./engines/" + engine)
    t0 = time.time()
    p = subprocess.run(cmd, cwd=SIM, env=env_base(), stdout=subprocess.PIPE, stderr=subprocess.STDOUT, text=True)
    if p.returncode != 0 or not os.path.exists(out):
        log(p.stdout)
        raise Harness("build of engine %s failed against %s" % (engine, repo))
    log("built %s%s in %.1fs from %s" % (engine, " (race)" if race else "", time.time() - t0, repo))
    return out


def run_bin(binary, env_extra, timeout=None, capture=True):
    e = env_base()
    e.update({k: str(v) for k, v in env_extra.items()})
    return subprocess.run([binary, "-test.run", "^TestWorker$", "-test.timeout", "0", "-test.count", "1"],
                          env=e, stdout=subprocess.PIPE if capture else None,
                          stderr=subprocess.PIPE if capture else None, text=True, timeout=timeout, cwd=os.path.dirname(binary))


def get_plan(binary, prop, tier):
    p = run_bin(binary, dict(VERIF_MODE="plan", VERIF_PROP=prop, VERIF_TIER=tier), timeout=120)
    m = re.search(r"^PLAN (.*)$", p.stdout, re.M)
    if not m:
        log(p.stdout, p.stderr)
        raise Harness("no plan from engine")
    return json.loads(m.group(1))


PANIC_RE = re.compile(r"^(panic: .*|fatal error: .*)$", re.M)


def crash_signature(prop, stderr):
    """signature of a dead worker: property.crash@<first frames inside go-perun>"""
    m = PANIC_RE.search(stderr or "")
    if not m:
        return None, None
    head = m.group(1)
    frames = re.findall(r"^(perun\.network/go-perun/[^\s(]+(?:\([^)]*\))?[^\s(]*)\(", stderr[m.start():], re.M)
    frames = [f for f in frames if "/log." not in f and "/log/" not in f]
    site = frames[0] if frames else "unknown"
    if head.startswith("fatal error"):
        site = head.replace("fatal error: ", "fatal:").replace(" ", "-") + "@" + site
    return "%s.crash@%s" % (prop, site), head[:300]


def lockup_signature(prop, stderr):
    """A hung bubble means some goroutine waits for a std mutex that is never released. For C12 that is what
    the property calls a lock-up, unless the harness caused it (a simulator seam sleeping beneath repository
    code, rule R3). Returns (signature, detail) or (None, None)."""
    blocks = re.split(r"\n\s*\n", stderr or "")
    site = None
    for b in blocks:
        m = re.match(r"goroutine \d+ \[([^\]]*)\]:", b.strip())
        if not m or "synctest bubble" not in m.group(1):
            continue
        state = m.group(1)
        frames = re.findall(r"^([\w./\-]+(?:\([^)]*\))?[\w.\-]*)\(", b, re.M)
        # (seams never park while a standard mutex of the instrumented packages is held - Sim.UnderStdMutex -,
        # so a goroutine asleep in a seam beneath repository code is a bystander of the stall, not its cause)
        if "sync.Mutex.Lock" in state or "sync.RWMutex" in state:
            pf = [f for f in frames if f.startswith("perun.network/go-perun/") and "/log." not in f]
            if pf and site is None:
                site = pf[0]
    if site:
        return "%s.lockup@%s" % (prop, site), "a goroutine waits forever for a mutex held by a goroutine that never continues (simulation stalled)"
    return None, None


def r3_artefact(stderr):
    """True if the stalled bubble holds a send that the simulated bus keeps stalling until its sender's context ends
    (Bus.StallSendP): that end needs the simulated clock, which stands still while any goroutine of the bubble waits for a
    standard mutex (rule R3). Such a stall is one of the simulation, not of the code under test; the run is discarded."""
    for b in re.split(r"\n\s*\n", stderr or ""):
        m = re.match(r"goroutine \d+ \[([^\]]*)\]:", b.strip())
        if m and "synctest bubble" in m.group(1) and m.group(1).startswith("chan receive") and "verif/sim/world.(*Bus).Publish(" in b:
            return True
    return False


def replay_once(binary, path, tmp, tag, want_trace=False, timeout=300):
    out = os.path.join(tmp, "rr-%s.json" % tag)
    if os.path.exists(out):
        os.remove(out)
    env = dict(VERIF_MODE="replay", VERIF_REPLAY=path, VERIF_OUT=out, VERIF_PROP=json.load(open(path))["scenario"]["property"])
    if want_trace:
        env["VERIF_REPLAY_TRACE"] = "1"
    try:
        p = run_bin(binary, env, timeout=timeout)
    except subprocess.TimeoutExpired:
        return dict(kind="hang")
    if os.path.exists(out):
        r = json.load(open(out))
        return dict(kind="ok", violation=r.get("violation"), trace=r.get("trace"), trace_hash=r.get("trace_hash"))
    prop = env["VERIF_PROP"]
    sig, head = crash_signature(prop, p.stderr)
    if p.returncode == 3 or "WATCHDOG" in (p.stderr or ""):
        if PROPS.get(prop, {}).get("hang_is_lockup") and not r3_artefact(p.stderr):
            lsig, ldet = lockup_signature(prop, p.stderr)
            if lsig:
                return dict(kind="crash", violation=dict(check=lsig, detail=ldet, step=-1), stderr=p.stderr[-6000:])
        return dict(kind="hang", stderr=p.stderr[-3000:])
    if sig:
        return dict(kind="crash", violation=dict(check=sig, detail=head, step=-1), stderr=p.stderr[-6000:])
    return dict(kind="error", stderr=(p.stderr or "")[-3000:], stdout=(p.stdout or "")[-2000:])


def same_class(v, check):
    return v is not None and v.get("check") == check


def minimise(binary, rp, tmp, budget_s=120):
    """delta debugging on scenario.steps and scenario.faults while the same check keeps failing"""
    check = rp["violation"]["check"]
    t0 = time.time()
    counter = [0]
    lock = threading.Lock()

    def fails(sc):
        with lock:
            counter[0] += 1
            k = counter[0]
        path = os.path.join(tmp, "min-%d.json" % k)
        with open(path, "w") as f:
            json.dump(dict(scenario=sc), f)
        r = replay_once(binary, path, tmp, "min-%d" % k, timeout=120)
        os.remove(path)
        return same_class(r.get("violation"), check)

    def ddmin(sc, key):
        items = sc.get(key) or []
        n = 2
        while len(items) >= 1 and time.time() - t0 < budget_s:
            chunk = max(1, len(items) // n)
            subsets = [items[i:i + chunk] for i in range(0, len(items), chunk)]
            cands = []
            for i in range(len(subsets)):
                comp = [x for j, s in enumerate(subsets) if j != i for x in s]
                c = dict(sc)
                c[key] = comp
                cands.append(c)
            found = None
            with ThreadPoolExecutor(max_workers=8) as ex:
                for c, ok in zip(cands, ex.map(fails, cands)):
                    if ok and found is None:
                        found = c
            if found is not None:
                sc = found
                items = sc[key]
                n = max(n - 1, 2)
            else:
                if chunk == 1:
                    break
                n = min(len(items), n * 2)
        return sc

    sc = rp["scenario"]
    before = (len(sc.get("steps") or []), len(sc.get("faults") or []))
    sc = ddmin(sc, "faults")
    sc = ddmin(sc, "steps")
    sc = ddmin(sc, "faults")
    after = (len(sc.get("steps") or []), len(sc.get("faults") or []))
    return sc, before, after, counter[0]


def load_known(prop):
    path = os.path.join(VERIF, "known_findings.json")
    if not os.path.exists(path):
        return []
    return [k for k in json.load(open(path)) if k.get("property") == prop]


def finalize_violation(binary, prop, seed, rp, tmp, note=""):
    """confirm in a fresh process, minimise, write the replay file, return its path"""
    outdir = os.path.join(VERIF, "out", "replay")
    os.makedirs(outdir, exist_ok=True)
    raw = os.path.join(tmp, "viol-raw.json")
    wjson(raw, rp)
    r = replay_once(binary, raw, tmp, "confirm", want_trace=True)
    check = rp["violation"]["check"]
    reproduced = same_class(r.get("violation"), check)
    rp["reproduced"] = reproduced
    if reproduced:
        try:
            sc, before, after, n = minimise(binary, rp, tmp)
            rp["scenario"] = sc
            rp["minimised"] = True
            rp["note"] = (note + " minimised %s -> %s steps/faults in %d replays" % (before, after, n)).strip()
            mp = os.path.join(tmp, "viol-min.json")
            wjson(mp, rp)
            r2 = replay_once(binary, mp, tmp, "confirm2", want_trace=True)
            if same_class(r2.get("violation"), check):
                rp["violation"] = r2["violation"]
                if r2.get("trace"):
                    rp["trace"] = r2["trace"]
                if r2.get("stderr"):
                    rp["crash_output"] = r2["stderr"]
        except Exception as ex:  # minimisation is best effort
            rp["note"] = (note + " minimisation failed: %r" % (ex,)).strip()
    else:
        rp["note"] = (note + " replay in a fresh process gave: %s" % json.dumps(r.get("violation"))).strip()
    name = "%s-%s-%s.json" % (prop, seed, rp["scenario"].get("run", 0))
    path = os.path.join(outdir, name)
    wjson(path, rp, indent=1)
    return path


def run_batch(binary, prop, tier, seed, tmp, plan, known_regex, workers, budget_s, race=False, run_limit=None):
    """run the plan over worker processes; returns (summaries, violations, crashes, hangs)"""
    kf = os.path.join(tmp, "known.json")
    wjson(kf, known_regex)
    total = plan["runs"] if run_limit is None else min(plan["runs"], run_limit)
    procs = []
    tag = "race" if race else "w"
    for w in range(workers):
        out = os.path.join(tmp, "%s-%d.json" % (tag, w))
        cur = os.path.join(tmp, "%s-%d.cur" % (tag, w))
        env = env_base()
        env.update(VERIF_MODE="run", VERIF_PROP=prop, VERIF_TIER=tier, VERIF_SEED=str(seed), VERIF_FROM=str(w),
                   VERIF_TO=str(total), VERIF_STRIDE=str(workers), VERIF_OUT=out, VERIF_CUR=cur, VERIF_KNOWN=kf,
                   VERIF_SAMPLES="2" if w == 0 else "0")
        if budget_s:
            env["VERIF_BUDGET_S"] = str(budget_s)
        errf = open(os.path.join(tmp, "%s-%d.err" % (tag, w)), "w")
        p = subprocess.Popen([binary, "-test.run", "^TestWorker$", "-test.timeout", "0", "-test.count", "1"],
                             env=env, stdout=subprocess.DEVNULL, stderr=errf, cwd=tmp)
        procs.append((w, p, out, cur, errf))
    summaries, violations, crashes, hangs = [], [], [], []
    for w, p, out, cur, errf in procs:
        p.wait()
        errf.close()
        err = open(errf.name).read()
        if os.path.exists(out) and p.returncode == 0:
            s = json.load(open(out))
            summaries.append(s)
            for v in s.get("violations") or []:
                violations.append(v)
        else:
            if p.returncode == 3 or "WATCHDOG" in err:
                hangs.append(dict(worker=w, stderr=err, cur=cur if os.path.exists(cur) else None, rc=3))
            else:
                crashes.append(dict(worker=w, cur=cur if os.path.exists(cur) else None, stderr=err, rc=p.returncode))
    return summaries, violations, crashes, hangs


def merge(summaries):
    m = dict(runs=0, evals=0, sim_ns=0, digests=set(), nontrivial=set(), states=set(), inter=set(), counters={}, known={},
             samples=[], budget_cut=False, describe=None, plan=None, cpu_s=0.0)
    for s in summaries:
        m["runs"] += s["runs"]
        m["evals"] += s["evals"]
        m["sim_ns"] += s["sim_ns"]
        m["cpu_s"] += s["wall_s"]
        m["digests"].update(s.get("digests") or [])
        m["nontrivial"].update(s.get("nontrivial") or [])
        m["states"].update(s.get("states") or [])
        m["inter"].update(s.get("interleavings") or [])
        for k, v in (s.get("counters") or {}).items():
            m["counters"][k] = m["counters"].get(k, 0) + v
        for k, v in (s.get("known") or {}).items():
            m["known"][k] = m["known"].get(k, 0) + v
        m["samples"] += s.get("samples") or []
        m["budget_cut"] |= bool(s.get("budget_cut"))
        m["describe"] = s.get("describe") or m["describe"]
        m["plan"] = s.get("plan") or m["plan"]
    return m


def write_evidence(prop, tier, seed, level, m, wall, violations, extra):
    d = m["describe"] or {}
    faults = {k[6:]: v for k, v in sorted(m["counters"].items()) if k.startswith("fault.")}
    probes = {k[6:]: v for k, v in sorted(m["counters"].items()) if k.startswith("probe.")}
    ops = {k: v for k, v in sorted(m["counters"].items()) if not k.startswith("fault.") and not k.startswith("probe.")}
    samples = m["samples"][:3]
    if not samples:
        samples = [dict(note="no sample recorded")]
    cov = dict(
        evaluations=int(m["evals"]),
        distinct_nontrivial=len(m["nontrivial"]),
        rule=d.get("rule", ""),
        samples=samples,
        simulated_runs=int(m["runs"]),
        distinct_scenario_schedule_digests=len(m["digests"]),
        runs_per_hour=int(m["runs"] / wall * 3600) if wall > 0 else 0,
        seeds_per_hour=int(m["runs"] / wall * 3600) if wall > 0 else 0,
        simulated_time_s=round(m["sim_ns"] / 1e9, 3),
        faults_fired=faults,
        probes=probes,
        operation_counts=ops,
        distinct_interleavings=len(m["inter"]),
        distinct_interleavings_measure="hash of the order of seam events projected on (actor, event type)",
        distinct_abstract_states=len(m["states"]),
        fault_kinds=d.get("fault_kinds") or [],
        real_components=d.get("real_components") or [],
        stub_components=d.get("stub_components") or [],
        known_findings_seen=m["known"],
        budget_cut=m["budget_cut"],
        worker_cpu_s=round(m["cpu_s"], 2),
    )
    plan = m["plan"] or {}
    if plan.get("exhaustive"):
        cov["enumerated_subspace"] = plan.get("exhaustive_note", "")
        cov["enumerated_runs"] = plan.get("exhaustive")
    cov["exhaustive"] = False
    cov.update(extra or {})
    ev = dict(property_id=prop, tier=tier, seed=int(seed), level=level, coverage=cov,
              assumptions=d.get("assumptions") or [], wall_s=round(wall, 2), violations=violations)
    # evidence describes runs against /repo itself; runs against a scratch tree
    # (canaries, seeded changes via VERIF_REPO) must not overwrite it
    edir = os.path.join(VERIF, "evidence") if os.path.realpath(repo_path()) == "/repo" else os.path.join(VERIF, "out", "evidence-scratch")
    os.makedirs(edir, exist_ok=True)
    wjson(os.path.join(edir, prop + ".json"), ev, indent=1)


def check_property(prop, tier, seed, workers, replay=None, budget_s=None, run_limit=None):
    info = PROPS[prop]
    t0 = time.time()
    tmp = tempfile.mkdtemp(prefix="verif-%s-" % prop, dir=os.environ.get("VERIF_TMP", "/var/tmp"))
    try:
        binary = build(info["engine"], tmp, inject=info.get("inject"))
        if replay:
            replay = os.path.abspath(replay)
            rp = json.load(open(replay))
            r = replay_once(binary, replay, tmp, "user", want_trace=True)
            want = (rp.get("violation") or {}).get("check")
            got = (r.get("violation") or {}).get("check")
            if r["kind"] in ("hang", "error"):
                log("replay trouble:", json.dumps(r)[:2000])
                return 2
            if got is not None:
                log("replayed: %s: %s" % (got, r["violation"].get("detail")))
                for l in (r.get("trace") or [])[-int(os.environ.get("VERIF_SHOW_TRACE", "40")):]:
                    log("  " + l)
                if want is None or want == got:
                    log("VIOLATION property=%s replay=%s" % (prop, os.path.abspath(replay)))
                    return 1
                log("note: the file recorded %s" % want)
                log("VIOLATION property=%s replay=%s" % (prop, os.path.abspath(replay)))
                return 1
            if os.environ.get("VERIF_SHOW_TRACE"):
                for l in (r.get("trace") or [])[-int(os.environ["VERIF_SHOW_TRACE"]):]:
                    log("  " + l)
            log("replay passes on this tree")
            return 0

        known = load_known(prop)
        known_regex = [k["signature"] for k in known if k.get("status") == "known"]
        nviol = 0
        viol_paths = []
        # 1. targeted replays of recorded findings
        for k in known:
            f = k.get("replay")
            if not f:
                continue
            fpath = os.path.join(VERIF, f)
            r = replay_once(binary, fpath, tmp, "kf")
            got = (r.get("violation") or {}).get("check")
            if r["kind"] in ("hang", "error"):
                raise Harness("replay of finding %s failed: %s" % (f, json.dumps(r)[:1500]))
            if k.get("status") == "known":
                if got and re.search(k["signature"], got):
                    log("KNOWN-FINDING: property=%s %s" % (prop, k["description"]))
                elif got:
                    log("finding replay %s now fails differently: %s" % (f, got))
                    p = finalize_violation(binary, prop, seed, dict(scenario=json.load(open(fpath))["scenario"], violation=r["violation"]), tmp)
                    viol_paths.append(p)
                else:
                    log("note: known finding %s no longer reproduces on this tree" % k["signature"])
            else:  # fixed: must pass
                if got:
                    log("fixed finding has returned: %s" % got)
                    p = finalize_violation(binary, prop, seed, dict(scenario=json.load(open(fpath))["scenario"], violation=r["violation"]), tmp)
                    viol_paths.append(p)
        # 2. seeded search
        plan = get_plan(binary, prop, tier)
        summaries, violations, crashes, hangs = run_batch(binary, prop, tier, seed, tmp, plan, known_regex, workers, budget_s, run_limit=run_limit)
        nlock = 0
        for h in list(hangs):
            if r3_artefact(h.get("stderr")):
                log("note: one run discarded - the simulation stalled while the simulated bus was stalling a send (rule R3 artefact, DESIGN 10.2)")
                hangs.remove(h)
                continue
            if info.get("hang_is_lockup") and h.get("cur"):
                lsig, ldet = lockup_signature(prop, h["stderr"])
                if lsig:
                    rp = json.load(open(h["cur"]))
                    rp["violation"] = dict(check=lsig, detail=ldet, step=-1)
                    rp["crash_output"] = h["stderr"][-8000:]
                    hangs.remove(h)
                    if any(re.search(k, lsig) for k in known_regex):
                        log("KNOWN-FINDING (lock-up seen in search): property=%s %s" % (prop, lsig))
                        continue
                    nlock += 1
                    if nlock > 1:
                        # every replay of a stalled simulation costs a watchdog period: one minimised
                        # replay file per check is enough, the others are only counted
                        log("  (lock-up also in run %s: %s)" % (rp["scenario"].get("run"), lsig))
                        continue
                    viol_paths.append(finalize_violation(binary, prop, seed, rp, tmp, note="simulation stalled on a mutex"))
        if hangs:
            log(hangs[0]["stderr"][-4000:])
            try:
                # keep what there is for a post-mortem (the scratch directory is removed)
                od = os.path.join(VERIF, "out", "hang")
                os.makedirs(od, exist_ok=True)
                tag = "%s-%s-%d" % (prop, seed, int(time.time()))
                open(os.path.join(od, tag + ".stderr.txt"), "w").write(hangs[0]["stderr"])
                if hangs[0].get("cur") and os.path.exists(hangs[0]["cur"]):
                    shutil.copy(hangs[0]["cur"], os.path.join(od, tag + ".scenario.json"))
            except Exception:
                pass
            raise Harness("worker hung (watchdog)")
        for c in crashes:
            sig, head = crash_signature(prop, c["stderr"])
            if not sig or not c["cur"]:
                log(c["stderr"][-5000:])
                raise Harness("worker %d died (rc=%s) outside a recorded run" % (c["worker"], c["rc"]))
            rp = json.load(open(c["cur"]))
            rp["violation"] = dict(check=sig, detail=head, step=-1)
            rp["crash_output"] = c["stderr"][-6000:]
            if any(re.search(k, sig) for k in known_regex):
                log("KNOWN-FINDING (crash seen in search): property=%s %s" % (prop, sig))
                continue
            viol_paths.append(finalize_violation(binary, prop, seed, rp, tmp, note="worker process died"))
        violations.sort(key=lambda v: v["run"])
        if len(violations) > 3:
            tally = {}
            for v in violations:
                tally[v["check"]] = tally.get(v["check"], 0) + 1
            for k, n in sorted(tally.items(), key=lambda kv: -kv[1]):
                log("  tally: %5d x %s" % (n, k))
        for v in violations[:3]:
            rp = json.load(open(v["replay"]))
            viol_paths.append(finalize_violation(binary, prop, seed, rp, tmp))
        m = merge(summaries)
        extra = {}
        if info.get("race") and not viol_paths:
            rb = build(info["engine"], tmp, race=True, inject=info.get("inject"))
            rplan = get_plan(rb, prop, tier)
            rl = max(50, plan["runs"] // 8)
            rs, rv, rc, rh = run_batch(rb, prop, tier, seed, tmp, rplan, known_regex, workers, budget_s, race=True, run_limit=rl)
            races = []
            for c in rc:
                if "WARNING: DATA RACE" in c["stderr"]:
                    races.append(c)
                else:
                    log(c["stderr"][-3000:])
                    raise Harness("race-mode worker died")
            for w in range(workers):
                errp = os.path.join(tmp, "race-%d.err" % w)
                if os.path.exists(errp) and "WARNING: DATA RACE" in open(errp).read() and not any(c["worker"] == w for c in races):
                    races.append(dict(worker=w, stderr=open(errp).read(), cur=None))
            rm = merge(rs)
            extra["race_mode_runs"] = rm["runs"]
            extra["race_reports"] = len(races)
            for c in races[:1]:
                frames = re.findall(r"perun\.network/go-perun/[^\s(]+(?:\([^)]*\))?[^\s(]*", c["stderr"])
                site = frames[0] if frames else "unknown"
                sig = "%s.data-race@%s" % (prop, site)
                if any(re.search(k, sig) for k in known_regex):
                    log("KNOWN-FINDING (race detector): property=%s %s" % (prop, sig))
                    continue
                outdir = os.path.join(VERIF, "out", "replay")
                os.makedirs(outdir, exist_ok=True)
                path = os.path.join(outdir, "%s-%s-race.json" % (prop, seed))
                json.dump(dict(scenario=dict(engine=info["engine"], property=prop, seed=int(seed), run=0, steps=[], config={"race": 1}),
                               violation=dict(check=sig, detail="data race reported by the race detector", step=-1),
                               race_report=c["stderr"][:8000]), open(path, "w"), indent=1)
                viol_paths.append(path)
            for v in rv[:1]:
                viol_paths.append(finalize_violation(rb, prop, seed, json.load(open(v["replay"])), tmp))
        wall = time.time() - t0
        if m["runs"] == 0 and not viol_paths:
            raise Harness("no runs completed")
        write_evidence(prop, tier, seed, info["level"], m, wall, len(viol_paths), extra)
        for k, n in sorted(m["known"].items()):
            log("known finding seen in search %d times: %s" % (n, k))
        log("%s %s: %d runs, %d evaluations, %d distinct non-trivial, %.1fs" % (prop, tier, m["runs"], m["evals"], len(m["nontrivial"]), wall))
        if viol_paths:
            for p in viol_paths:
                rp = json.load(open(p))
                log("  %s: %s" % (rp["violation"]["check"], rp["violation"]["detail"]))
                log("VIOLATION property=%s replay=%s" % (prop, p))
            return 1
        return 0
    finally:
        shutil.rmtree(tmp, ignore_errors=True)


def main(argv):
    ap = argparse.ArgumentParser()
    ap.add_argument("target")
    ap.add_argument("--tier", default=os.environ.get("VERIF_TIER", "quick"))
    ap.add_argument("--replay")
    ap.add_argument("--workers", type=int, default=int(os.environ.get("VERIF_WORKERS", "0")))
    ap.add_argument("--budget", type=int, default=int(os.environ.get("VERIF_BUDGET_S", "0")))
    ap.add_argument("--limit", type=int, default=None)
    a = ap.parse_args(argv)
    seed = os.environ.get("VERIF_SEED", "1")
    workers = a.workers or min(16, os.cpu_count() or 1)
    try:
        if a.target in PROPS:
            return check_property(a.target, a.tier, seed, workers, replay=a.replay, budget_s=a.budget or None, run_limit=a.limit)
        if a.target.startswith("selftest"):
            import selftest
            return selftest.main(a.target, a, seed, workers)
        log("unknown target", a.target)
        return 2
    except Harness as h:
        log("HARNESS-ERROR:", h)
        return 2
