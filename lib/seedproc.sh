#!/bin/sh
# seedproc.sh <id>...: confirm a finished seeded change from /tmp/seed-out/<id>, evaluate the checks against it, drop its worktree
cd "$(dirname "$0")/.."
for id in "$@"; do
  python3 lib/seedtool.py verify /tmp/seed-out/$id $id > /tmp/seed-out/$id.verify.log 2>&1
  tail -n 1 /tmp/seed-out/$id.verify.log
  git -C /repo worktree remove --force /tmp/seed-$id 2>/dev/null; rm -rf /tmp/seed-$id
  [ -d seeded/$id ] && python3 lib/seedtool.py eval $id 2>&1 | grep -a "^$id"
done
