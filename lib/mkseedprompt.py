#!/usr/bin/env python3
"""mkseedprompt.py <wave> [<id>...]: write the task text for independent reviewers who seed a property-breaking
change (one per property) into /tmp/seed-prompts/<id>-w<wave>.txt and create their scratch worktrees
/tmp/seed-<id>-w<wave> of /repo. The text holds only the property (from properties.jsonl), the list of earlier
changes (summaries from seeded/*/meta.json, so that reviewers do not repeat them) and this wave's focus - nothing
else from /verif. Results are expected in /tmp/seed-out/<id>-w<wave>/ (see lib/seedproc.sh)."""
import json, os, subprocess, sys

V = os.path.dirname(os.path.dirname(os.path.abspath(__file__)))
FOCUS = json.load(open(os.path.join(V, "lib", "seedfocus.json")))

TEXT = """You are a Go engineer helping to evaluate a verification effort for the open-source repository hyperledger-labs/go-perun (Go implementation of the Perun state channel protocols). You get one semantic property of the code base. Your job is to write ONE realistic change to the repository that BREAKS this property while the code still compiles and the repository's existing test suite still passes, plus a demonstration that exposes the breakage.

Your private copy of the repository is the git worktree at /tmp/seed-{sid} (already created, at the current HEAD). Work ONLY inside /tmp/seed-{sid} and write your results to /tmp/seed-out/{sid}/ . Do not read or touch /repo, /verif or any other /tmp/seed-* directory.

## The property ({pid}: {title})

Statement: {statement}

Quantifier: {quant}

Code it is anchored in: {files}

## What to produce

1. A change (bug) to non-test source files of the repository such that
   - `go build ./...` succeeds and `go vet` of the touched packages is clean,
   - the repository's existing tests still pass unchanged: run at least the packages you touched and their dependants, ideally `go test -vet=off -count=1 -timeout 25m $(go list ./... | grep -v libp2p)` (the libp2p package needs network and fails regardless; ignore it; wire/net/simple sometimes fails under machine load with a port clash - re-run it alone before concluding anything). Do not edit, delete or skip existing tests.
   - the property above is violated for some input / schedule / crash point / history.
   The change must look like something a developer could plausibly write (a refactoring slip, an off-by-one, a check moved or weakened, a lock narrowed, a field forgotten, an "optimisation"), not an obvious sabotage. IMPORTANT: prefer changes that need something specific to manifest rather than ones ordinary use exposes at once: a particular interleaving, a crash or fault at a particular point, a multi-step sequence of operations, an unusual but legal input, or two cooperating sites that each look fine alone. Keep it small (typically 1-15 changed lines, at most two sites).
   Earlier reviewers already produced these changes: {earlier} Do NOT change the same functions again; pick a different function or file.
   This round's focus for this property: {focus} Within that focus, prefer a change that needs a specific combination, sequence, timing or fault to manifest, so that exercising the common paths with random inputs for a few seconds is unlikely to hit it.
2. A demonstration: a new Go test file (or small program) that FAILS with your change and PASSES without it. Verify both. NEVER use `git stash` (the stash is shared between worktrees and other people are working in sibling worktrees): to test without your change, save it with `git diff -- . ':!*_demo_test.go' > /tmp/seed-out/{sid}/patch.diff`, revert with `git apply -R /tmp/seed-out/{sid}/patch.diff`, run the demonstration, and re-apply with `git apply /tmp/seed-out/{sid}/patch.diff`. The demonstration may use test helpers of the repository. It should be deterministic or fail with high probability within a minute.
3. Write into /tmp/seed-out/{sid}/ :
   - `patch.diff` - `git diff` of the change only (without the demonstration; new untracked demonstration files are not part of `git diff` anyway),
   - the demonstration file(s), plus `demo.md` saying where to place them and the exact command to run,
   - `meta.json` - {{"property": "{pid}", "summary": "<one sentence: what the change does>", "needs": "<what specific input/schedule/fault/sequence is needed for the property to break>", "files": [...], "demo": {{"files": {{"<file name in this directory>": "<path in the repository where it must be placed>"}}, "cmd": "<go test command run from the repository root, with -timeout, exits non-zero iff the property is broken>"}}, "verified": {{"builds": true|false, "existing_tests_pass": "<what you ran and the result>", "demo_fails_with_change": true|false, "demo_passes_without_change": true|false}}}}.

## Environment

No network. Every shell command needs: `export GOFLAGS=-mod=mod GOPROXY=off GOSUMDB=off GOTOOLCHAIN=local`. Use the default `go` (1.23). Always pass `-timeout` to `go test`. The machine is shared: avoid `-race` on the whole repository and do not run more than one full test-suite pass at a time. Do not run `git commit`; leave your change as uncommitted modifications in /tmp/seed-{sid} (plus the new demonstration file). If your first idea turns out to be caught by the existing tests, pick another one. Finish with a short report: the idea, what is needed to trigger it, and the verification you did.
"""


def main():
    wave = sys.argv[1]
    props = {}
    for l in open(os.path.join(V, "properties.jsonl")):
        p = json.loads(l)
        props[p["id"]] = p
    ids = sys.argv[2:] or sorted(FOCUS.get("w" + wave, {}))
    os.makedirs("/tmp/seed-prompts", exist_ok=True)
    os.makedirs("/tmp/seed-out", exist_ok=True)
    sdir = os.path.join(V, "seeded")
    for pid in ids:
        p = props[pid]
        sid = "%s-w%s" % (pid, wave)
        earlier = []
        for d in sorted(os.listdir(sdir)):
            mp = os.path.join(sdir, d, "meta.json")
            if d.startswith(pid + "-") and os.path.exists(mp):
                m = json.load(open(mp))
                earlier.append("[%s] %s..." % (", ".join(m.get("files", [])), m.get("summary", "")[:160]))
        text = TEXT.format(sid=sid, pid=pid, title=p["title"], statement=p["statement"], quant=p["quantifier"]["text"],
                           files=", ".join(p["anchors"]["files"]), earlier=" ".join(earlier) or "(none)", focus=FOCUS["w" + wave][pid])
        open("/tmp/seed-prompts/%s.txt" % sid, "w").write(text)
        wt = "/tmp/seed-" + sid
        if not os.path.exists(wt):
            subprocess.run(["git", "-C", "/repo", "worktree", "add", "--detach", wt, "HEAD"], check=True, stdout=subprocess.DEVNULL, stderr=subprocess.DEVNULL)
        os.makedirs("/tmp/seed-out/" + sid, exist_ok=True)
        print(sid)


if __name__ == "__main__":
    main()
