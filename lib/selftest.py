"""Self tests: determinism of the world engines and sensitivity to canary patches."""
import json, os, re, shutil, subprocess, sys, tempfile, time
import coord


def determinism(props, runs, seed, reps=3):
    """run the first `runs` runs of each property `reps` times in separate processes, with different
    worker counts and GOMAXPROCS in the environment, and compare per-run hashes of the seam-event order."""
    rc = 0
    for prop in props:
        info = coord.PROPS[prop]
        tmp = tempfile.mkdtemp(prefix="verif-det-", dir=os.environ.get("VERIF_TMP", "/var/tmp"))
        try:
            binary = coord.build(info["engine"], tmp, inject=info.get("inject"))
            results = []
            for rep, (workers, gmp) in enumerate([(1, "1"), (4, "4"), (16, "16")][:reps]):
                hashes = {}
                procs = []
                for w in range(workers):
                    out = os.path.join(tmp, "det-%d-%d.json" % (rep, w))
                    env = coord.env_base()
                    env.update(VERIF_MODE="run", VERIF_PROP=prop, VERIF_TIER="quick", VERIF_SEED=str(seed), VERIF_FROM=str(w),
                               VERIF_TO=str(runs), VERIF_STRIDE=str(workers), VERIF_OUT=out, VERIF_RUNHASH="1", VERIF_SAMPLES="0",
                               VERIF_MAX_VIOL="1000000", GOMAXPROCS=gmp)
                    procs.append((out, subprocess.Popen([binary, "-test.run", "^TestWorker$", "-test.timeout", "0"], env=env,
                                                        stdout=subprocess.DEVNULL, stderr=subprocess.PIPE, cwd=tmp)))
                for out, p in procs:
                    _, err = p.communicate()
                    if p.returncode != 0 or not os.path.exists(out):
                        print(err.decode()[-3000:])
                        print("HARNESS-ERROR: determinism worker failed")
                        return 2
                    hashes.update(json.load(open(out)).get("run_hashes") or {})
                results.append(hashes)
            base = results[0]
            diverging = sorted(int(k) for k in base if any(r.get(k) != base[k] for r in results[1:]))
            print("determinism %s: %d runs x %d executions (workers/GOMAXPROCS 1,4,16): %d diverging run(s) %s" % (
                prop, len(base), len(results), len(diverging), diverging[:10]))
            os.makedirs(os.path.join(coord.VERIF, "out"), exist_ok=True)
            coord.wjson(os.path.join(coord.VERIF, "out", "determinism-%s.json" % prop),
                        dict(property=prop, runs=len(base), executions=len(results), diverging=diverging, seed=int(seed)))
            if diverging:
                rc = 1
        finally:
            shutil.rmtree(tmp, ignore_errors=True)
    return rc


def canaries(seed, only=None):
    """apply each /verif/canaries/*.patch to a scratch copy of /repo and require the named quick check to fail"""
    cdir = os.path.join(coord.VERIF, "canaries")
    metas = sorted(f for f in os.listdir(cdir) if f.endswith(".json"))
    missed, caught = [], []
    for mf in metas:
        meta = json.load(open(os.path.join(cdir, mf)))
        name = mf[:-5]
        if only and only not in name and only not in meta["properties"]:
            continue
        wt = tempfile.mkdtemp(prefix="verif-canary-", dir="/tmp")
        os.rmdir(wt)
        try:
            subprocess.run(["git", "-C", "/repo", "worktree", "add", "-q", "--detach", wt, "HEAD"], check=True)
            p = subprocess.run(["git", "-C", wt, "apply", os.path.join(cdir, name + ".patch")], stderr=subprocess.PIPE, text=True)
            if p.returncode != 0:
                print("canary %s: patch does not apply: %s" % (name, p.stderr.strip()))
                missed.append((name, "patch-failed"))
                continue
            b = subprocess.run(["go", "build", "./..."], cwd=wt, env=coord.env_base(), stderr=subprocess.PIPE, text=True)
            if b.returncode != 0:
                print("canary %s: does not compile: %s" % (name, b.stderr[-400:]))
                missed.append((name, "no-compile"))
                continue
            for prop in meta["properties"]:
                env = dict(os.environ, VERIF_REPO=wt, VERIF_SEED=str(seed))
                t0 = time.time()
                r = subprocess.run([os.path.join(coord.VERIF, "check"), prop, "--tier", meta.get("tier", "quick")], env=env,
                                   stdout=subprocess.PIPE, stderr=subprocess.STDOUT, text=True)
                hit = r.returncode == 1 and "VIOLATION property=%s" % prop in r.stdout
                m = re.search(r"^  (\S+): ", r.stdout, re.M)
                print("canary %-40s %s: %s in %.0fs (%s)" % (name, prop, "caught" if hit else "MISSED rc=%d" % r.returncode, time.time() - t0,
                                                           m.group(1) if m else "-"))
                (caught if hit else missed).append((name, prop))
        finally:
            subprocess.run(["git", "-C", "/repo", "worktree", "remove", "--force", wt], stderr=subprocess.DEVNULL)
            shutil.rmtree(wt, ignore_errors=True)
    print("canaries: %d caught, %d missed" % (len(caught), len(missed)))
    for m in missed:
        print("  missed:", m)
    # evidence files were rewritten by runs against scratch trees; the caller should re-run the real checks
    return 0 if not missed else 1


def main(target, args, seed, workers):
    if target == "selftest-determinism":
        props = os.environ.get("VERIF_PROPS", "C06,C03,C04,C08,C07,C12,C05,C18,C20").split(",")
        props = [p for p in props if p in coord.PROPS]
        return determinism(props, args.limit or 240, seed)
    if target == "selftest-canaries":
        return canaries(seed, os.environ.get("VERIF_ONLY"))
    print("unknown selftest", target)
    return 2
