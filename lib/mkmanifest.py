#!/usr/bin/env python3
"""Regenerates /verif/MANIFEST.json from the table below (kept in one place so the file stays valid)."""
import json, os, subprocess

VERIF = os.path.dirname(os.path.dirname(os.path.abspath(__file__)))

NA_PURE = {
    "C15": "pure relation on pairs of in-memory values (Equal vs. encodings, signature binding): no schedule, clock, stream, fault or history for a simulator to control; deciding it would be input generation in simulator vocabulary (DESIGN section 8). Its history-dependent consequence (a peer editing a signed field in transit) is covered adversarially by C07.",
    "C17": "the channel ID is a pure function of the parameters; nothing concurrent, timed, faulty or history-dependent to simulate (DESIGN section 8). Side invariants (restored parameters keep their ID, both peers derive the same ID) are asserted inside C10 and C08 without being claimed.",
    "C19": "absence of shared mutable memory between a value and its clone is a property of single-threaded pointer graphs, not of schedules, faults or histories (DESIGN section 8).",
}

# id -> (engine, level, technique, text, note, design_ref)
CHECKS = {
    "C01": ("machine", "exploration",
            "seeded call programs + hostile signature delivery against the real StateMachine, checked by an independent signature ledger after every call",
            "Seeded search over call programs (all operations, any phase) and over what a hostile network can deliver as a signature (wrong signer, other state, replayed, duplicated, malformed). After every call the current transaction must carry, per participant, a signature that verifies and that the harness itself recorded as made by that participant over exactly that state encoding. Sampling, not proof: a clean batch is evidence.",
            "Trusts the sim backend's ECDSA sign/verify as ground truth for 'verifies'; the ledger cross-check does not. Indices >= N and ForceUpdate/CheckUpdate on a machine without a current state are outside the property's quantifier.",
            "6/C01"),
    "C02": ("machine", "exploration",
            "reachable states by accepted updates; valid successors, single-condition and multi-condition mutants vs. an independent reference predicate",
            "At states reached through accepted updates, candidates (valid successors, one-clause mutants of them, random multi-clause mutants) are offered to Update, CheckUpdate and Init; err==nil must equal a reference predicate written from the property statement, refusals must leave the machine unchanged and unsigned. Sampling of a large input space at reachable reference points.",
            "The reference predicate is part of the trusted base (sim/gen/ref.go, 120 lines, never calls Valid/Sum/Equal of the code under test). nil big integers and >1024-dimension allocations are not generated.",
            "6/C02"),
    "C09": ("machine", "exploration",
            "reference phase automaton from the doc comments; enumerated short call sequences after 8 prefixes + seeded long programs; byte snapshots for atomicity",
            "Every call's error/success, resulting phase, staged and current transaction are compared with a reference automaton written from the operations' doc comments; failed calls must leave a byte-identical snapshot. All sequences of a fixed length over a 22-operation canonical alphabet are enumerated after each of 8 prefixes for both participant indices (reported as an enumerated sub-space), longer programs are sampled.",
            "The automaton (harness.go) is the trusted base. Where a doc comment is silent on a precondition (SetProgressing) the error text of the method is taken as documentation.",
            "6/C09"),
}

NOT_YET = {}


def main():
    props = [json.loads(l) for l in open(os.path.join(VERIF, "properties.jsonl"))]
    ids = [p["id"] for p in props]
    checks = []
    for pid in ids:
        if pid not in CHECKS:
            continue
        eng, level, tech, text, note, ref = CHECKS[pid]
        checks.append(dict(
            property_id=pid,
            quick_cmd="./check %s --tier quick" % pid,
            thorough_cmd="./check %s --tier thorough" % pid,
            evidence_file="/verif/evidence/%s.json" % pid,
            replay_cmd_template="./check %s --replay {path}" % pid,
            engine=eng,
            level_claimed=dict(category=level, text=text, design_ref="DESIGN.md section " + ref),
            level_note=note,
            technique="deterministic simulation with fault injection: " + tech,
        ))
    na = []
    for pid in ids:
        if pid in CHECKS:
            continue
        if pid in NA_PURE:
            na.append(dict(property_id=pid, reason=NA_PURE[pid]))
        else:
            na.append(dict(property_id=pid, reason=NOT_YET.get(pid, "not claimed yet: the engine for this property is under construction (DESIGN.md section 9); no check is registered until it runs clean on the unchanged tree")))
    hooks_commits = []
    hf = os.path.join(VERIF, "hooks_commits.txt")
    if os.path.exists(hf):
        hooks_commits = [l.split()[0] for l in open(hf) if l.strip() and not l.startswith("#")]
    engines = {}
    for pid, c in CHECKS.items():
        engines.setdefault(c[0], []).append(pid)
    m = dict(
        version=1,
        setup_cmd="./setup.sh",
        hooks=dict(
            guard="verif",
            enable="checks build a test binary of /verif/sim/engines/<engine> with `go1.26.8 test -c -tags verif -modfile=<tmp>/go.mod` whose replace directive points at /repo (or $VERIF_REPO); the tag turns perun.network/go-perun/simhook.Yield from an empty function into a call of the simulator's handler",
            baseline_off_cmd="cd /repo && GOFLAGS=-mod=mod GOPROXY=off GOSUMDB=off GOTOOLCHAIN=local go test -json -vet=off -count=1 -timeout 25m ./...",
            source_commits=hooks_commits,
            add_only=True,
        ),
        engines=[dict(name=e, path="/verif/sim/engines/" + e, serves_properties=sorted(ps),
                      kind_free_text="seeded deterministic simulation engine (Go test binary driven by /verif/check)") for e, ps in sorted(engines.items())],
        checks=checks,
        not_applicable=na,
        notes="Entry point ./check <id> --tier quick|thorough [--replay file]; honours VERIF_SEED, VERIF_TIER, VERIF_REPO. Exit 0/1/2 as described in DESIGN.md section 4.6. Known and fixed findings: known_findings.json with replay files under findings/.",
    )
    with open(os.path.join(VERIF, "MANIFEST.json"), "w") as f:
        json.dump(m, f, indent=1)
    print("MANIFEST.json: %d checks, %d not claimed" % (len(checks), len(na)))


if __name__ == "__main__":
    main()
