#!/usr/bin/env python3
"""Regenerates /verif/MANIFEST.json from the table below (kept in one place so the file stays valid)."""
import json, os, subprocess

VERIF = os.path.dirname(os.path.dirname(os.path.abspath(__file__)))

NA_PURE = {
    "C15": "pure relation on pairs of in-memory values (Equal vs. encodings, signature binding): no schedule, clock, stream, fault or history for a simulator to control; deciding it would be input generation in simulator vocabulary (DESIGN section 8). Its history-dependent consequence (a peer editing a signed field in transit) is covered adversarially by C07.",
    "C17": "the channel ID is a pure function of the parameters; nothing concurrent, timed, faulty or history-dependent to simulate (DESIGN section 8). Side invariants (restored parameters keep their ID, both peers derive the same ID) are asserted inside C10 and C08 without being claimed.",
    "C19": "absence of shared mutable memory between a value and its clone is a property of single-threaded pointer graphs, not of schedules, faults or histories (DESIGN section 8).",
}

# id -> (engine, level, technique, text, note, design_ref)
CHECKS = {
    "C01": ("machine", "exploration",
            "seeded call programs + hostile signature delivery against the real StateMachine, checked by an independent signature ledger after every call",
            "Seeded search over call programs (all operations, any phase) and over what a hostile network can deliver as a signature (wrong signer, other state, replayed, duplicated, malformed). After every call the current transaction must carry, per participant, a signature that verifies and that the harness itself recorded as made by that participant over exactly that state encoding. Sampling, not proof: a clean batch is evidence. Waves 8-9: a restore op (RestoreStateMachine from the live machine, nothing observable may change) and a clone op after which the machine left behind must never change again. Wave 10: marathon programs (130-180 promotions), big channels (16/64 participants, 8 assets). Wave 11: adjudicator events carry a drawn participant index and an unsigned current state that did not come from the event is a violation of its own.",
            "Trusts the sim backend's ECDSA sign/verify as ground truth for 'verifies'; the ledger cross-check does not. Indices >= N and ForceUpdate/CheckUpdate on a machine without a current state are outside the property's quantifier.",
            "6/C01"),
    "C02": ("machine", "exploration",
            "reachable states by accepted updates; valid successors, single-condition and multi-condition mutants vs. an independent reference predicate",
            "At states reached through accepted updates, candidates (valid successors, one-clause mutants of them, random multi-clause mutants) are offered to Update, CheckUpdate and Init; err==nil must equal a reference predicate written from the property statement, refusals must leave the machine unchanged and unsigned. Sampling of a large input space at reachable reference points. Waves 8-9: candidates obtained through the library's own State().Clone() and edited in place, judged against the harness's own copy; a refused Init must leave the machine unchanged and unsigned; restore and clone ops as in C01. Wave 10: balances at the 128-byte limit (sums need a carry word); marathon programs and big channels as in C01.",
            "The reference predicate is part of the trusted base (sim/gen/ref.go, 120 lines, never calls Valid/Sum/Equal of the code under test). nil big integers and >1024-dimension allocations are not generated.",
            "6/C02"),
    "C09": ("machine", "exploration",
            "reference phase automaton from the doc comments; enumerated short call sequences after 8 prefixes + seeded long programs; byte snapshots for atomicity",
            "Every call's error/success, resulting phase, staged and current transaction are compared with a reference automaton written from the operations' doc comments; failed calls must leave a byte-identical snapshot. All sequences of a fixed length over a 22-operation canonical alphabet are enumerated after each of 8 prefixes for both participant indices (reported as an enumerated sub-space), longer programs are sampled. Waves 8-9: restore op; the machine left behind by a clone op must never change again. Wave 10: marathon programs (130-180 promotions) and big channels as in C01.",
            "The automaton (harness.go) is the trusted base. Where a doc comment is silent on a precondition (SetProgressing) the error text of the method is taken as documentation.",
            "6/C09"),
    "C03": ("world", "exploration",
            "two real clients + local watchers in a synctest bubble on a simulated bus and a strict reference ledger; seeded scenarios x keyed schedules; payouts vs. last commonly enabled state",
            "Whole-system simulation: real client.Client, real local watcher, simulated bus, strict ledger (verifies signatures, tree shapes, challenge period on the fake clock, pays once). Scenarios draw assets, balances, funding agreement, accepted/rejected payments, sub-channel open/pay/close, final vs. dispute settlement, who settles first; schedules come from keyed delays at every seam and yield points (hand-placed hooks plus automatically injected ones at the lock boundaries of a scratch copy). After both sides settled: account = before - agreed funding + balance in the last state both enabled (open sub-channels included), nothing held, conservation after every ledger mutation. Later additions: one side moving its whole balance into a sub-channel, the parent moving on between a sub-channel's final update and its settlement, callers that cancel their context the moment the state is enabled, a late return of Publish on the synchronous bus; a driver call that never returns is a violation. Wave 9: settlement while a sub-channel update waits for a slow decision, with impatient first Settle attempts.",
            "The strict ledger's contract (DESIGN 3.2) is a design decision; sub-channels only under no-app parents (the payment app forbids the funding update); a Settle call that fails because registered events of the tree have not all arrived is repeated by the driver, as a user would (counted as probe).",
            "6/C03"),
    "C04": ("world", "exploration",
            "as C03 plus an adversary registering outdated signed states at seeded instants (between/during updates, during sub-channel funding); outcome vs. honest client's Enabled stream",
            "The peer's real client runs the off-chain protocol while an adversary goroutine registers earlier fully signed states from that client's own history at drawn instants; the honest side watches and settles when notified. Oracle: the concluded tree consists of states the honest client enabled, each at least as new as what it had enabled when its machine entered Registered, and its payout is at least its balances there. Two genuine defects are recorded as known findings, identified by history shape; every other violation is reported. Later additions: the instant a state is handed to the watcher is recorded by a pass-through wrapper (known-finding shape); a slow user decision on a sub-channel update while the dispute starts, impatient Settle contexts, cancel-on-enable; a driver call that never returns is a violation. Wave 7: a slow user decision on a ledger-channel update while the dispute starts, a user who settles only after the challenge period; a forwarding AdjudicatorSub records when the client's event loop took each event, and the known shape ends 100 ms after the first registered event was taken (an update put on the wire later is not the known defect). Wave 9: the honest side's next Register fails once (armed after the adversary's registration), the ledger re-delivers the latest event twice; a re-delivery after the challenge period is no occasion for the known-finding shape. Wave 11: the honest side starts watching a channel only after a drawn number of updates (late watch), at the latest when the adversary registers.",
            "Ledger latencies are bounded so that five refutation rounds fit into the challenge period (the protocol's own assumption). Refutations do not extend the challenge period in the reference ledger.",
            "6/C04"),
    "C06": ("world", "exploration",
            "two real clients in a synctest bubble; seeded update programs (sequential, concurrent, several channels) x keyed schedules and yield points (hand-placed hooks plus automatically injected ones at the lock boundaries of a scratch copy); agreement oracle over Enabled/SigAdded streams; token-configuration liveness",
            "Programs of up to 15 Channel.Update calls from either side on 1-3 channels with keyed accept/reject decisions; strict runs check success => both enabled the proposed state fully signed, rejection => never enabled, no fork, version gap <= 1, accept => enabled, both Acting + probe update; the token configuration additionally forbids any timeout (a lost reply inside the client). Loss, duplication and short contexts run in a separate relaxed configuration that only checks the fully-signed invariant, as the property says. Later additions: eager concurrent openings with an immediate first payment, late return of Publish, the invariant that a controller's in-memory state is the last state it enabled; a driver call that never returns is a violation. Wave 7: channel synchronisation messages injected during the update program (replies taken by the driver); restart runs without a timeout judge the success clause for updates that started on current instances; the survivor may update while its peer is being restored. Wave 9: handlers that answer with a context of 0-8 ms while Publish returns late; the success clause (Update returned nil => both enabled the state) is judged in relaxed runs on non-duplicating networks too. Wave 10: 10-12 channels opened at once by one side, each with an immediate first update, while the responder learns late of the completed funding. Wave 11: per-party funding confirmation delays (one side learns of the funding much later than the other).",
            "Exactly-once delivery in strict configurations is go-perun's stated assumption about the bus. Same-instant wake-ups are ordered by the Go runtime, not by the seed (measured by the determinism self-test: 0 diverging of 480 runs x 3 executions).",
            "6/C06"),
    "C10": ("persist", "fault_enumeration",
            "crash at every store-write boundary (enumerated) of seeded persisted-machine programs on memorydb and LevelDB; restore vs. before/after snapshots; failing writes in a relaxed configuration",
            "For every operation of every generated program and every write/batch boundary inside it, the durable image at that boundary is restored with a fresh restorer (LevelDB: written to a new directory and reopened) and RestoreChannel/RestorePeer must equal the harness's own before- or after-snapshot of the interrupted operation, exactly the after-snapshot once the operation completed; every restored staging signature must verify for the restored staged state; other channels restore unchanged. Crash points are enumerated per program, programs are sampled. Later addition: in the write-error configuration a failed Sig is retried; once it returns nil the store must hold the own signature. Wave 7: the three operations that take a state without validation (forced update, SetProgressing, SetProgressed) also get the current, a lower or a much higher version (the client itself forces the final form of the current version). Waves 8-9: channels with 9-11 participants; every operation is repeated after a failed write (a repeated call that returns nil has completed); an operation that returns nil although a write failed has completed. Wave 10: channels with 62-65 participants.",
            "Boundaries are individual Put/Delete calls and Batch.Apply (atomic), as the property states; torn batches and file-level LevelDB corruption are out of scope. Create/remove use two batches, so RestoreChannel and RestorePeer are judged independently between them.",
            "6/C10"),
    "C11": ("persist", "exploration",
            "seeded create/update/remove histories over up to 6 channels and a shared peer pool on both stores vs. a reference set of live channels, after every step",
            "After every step of a history the restorer's four views (RestoreChannel, RestorePeer, ActivePeers, RestoreAll) and the raw key set are compared with a reference set of live channels with snapshots; operations on one channel must leave every other channel's restored value byte-identical. Later additions: peers reachable under several backend ids; removals and creations whose first or second write fails (the half-removed/half-created channel is tolerated, every other channel must be unaffected). Wave 7: a second pool of wire identities whose bytes spell fragments of the store's key syntax (':channel:', 'Chan:', ...), two of them sharing the prefix up to the separator; forced/progressed states with the current, a lower or a much higher version. Waves 8-9: channels with 9-11 participants; write failures on state changes; an operation that returns nil although a write failed has completed.",
            "No crashes here (C10 covers them). LevelDB in 5% of runs.",
            "6/C11"),
    "C08": ("world", "exploration",
            "real two-party opening protocol under keyed schedules with scenario-controlled nonce shares; crafted single-condition proposal mutants injected by a raw peer (stranger or channel counterparty) at seeded instants",
            "(a) honest openings of ledger and sub-channels with drawn parameters: both sides must hold byte-identical parameters, ID, participant order and the same fully signed version-0 state equal to the proposal; openings that differ only in one side's nonce share must yield different IDs. (b) 24 kinds of proposals that break one validity condition are re-serialised (decodability enforced) and delivered to a client with or without a matching parent: the proposal handler must not run, no channel may be created, the process must survive (a dead worker is replayed in a fresh process and reported with the panic site) and a later honest proposal must still succeed. Later additions: proposals racing an update in flight on the parent (judged at handler time against the parent's current state), own proposals that the proposer's client refuses followed by an honest one, overlapping openings; a driver call that never returns is a violation. Waves 8-9: proposals built from one re-used options value (library-drawn nonce share, no collision is legitimate), an opening during which one message cannot be sent (the final honest opening must still work), two openings by one proposer at once. Wave 11: proposals whose asset list is a permutation of the parent channel's.",
            "Honest virtual channel openings run in a three-client world (c08v); virtual proposal mutants are injected by a raw peer. Invalid allocations are not decodable with the native serializer and therefore outside (b)'s quantifier there.",
            "6/C08"),
    "C07": ("world", "exploration",
            "adversary edits the counterparty client's outgoing update / sub-channel funding / settlement / virtual-channel funding and settlement messages in flight and re-signs them; independent acceptability predicate; two- and three-party worlds",
            "The adversary's node runs a real client for the honest protocol steps; at drawn points its outgoing update message is edited (40+ kinds of edits of state, signature, actor, locked sub-allocations, debit/credit distribution, index maps, signed virtual states), re-signed with its key, passed through the serializer and delivered. The honest side's handler accepts everything. Oracle: the honest client countersigned (acceptance message on the bus or state enabled) only if an independent predicate written from the property statement accepts the update for its class (ordinary / sub-channel funding / settlement / virtual funding / virtual settlement as hub). Later additions: multi-message crafts (stale funding after a payment, an ordinary update for v+2 built on v behind the funding update, a settlement crediting a final state whose acceptance could not be sent), send errors on the bus, the invariant that the hub's in-memory state is the last state it enabled. Waves 8-9: a settlement crediting the sub-channel's balances from before its final update. Wave 11: a sub-channel proposal with a funding agreement that differs from the initial balances plus a funding update that debits only the peer accordingly.",
            "The acceptability predicate (c07.go, c07v.go) is the trusted base. Three-party runs use the asynchronous bus only (the hub answers while holding a std mutex, rule R3).",
            "6/C07"),
    "C12": ("world", "exploration",
            "three-party world; seeded sequences of 1-6 decodable hostile envelopes (70 kinds over all request and response types, from the channel counterparty or a stranger) while the victim optionally holds its machine lock; process survival + bounded liveness probes on the fake clock",
            "Hostile envelopes are built at struct level (dimension mismatches, nil/empty transactions, short/long parent lists and index maps, answers to requests never made or pending, correct signatures over inconsistent content), passed through the run's serializer (native or protobuf; an envelope that cannot be encoded or decoded is outside the quantifier) and delivered at drawn instants, also while the victim's machine lock is held for 3 s or 12 s by a pending own request. Oracle: the worker process survives (a dead worker is replayed in a fresh process and reported with the panic site), and after the last message and 30 simulated seconds every honest probe (Phase, Update with a 60 s context on the channel with an honest third client and on the channel with the adversary's address) returns within 120 simulated seconds with anything but 'could not lock the machine mutex'. A simulation stalled on a mutex inside go-perun is reported as lock-up as well. Later additions: up to three honest virtual channels, locked-list mutations, embedded states with fewer balance columns, empty participant maps, two stateful adversaries around an abandoned or late-funded sub-channel opening, settlement proposals of the two parties 9.99-12 s apart, synchronous bus also in three-party runs. Wave 7: 17-40 late answers to a proposal of the victim that has timed out; the probes may begin with a new channel opening between two honest clients. Waves 8-9: a funding update aimed at the victim's recorded deadline (-1..+4 ms, all yield points on), 17-40 answers after a failed send of the victim's update, send faults while an honest virtual channel is funded or settled, one transient send error anywhere in the honest traffic; second scenario family: two honest clients (payments, sub-channel open/pay/close) with 2-12 % failing sends, then probes from both sides on every open channel (no lock wait, no unanswered request). Wave 11: a sub-channel between the adversary and the hub; a virtual settlement proposal that names this sub-channel instead of the virtual channel.",
            "The adversary's address is served by a real client that answers probes honestly but never sync messages (two clients running the library's sync handler bounce replies forever; noted in DESIGN). Runs are capped at 20000 seam events.",
            "6/C12"),
    "C13": ("link", "fault_enumeration",
            "truncation at every offset, bit flips, length/count/backend-id/type field overwrites, splices and random bytes on the decoders' input stream; protobuf-level structural mutations; child processes under an address-space limit; race-detector pass with 4-8 concurrent decoders",
            "Well-formed encodings of every wire type are corrupted by link/disk style faults (all truncation offsets enumerated for messages up to 2 KiB, others sampled) and fed to the native and protobuf envelope decoders and each value decoder. Oracle: a value or an error, never a panic, never a dead decoder process (out-of-memory under a 32 GiB address space limit counts); successful decodes respect the documented limits; dimension fields above the limit are rejected. Second pass: the engine is rebuilt with -race and valid states whose app is found by a predicate resolver are decoded on 4-8 goroutines at once (one decoder per connection is how the client runs); every decode must succeed and any data race in the decoders' shared tables is a violation. Wave 7: a second channel backend (id 1, 20-byte assets) is registered, so backend-id fields have two valid values and cross-ledger allocations decode. Wave 10: protobuf faults that set an amount to 128, 129 or 130 bytes with a small first byte.",
            "Value shapes are seeded input generation (stated in the evidence rule). The 32 GiB threshold is an assumption: no deployment hands that much memory to decoding a message of a few hundred bytes.",
            "6/C13"),
    "C14": ("link", "exploration",
            "streams of 1-20 concatenated seeded values of every wire type through both serializers; exact consumption, structural equality, byte-stable native re-encoding, signature and ID survival, serializer agreement; 2-3 concurrent senders on slow simulated connections in a synctest bubble",
            "Seeded values of all 17 message types and all serialisable channel values (full shape space of the property) are written back to back on one simulated link and decoded in order; each decode must yield an equal value (harness's own field-by-field comparison), stop exactly at the end of its bytes, re-encode natively to the same bytes, keep signatures verifying and IDs equal; envelopes through protobuf must agree with the native result. The world engines additionally re-serialise every envelope of every run with the run's serializer. Wave 7: a second channel backend (id 1, 20-byte assets): in a quarter of the shapes every second asset lives on the second ledger. Wave 10: balances of exactly 128 bytes; balance matrices of 65536 entries and more with each dimension inside its limit. Wave 11: wire address maps with non-contiguous backend ids.",
            "Input generation, not enumeration. Wire address maps carry up to three backend ids; wallet address maps only backend id 0 (the only wallet backend of the repository). In a fifth of the runs the envelopes are also encoded by 2-3 goroutines at once, each to its own connection whose writes take keyed simulated time; every connection must carry exactly what its sender sent.",
            "6/C14"),
    "C16": ("link", "fault_enumeration",
            "read/write chunk schedules (single bytes, segments, field boundaries +-1, random partitions, all single splits of short streams) on an open simulated link under wire/net ioConn with both serializers",
            "1-10 consecutive envelopes (byte fields up to 64 KiB through a blob-data app) are sent with the real ioConn.Send and read with ioConn.Recv under chunking schedules; every envelope must decode, in order, to what was sent, and identically under any two schedules. All single-split positions are enumerated for streams up to 1 KiB, other partitions are sampled. Sender-side fault: a Send of an envelope that cannot be encoded between well-formed ones; exactly the envelopes reported as sent must arrive. Wave 7: an envelope whose protobuf frame is 65535 +- 150 bytes is sent in between: its Send fails cleanly or it arrives, the stream stays framed either way; cross-ledger allocations. Wave 9: write faults now include short writes (io.ErrShortWrite, once or twice in a row) and partial writes followed by a timeout. Wave 10: balances of exactly 128 bytes.",
            "The stream stays open (a reader reporting EOF together with the last bytes is a closed connection, which the native codec treats as an error by design).",
            "6/C16"),
    "C05": ("watcher", "exploration",
            "the real local watcher on a scripted adjudicator in a synctest bubble; enumerated short action histories x 3 schedules + seeded long histories with racing publishes/events/stops and yield points (hand-placed hooks plus automatically injected ones at the lock boundaries of a scratch copy); reference model with explicit may-zones",
            "Driver actions (start watching parent/sub-channels, publish, inject registered/progressed/concluded events with any version, stop watching, refused stops) are issued with keyed gaps, partly concurrently, with self-caused events on or off and scripted Register failures. Every observable point gets a global number; the oracle checks must-refute, the shape of every Register call (newest parent in the admissible interval, one sub-state per locked sub-allocation in order, archived state for de-registered ones), no spurious registration, relay at-most-once/in-order/always for progressed and concluded, and the refused-stop contract. All histories up to length 5 (quick) / 6 (thorough) with one sub-channel and versions <= 2 are enumerated at 3 schedules each. Later additions: StopWatching(parent) racing StartWatchingSubChannel as an epilogue (exactly one of the two may succeed), scripted Subscribe failures. Wave 8: epilogue with a lagging client - 13-16 progressed events and a concluded one while the client does not read; it must get all of them, in order. Wave 10: epilogue in which one sub-channel is watched and de-registered 70 times in a row.",
            "The reference model with its may-zones (oracle.go) is the trusted base; workload restrictions are listed in the evidence assumptions. Multi-ledger channels are excluded, as in the property.",
            "6/C05"),
    "C18": ("relay", "exploration",
            "2-4 simulated threads on one real wire.Relay in a bubble, schedules through the relay/receiver yield points (hand-placed hooks plus automatically injected ones at the lock boundaries of a scratch copy); distribution invariants + porcupine linearizability against a sequential relay model; race-detector pass with real parallelism",
            "Programs of puts, subscribes, cache enable/release and consumer closes with overlapping predicates run on 2-4 threads with keyed gaps and a buggify mask over 7 yield sites; after quiescence the final distribution must have no duplicate, no predicate violation and no unaccounted envelope, and the stamped history must be linearizable (porcupine) against a sequential reference relay. The same engine is rebuilt with -race and run with GOMAXPROCS>1, including bursts of unsynchronised concurrent puts; any data race in wire/relay.go, cache.go or receiver.go is a violation. Wave 7: impatient consumers - Receiver.Next with a context that is already done or whose deadline passes while waiting, on a receiver that stays open; every envelope handed to the receiver must still be returned by exactly one call. Wave 9: epilogue on a relay of its own - a stalled receiver fills up, the producer blocks, the receiver is closed; the producer must go on and the other consumer gets all envelopes once; a stalled relay simulation is classified as lock-up. Wave 10: epilogues with 20-80 cached envelopes taken over by a late subscriber, and with 40 consumers with disjoint predicates most of which are closed in a drawn order.",
            "A cooperative scheduler cannot split a single append; unsynchronised conflicting accesses are therefore left to the happens-before race detector. Race-mode runs do not replay instruction for instruction.",
            "6/C18"),
    "C20": ("multi", "exploration",
            "real multi.Adjudicator/Funder over scripted per-ledger backends in a bubble; keyed sub-call latencies (all completion orders), failures and stalls; call-log oracle; race-detector pass",
            "Asset lists of 1-6 multi-ledger assets over up to 6 ledgers (repeated, reordered, unregistered, foreign ledgers registered), calls Register/Progress/Withdraw/Fund with and without an egoistic participant; from the call logs: every distinct ledger of the channel called exactly once and no other, success only if every forwarded call succeeded and every ledger was registered, the egoistic ledger's Fund starts only after all others returned nil, no dispatcher goroutine outlives the run. Later additions: the request's own content varies (secondary flag, participant index, zero balances per asset, sub-channel states); the caller may cancel its context while sub-calls are pending. Wave 9: twin requests (the other participant issues the same kind of request for the same channel and registered state concurrently), told apart by participant index. Wave 10: ledger ids that differ from another ledger's only by a white-space byte at an end. Wave 11: the egoistic participant's ledger may be first in the asset list.",
            "The converse 'fails although nothing failed' is only counted (the statement says 'succeeds only if').",
            "6/C20"),
}

NOT_YET = {}


def main():
    props = [json.loads(l) for l in open(os.path.join(VERIF, "properties.jsonl"))]
    ids = [p["id"] for p in props]
    checks = []
    for pid in ids:
        if pid not in CHECKS:
            continue
        eng, level, tech, text, note, ref = CHECKS[pid]
        checks.append(dict(
            property_id=pid,
            quick_cmd="./check %s --tier quick" % pid,
            thorough_cmd="./check %s --tier thorough" % pid,
            evidence_file="/verif/evidence/%s.json" % pid,
            replay_cmd_template="./check %s --replay {path}" % pid,
            engine=eng,
            level_claimed=dict(category=level, text=text, design_ref="DESIGN.md section " + ref),
            level_note=note,
            technique="deterministic simulation with fault injection: " + tech,
        ))
    na = []
    for pid in ids:
        if pid in CHECKS:
            continue
        if pid in NA_PURE:
            na.append(dict(property_id=pid, reason=NA_PURE[pid]))
        else:
            na.append(dict(property_id=pid, reason=NOT_YET.get(pid, "not claimed yet: the engine for this property is under construction (DESIGN.md section 9); no check is registered until it runs clean on the unchanged tree")))
    hooks_commits = []
    hf = os.path.join(VERIF, "hooks_commits.txt")
    if os.path.exists(hf):
        hooks_commits = [l.split()[0] for l in open(hf) if l.strip() and not l.startswith("#")]
    engines = {}
    for pid, c in CHECKS.items():
        engines.setdefault(c[0], []).append(pid)
    m = dict(
        version=1,
        setup_cmd="./setup.sh",
        hooks=dict(
            guard="verif",
            enable="checks build a test binary of /verif/sim/engines/<engine> with `go1.26.8 test -c -tags verif -modfile=<tmp>/go.mod` whose replace directive points at /repo (or $VERIF_REPO); the tag turns perun.network/go-perun/simhook.Yield from an empty function into a call of the simulator's handler",
            baseline_off_cmd="cd /repo && GOFLAGS=-mod=mod GOPROXY=off GOSUMDB=off GOTOOLCHAIN=local go test -json -vet=off -count=1 -timeout 25m ./...",
            source_commits=hooks_commits,
            add_only=True,
        ),
        engines=[dict(name=e, path="/verif/sim/engines/" + e, serves_properties=sorted(ps),
                      kind_free_text="seeded deterministic simulation engine (Go test binary driven by /verif/check)") for e, ps in sorted(engines.items())],
        checks=checks,
        not_applicable=na,
        notes="Entry point ./check <id> --tier quick|thorough [--replay file]; honours VERIF_SEED, VERIF_TIER, VERIF_REPO. Exit 0/1/2 as described in DESIGN.md section 4.6. Known and fixed findings: known_findings.json with replay files under findings/.",
    )
    with open(os.path.join(VERIF, "MANIFEST.json"), "w") as f:
        json.dump(m, f, indent=1)
    print("MANIFEST.json: %d checks, %d not claimed" % (len(checks), len(na)))


if __name__ == "__main__":
    main()
