#!/usr/bin/env python3
"""replaydbg.py <replay.json>: run a replay file with the library's own logger on stderr (debugging aid)."""
import sys, os, subprocess, json, tempfile, shutil
sys.path.insert(0, os.path.dirname(os.path.abspath(__file__)))
import coord

path = os.path.abspath(sys.argv[1])
prop = json.load(open(path))["scenario"]["property"]
info = coord.PROPS[prop]
tmp = tempfile.mkdtemp(prefix="verif-dbg-", dir="/var/tmp")
try:
    b = coord.build(info["engine"], tmp, inject=info.get("inject"))
    env = coord.env_base()
    env.update(VERIF_MODE="replay", VERIF_REPLAY=path, VERIF_OUT=os.path.join(tmp, "o.json"), VERIF_PROP=prop, VERIF_PLOG="1", VERIF_REPLAY_TRACE="1")
    p = subprocess.run([b, "-test.run", "^TestWorker$", "-test.timeout", "0", "-test.count", "1"], env=env, cwd=tmp, stdout=subprocess.PIPE, stderr=subprocess.PIPE, text=True)
    print(p.stderr[-int(os.environ.get("TAIL", "6000")):])
finally:
    shutil.rmtree(tmp, ignore_errors=True)
