#!/usr/bin/env python3
"""seedtool.py verify <src-dir> <id>   confirm an independently written breaking change and copy it to /verif/seeded/<id>
   seedtool.py eval [<id> ...] [--tier quick|thorough] [--props C01,C02]   run the checks against seeded changes, update RESULTS.md

A seeded change directory holds patch.diff, the demonstration file(s), demo.md and meta.json
({"property": ..., "demo": {"files": {"<name in dir>": "<path in repo>"}, "cmd": "go test ..."}, ...})."""
import json, os, re, shutil, subprocess, sys, tempfile, time

V = os.path.dirname(os.path.dirname(os.path.abspath(__file__)))
ENV = dict(os.environ, GOFLAGS="-mod=mod", GOPROXY="off", GOSUMDB="off", GOTOOLCHAIN="local")


def sh(cmd, cwd=None, timeout=3600):
    p = subprocess.run(cmd, cwd=cwd, env=ENV, shell=isinstance(cmd, str), stdout=subprocess.PIPE, stderr=subprocess.STDOUT, text=True, errors='replace', timeout=timeout)
    return p.returncode, p.stdout


def worktree():
    wt = tempfile.mkdtemp(prefix="seedwt-", dir="/tmp")
    os.rmdir(wt)
    subprocess.run(["git", "-C", "/repo", "worktree", "add", "-q", "--detach", wt, "HEAD"], check=True)
    return wt


def drop(wt):
    subprocess.run(["git", "-C", "/repo", "worktree", "remove", "--force", wt], stderr=subprocess.DEVNULL)
    shutil.rmtree(wt, ignore_errors=True)


def place_demo(d, meta, wt):
    for name, dest in meta["demo"]["files"].items():
        os.makedirs(os.path.dirname(os.path.join(wt, dest)), exist_ok=True)
        shutil.copy(os.path.join(d, name), os.path.join(wt, dest))


def verify(src, sid):
    meta = json.load(open(os.path.join(src, "meta.json")))
    if "demo" not in meta:
        sys.exit("meta.json needs demo: {files: {...}, cmd: ...}")
    wt = worktree()
    ran = {}
    try:
        # demonstration on the unchanged tree
        place_demo(src, meta, wt)
        rc0, out0 = sh(meta["demo"]["cmd"], cwd=wt, timeout=1800)
        ran["demo_without_change"] = "exit %d" % rc0
        rc, out = sh(["git", "apply", os.path.join(src, "patch.diff")], cwd=wt)
        if rc != 0:
            sys.exit("patch does not apply: " + out)
        rcb, outb = sh("go build ./... && go vet $(git diff --name-only | grep '\\.go$' | xargs -n1 dirname | sort -u | sed 's#^#./#')", cwd=wt)
        ran["build_vet"] = "exit %d" % rcb
        rc1, out1 = sh(meta["demo"]["cmd"], cwd=wt, timeout=1800)
        ran["demo_with_change"] = "exit %d" % rc1
        # existing tests with the change but without the demonstration
        for dest in meta["demo"]["files"].values():
            os.remove(os.path.join(wt, dest))
        t0 = time.time()
        rct, outt = sh("go test -vet=off -count=1 -timeout 25m $(go list ./... | grep -v libp2p)", cwd=wt, timeout=3000)
        failed_pkgs = re.findall(r"^FAIL[ \t]+(\S+)", outt, re.M)
        flaky = []
        had_fail_lines = bool(failed_pkgs)
        for pkg in list(failed_pkgs):
            # the sandbox is loaded by other jobs: a package that passes on a re-run is counted as flaky, not as broken
            for attempt in range(3):
                r2, o2 = sh("go test -vet=off -count=1 -timeout 25m " + pkg, cwd=wt, timeout=3000)
                if r2 == 0:
                    failed_pkgs.remove(pkg)
                    flaky.append(pkg)
                    break
        if had_fail_lines and not failed_pkgs:
            rct = 0
        ran["existing_tests"] = "go test ./... (without libp2p) in %.0fs: %s; passed only on re-run (load): %s" % (time.time() - t0, "all ok" if rct == 0 else "FAIL " + str(failed_pkgs), flaky)
        ok = rc0 == 0 and rcb == 0 and rc1 != 0 and rct == 0
        print(json.dumps(ran, indent=1))
        if not ok:
            print("NOT CONFIRMED")
            if rc0 != 0:
                print(out0[-1500:])
            if rcb != 0:
                print(outb[-1500:])
            if rct != 0:
                print(outt[-2500:])
            return 1
        dst = os.path.join(V, "seeded", sid)
        os.makedirs(dst, exist_ok=True)
        for f in os.listdir(src):
            if os.path.isfile(os.path.join(src, f)):
                shutil.copy(os.path.join(src, f), os.path.join(dst, f))
        meta["confirmed"] = dict(ran, base_commit=subprocess.run(["git", "-C", "/repo", "log", "--format=%h", "-1"], stdout=subprocess.PIPE, text=True).stdout.strip(),
                                 what="demonstration passes on the unchanged tree and fails with the patch; go build + go vet of touched packages clean; go test ./... (without libp2p, which needs network) passes with the patch")
        json.dump(meta, open(os.path.join(dst, "meta.json"), "w"), indent=1)
        print("CONFIRMED ->", dst)
        return 0
    finally:
        drop(wt)


def evaluate(ids, tier, props_override):
    sdir = os.path.join(V, "seeded")
    ids = ids or sorted(d for d in os.listdir(sdir) if os.path.isdir(os.path.join(sdir, d)))
    res_path = os.path.join(sdir, "results.json")
    results = json.load(open(res_path)) if os.path.exists(res_path) else {}
    for sid in ids:
        d = os.path.join(sdir, sid)
        meta = json.load(open(os.path.join(d, "meta.json")))
        props = props_override or meta.get("check_with") or [meta["property"]]
        wt = worktree()
        try:
            rc, out = sh(["git", "apply", os.path.join(d, "patch.diff")], cwd=wt)
            if rc != 0:
                print(sid, "patch does not apply:", out)
                continue
            for prop in props:
                t0 = time.time()
                p = subprocess.run([os.path.join(V, "check"), prop, "--tier", tier], env=dict(os.environ, VERIF_REPO=wt), stdout=subprocess.PIPE, stderr=subprocess.STDOUT, text=True)
                hit = p.returncode == 1 and ("VIOLATION property=%s" % prop) in p.stdout
                sigs = sorted(set(re.findall(r"^  (\S+): ", p.stdout, re.M)) - {"tally:", "tally"})
                r = dict(caught=hit, rc=p.returncode, seconds=round(time.time() - t0), signatures=sigs[:4], tier=tier)
                results.setdefault(sid, {})[prop + "/" + tier] = r
                print("%-28s %s %-8s %s %ss %s" % (sid, prop, tier, "CAUGHT" if hit else "missed(rc=%d)" % p.returncode, r["seconds"], sigs[:2]))
        finally:
            drop(wt)
    json.dump(results, open(res_path, "w"), indent=1)
    # RESULTS.md
    lines = ["# Independently seeded changes: which check catches which change", "",
             "| id | property | what the change does | needs | result |", "|---|---|---|---|---|"]
    for sid in sorted(os.listdir(sdir)):
        mp = os.path.join(sdir, sid, "meta.json")
        if not os.path.exists(mp):
            continue
        meta = json.load(open(mp))
        rs = results.get(sid, {})
        txt = "; ".join("%s %s%s" % (k, "caught" if v["caught"] else "MISSED", (" (" + ", ".join(v["signatures"][:2]) + ")") if v["caught"] else "") for k, v in sorted(rs.items())) or "not run"
        if meta.get("note"):
            txt += " - " + meta["note"]
        lines.append("| %s | %s | %s | %s | %s |" % (sid, meta["property"], meta.get("summary", "").replace("|", "/").replace("\n", " "), meta.get("needs", "").replace("|", "/").replace("\n", " "), txt))
    open(os.path.join(sdir, "RESULTS.md"), "w").write("\n".join(lines) + "\n")


if __name__ == "__main__":
    a = sys.argv[1:]
    if a and a[0] == "verify":
        sys.exit(verify(a[1], a[2]))
    if a and a[0] == "eval":
        tier, props, ids = "quick", None, []
        i = 1
        while i < len(a):
            if a[i] == "--tier":
                tier = a[i + 1]; i += 2
            elif a[i] == "--props":
                props = a[i + 1].split(","); i += 2
            else:
                ids.append(a[i]); i += 1
        evaluate(ids, tier, props)
        sys.exit(0)
    print(__doc__)
